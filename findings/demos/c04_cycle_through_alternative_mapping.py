import sys, warnings
sys.path.insert(0, "/repo"); sys.path.insert(0, "/repo/src")
warnings.simplefilter("ignore")
from test.dataset.example_classes import Backreference, Reference
from test.dataset.ormatic_interface import *
from krrood.ormatic.dao import to_dao
b = Backreference({1: 1}); r = Reference(0, b); b.reference = r
rb = to_dao(b).from_dao()
print("starting at the alternatively mapped object:", type(rb).__name__, type(rb.reference.backreference).__name__, rb.reference.backreference is rb)
rr = to_dao(r).from_dao()
print("starting at the plain object:", type(rr).__name__, type(rr.backreference).__name__, rr.backreference.reference is rr)
sys.exit(0 if rb.reference.backreference is rb else 1)
