import warnings; warnings.filterwarnings('ignore')
from dataclasses import dataclass, field
from typing import List
from krrood.entity_query_language.entity import entity, let, or_, not_, exists, flatten
from krrood.entity_query_language.predicate import symbolic_function
from krrood.entity_query_language.quantify_entity import an
@symbolic_function
def lt(a, b): return a < b
@symbolic_function
def is_two(a): return a == 2
x = let(int, [1, 2, 3]); y = let(int, [2, 3])
print("pred  :", list(an(entity(x, or_(exists(y, lt(x, y)), is_two(x)))).evaluate()), "expected [1, 2]")
x = let(int, [1, 2, 3]); y = let(int, [2, 3])
print("plain :", list(an(entity(x, or_(exists(y, x < y), x == 2))).evaluate()), "expected [1, 2]")
x = let(int, [1, 2, 3]); y = let(int, [2, 3])
print("exists pred alone :", list(an(entity(x, exists(y, lt(x, y)))).evaluate()), "expected [1, 2]")
x = let(int, [1, 2, 3]); y = let(int, [2, 3])
print("not exists pred   :", list(an(entity(x, not_(exists(y, lt(x, y))))).evaluate()), "expected [3]")
x = let(int, [1, 2, 3]); y = let(int, [2, 3])
print("not exists plain  :", list(an(entity(x, not_(exists(y, x < y)))).evaluate()), "expected [3]")
import warnings; warnings.filterwarnings('ignore')
from dataclasses import dataclass, field
from typing import List
from krrood.entity_query_language.entity import entity, let, or_, not_, exists, flatten
from krrood.entity_query_language.predicate import symbolic_function
from krrood.entity_query_language.quantify_entity import an
@dataclass(eq=False)
class Fruit:
    kind: str
@dataclass(eq=False)
class Box:
    name: str
    fruits: List[Fruit]
boxes=[Box("b1",[Fruit("apple"),Fruit("pear")]),Box("b2",[Fruit("pear"),Fruit("pear")])]
@symbolic_function
def is_apple(f): return f.kind=="apple"
fb=let(Box,boxes); f=flatten(fb.fruits)
print([b.name for b in an(entity(fb, not_(or_(exists(f, is_apple(f)), fb.name=="nope")))).evaluate()], "expected ['b2']")
fb=let(Box,boxes); f=flatten(fb.fruits)
print([b.name for b in an(entity(fb, not_(or_(exists(f, f.kind=="apple"), fb.name=="nope")))).evaluate()], "expected ['b2']")
