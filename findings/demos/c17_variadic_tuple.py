"""Demo: a variadic tuple field Tuple[X, ...] is classified as a collection of X."""
import sys, warnings
sys.path.insert(0, "/repo"); warnings.simplefilter("ignore")
from dataclasses import dataclass, field
from typing import Tuple
from krrood.class_diagrams.class_diagram import ClassDiagram
bad = 0
def expect(label, f, want):
    global bad
    try: got = f()
    except Exception as e: got = type(e).__name__ + ": " + str(e)[:60]
    ok = got == want
    bad += not ok
    print(("ok   " if ok else "FAIL ") + label, got, "expected", want)
@dataclass
class Waypoint:
    x: float = 0.0
@dataclass
class Route:
    legs: Tuple[Waypoint, ...] = ()
    checksums: Tuple[int, ...] = ()
cd = ClassDiagram([Route, Waypoint])
f = {x.name: x for x in cd.get_wrapped_class(Route).fields}
expect("legs: container / one-to-many / endpoint", lambda: (f["legs"].is_container, f["legs"].is_one_to_many_relationship, f["legs"].type_endpoint), (True, True, Waypoint))
expect("legs: collection of builtins", lambda: f["legs"].is_collection_of_builtins, False)
expect("checksums: collection of builtins", lambda: f["checksums"].is_collection_of_builtins, True)
expect("associations of Route", lambda: sorted(a.field.name for a in cd.associations if a.source.clazz is Route), ["legs"])
raise SystemExit(1 if bad else 0)
