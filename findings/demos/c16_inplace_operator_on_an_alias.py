from __future__ import annotations
import sys
from dataclasses import dataclass, field
from typing_extensions import List, Set, Type
from krrood.entity_query_language.predicate import Symbol
from krrood.entity_query_language.symbol_graph import SymbolGraph
from krrood.ontomatic.property_descriptor.mixins import HasInverseProperty
from krrood.ontomatic.property_descriptor.property_descriptor import PropertyDescriptor


@dataclass(eq=False)
class Team(Symbol):
    name: str
    players: List[Player] = field(default_factory=list)
    fans: Set[Player] = field(default_factory=set)


@dataclass(eq=False)
class Player(Symbol):
    name: str
    plays_for: List[Team] = field(default_factory=list)
    fan_of: List[Team] = field(default_factory=list)


@dataclass
class HasPlayer(PropertyDescriptor, HasInverseProperty):
    @classmethod
    def get_inverse(cls) -> Type[PlaysFor]:
        return PlaysFor


@dataclass
class PlaysFor(PropertyDescriptor, HasInverseProperty):
    @classmethod
    def get_inverse(cls) -> Type[HasPlayer]:
        return HasPlayer


@dataclass
class HasFan(PropertyDescriptor, HasInverseProperty):
    @classmethod
    def get_inverse(cls) -> Type[FanOf]:
        return FanOf


@dataclass
class FanOf(PropertyDescriptor, HasInverseProperty):
    @classmethod
    def get_inverse(cls) -> Type[HasFan]:
        return HasFan


Team.players = HasPlayer(Team, "players")
Player.plays_for = PlaysFor(Player, "plays_for")
Team.fans = HasFan(Team, "fans")
Player.fan_of = FanOf(Player, "fan_of")
SymbolGraph().clear()
SymbolGraph()


def related(source, target) -> bool:
    return any(r.target.instance is target for r in SymbolGraph().get_outgoing_relations(source))


bad = []
t = Team("t")
a, b, c, d = (Player(n) for n in "abcd")
t.players = [a]
lst = t.players
lst += [b]
if b not in t.players:
    bad.append("lst += [b]: b is not in the field")
if not related(t, b) or t not in b.plays_for:
    bad.append(f"lst += [b] through an alias of the field: b is in the field ({b in t.players}) but not recorded (related={related(t, b)}, inverse={[x.name for x in b.plays_for]})")
t.players += [c]
if not related(t, c) or t not in c.plays_for:
    bad.append("t.players += [c]: not recorded")
s = t.fans
s |= {d}
if d in t.fans and (not related(t, d) or t not in d.fan_of):
    bad.append(f"s |= {{d}} through an alias of the field: d is in the field but not recorded (related={related(t, d)}, inverse={[x.name for x in d.fan_of]})")
lst *= 2 if False else 1
if bad:
    print("VIOLATED"); [print(" -", x) for x in bad]; sys.exit(1)
print("ok")
