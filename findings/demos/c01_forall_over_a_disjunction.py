import warnings; warnings.filterwarnings('ignore')
from dataclasses import dataclass
from krrood.entity_query_language.entity import entity, let, or_, for_all
from krrood.entity_query_language.quantify_entity import an
@dataclass(eq=False)
class P: n: int
@dataclass(eq=False)
class Q: m: int
v = let(P, [P(5), P(0)]); z = let(Q, [Q(5), Q(0)])
print([q.m for q in an(entity(z, for_all(v, or_(v.n > 1, z.m > 1)))).evaluate()], "expected [5]")
v = let(P, [P(5), P(0)]); z = let(Q, [Q(5), Q(0)])
print([q.m for q in an(entity(z, for_all(v, or_(z.m > 1, v.n > 1)))).evaluate()], "expected [5] (operands swapped)")
import warnings, itertools, random; warnings.filterwarnings('ignore')
from dataclasses import dataclass
from krrood.entity_query_language.entity import entity, let, or_, and_, not_, for_all
from krrood.entity_query_language.quantify_entity import an
@dataclass(eq=False)
class P: n: int
@dataclass(eq=False)
class Q: m: int
random.seed(7)
bad = 0
for trial in range(60):
    ps = [P(random.randint(0, 3)) for _ in range(random.randint(1, 3))]
    qs = [Q(random.randint(0, 3)) for _ in range(random.randint(1, 3))]
    a, b = random.randint(0, 3), random.randint(0, 3)
    shape = trial % 4
    v = let(P, ps); z = let(Q, qs)
    if shape == 0:
        cond = or_(v.n > a, z.m > b); py = lambda p, q: p.n > a or q.m > b
    elif shape == 1:
        cond = or_(z.m > b, v.n > a); py = lambda p, q: q.m > b or p.n > a
    elif shape == 2:
        cond = and_(v.n >= a, z.m >= b); py = lambda p, q: p.n >= a and q.m >= b
    else:
        cond = or_(v.n > a, z.m == v.n); py = lambda p, q: p.n > a or q.m == p.n
    got = sorted(id(q) for q in an(entity(z, for_all(v, cond))).evaluate())
    want = sorted(id(q) for q in qs if all(py(p, q) for p in ps))
    if got != want:
        bad += 1
        if bad <= 5: print("shape", shape, "ps", [p.n for p in ps], "qs", [q.m for q in qs], "a", a, "b", b, "got", len(got), "want", len(want))
print("mismatches", bad, "of 60")
raise SystemExit(1 if bad else 0)
