import os, sys, warnings
sys.path.insert(0, "/repo"); sys.path.insert(0, "/repo/src")
warnings.simplefilter("ignore")
from sqlalchemy.orm import Session, configure_mappers
from krrood.entity_query_language.entity import entity, let, contains
from krrood.entity_query_language.quantify_entity import an
from krrood.entity_query_language.symbol_graph import SymbolGraph
from krrood.ormatic.dao import to_dao
from krrood.ormatic.eql_interface import eql_to_sql
from krrood.ormatic.utils import create_engine
from test.dataset.semantic_world_like_classes import World, Body
from test.dataset.ormatic_interface import Base
SymbolGraph(); configure_mappers()
engine = create_engine("sqlite:///:memory:"); session = Session(engine); Base.metadata.create_all(engine)
w = World(1, [Body("H1"), Body("h1c"), Body("Hx1"), Body("a_c"), Body("abc")])
session.add(to_dao(w)); session.commit()
bad = 0
for needle in ("h1", "a_c", "H%1"):
    def q():
        b = let(Body, domain=w.bodies, name="b")
        return an(entity(b, contains(b.name, needle)))
    mem = sorted(x.name for x in q().evaluate())
    sql = sorted(r.name for r in eql_to_sql(q(), session).evaluate())
    print(f"contains(b.name, {needle!r}) | memory: {mem} | sql: {sql} |", "OK" if mem == sql else "DIVERGES")
    bad += mem != sql
sys.exit(1 if bad else 0)
