import sys, gc
from dataclasses import dataclass
from sqlalchemy import ForeignKey, Integer, String
from sqlalchemy.orm import DeclarativeBase, Mapped, mapped_column
from krrood.ormatic.dao import DataAccessObject, AlternativeMapping, FromDAOState, T

@dataclass
class PA:
    base: float = 0
@dataclass
class CH(PA):
    lvl: float = 0
@dataclass
class PAMapping(AlternativeMapping[PA]):
    derived: str
    @classmethod
    def create_instance(cls, obj): return cls(str(obj.base))
    def create_from_dao(self): return PA(float(self.derived))
class Base(DeclarativeBase): pass
class PAMappingDAO(Base, DataAccessObject[PAMapping]):
    __tablename__="PAMappingDAO"
    database_id: Mapped[int] = mapped_column(Integer, primary_key=True)
    derived: Mapped[str] = mapped_column(String(255))
    polymorphic_type: Mapped[str] = mapped_column(String(255), nullable=False)
    __mapper_args__={"polymorphic_on":"polymorphic_type","polymorphic_identity":"PAMappingDAO"}
class CHDAO(PAMappingDAO, DataAccessObject[CH]):
    __tablename__="CHDAO"
    database_id: Mapped[int] = mapped_column(ForeignKey(PAMappingDAO.database_id), primary_key=True)
    lvl: Mapped[float] = mapped_column()
    __mapper_args__={"polymorphic_identity":"CHDAO","inherit_condition": database_id==PAMappingDAO.database_id}

st=FromDAOState()
daos=[CHDAO(derived=str(float(i)), lvl=float(i)) for i in range(3000)]
bad=0
for i,d in enumerate(daos):
    r=d.from_dao(state=st)
    if r.base != float(i):
        bad+=1
        if bad<4: print("WRONG", i, r)
print("bad", bad, "of", len(daos))
import weakref
st=FromDAOState()
d=CHDAO(derived="7.0", lvl=1.0)
r=d.from_dao(state=st)
print(len(st.memo), st.memo)
gc.collect()
# is temp parent dao alive?
print([type(o).__name__ for o in gc.get_objects() if isinstance(o, PAMappingDAO) and not isinstance(o, CHDAO)][:5])
st=FromDAOState()
bad=0
for i in range(300):
    d=CHDAO(derived=str(float(i)), lvl=float(i))
    r=d.from_dao(state=st)
    if r.base != float(i):
        bad+=1
        if bad<4: print("WRONG", i, r)
    gc.collect()
print("with gc each step: bad", bad)
