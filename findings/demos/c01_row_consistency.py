"""Demo (triage aid): every row of a multi-expression selection is one consistent assignment;
predicate arguments over one unbound variable are evaluated consistently."""
from dataclasses import dataclass
from krrood.entity_query_language.entity import entity, set_of, let, Symbol
from krrood.entity_query_language.quantify_entity import an
from krrood.entity_query_language.predicate import Predicate

@dataclass(eq=False)
class P(Symbol):
    a: int
    b: int

@dataclass(eq=False)
class SameAB(Predicate):
    u: int
    v: int
    def __call__(self):
        return self.u == self.v
bad = 0
xs = [P(0, 1), P(1, 0), P(2, 2)]
x = let(P, xs, "x")
xa = x.a
rows = [(r[x].a, r[xa]) for r in an(set_of([x, xa])).evaluate()]
print("set_of([x, x.a]) rows:", rows)
ok = all(obj_a == val for obj_a, val in rows) and len(rows) == 3
print("  consistent rows:", ok); bad += not ok
x = let(P, xs, "x")
got = [(r.a, r.b) for r in an(entity(x, SameAB(x.a, x.b))).evaluate()]
print("entity(x, SameAB(x.a, x.b)):", got, "expected [(2, 2)]"); bad += got != [(2, 2)]
raise SystemExit(1 if bad else 0)
