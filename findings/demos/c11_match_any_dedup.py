"""Demo (triage aid): match_any de-duplicates by value equality of the attribute."""
from dataclasses import dataclass, field
from typing_extensions import List
from krrood.entity_query_language.entity import Symbol
from krrood.entity_query_language.quantify_entity import an
from krrood.entity_query_language.match import entity_matching, match_any
from krrood.entity_query_language.symbol_graph import SymbolGraph

@dataclass
class Dr(Symbol):
    n: int
@dataclass(eq=False)
class Cab(Symbol):
    drawers: List[Dr] = field(default_factory=list)
SymbolGraph().clear(); SymbolGraph()
c1 = Cab([Dr(1), Dr(2)]); c2 = Cab([Dr(1), Dr(2)])   # equal drawer lists, distinct cabinets
res = list(an(entity_matching(Cab, [c1, c2])(drawers=match_any([Dr(1)]))).evaluate())
print("cabinets holding a drawer equal to Dr(1):", len(res), "(expected 2)")
shared = [Dr(1)]
c3 = Cab(shared); c4 = Cab(shared)                    # the very same list object
res2 = list(an(entity_matching(Cab, [c3, c4])(drawers=match_any([Dr(1)]))).evaluate())
print("cabinets sharing one drawer list object:", len(res2), "(expected 2)")
raise SystemExit(0 if len(res) == 2 and len(res2) == 2 else 1)
