from dataclasses import dataclass
from krrood.entity_query_language.entity import entity, set_of, let, and_, or_, not_, Symbol
from krrood.entity_query_language.quantify_entity import an, the

@dataclass(eq=False)
class P(Symbol):
    a: int
xs=[P(0),P(1)]
ys=[P(0),P(1)]
x=let(P,xs,'x'); y=let(P,ys,'y')
q=an(set_of([x,y], not_(or_(x.a==0, y.a==0))))
print(type(q._child_._child_), type(q._child_._child_._child_))
for r in q.evaluate(): print(r[x].a, r[y].a)
print('--- entity')
x=let(P,xs,'x'); y=let(P,ys,'y')
q=an(entity(x, not_(or_(x.a==0, y.a==0))))
print([r.a for r in q.evaluate()])
