import os, sys, warnings
sys.path.insert(0, "/repo"); sys.path.insert(0, "/repo/src")
warnings.simplefilter("ignore")
from sqlalchemy.orm import Session, configure_mappers
from krrood.entity_query_language.entity import entity, let, and_, or_
from krrood.entity_query_language.quantify_entity import an
from krrood.entity_query_language.symbol_graph import SymbolGraph
from krrood.ormatic.dao import to_dao
from krrood.ormatic.eql_interface import eql_to_sql, EQLTranslationError
from krrood.ormatic.utils import create_engine
from test.dataset.semantic_world_like_classes import World, Body, FixedConnection, PrismaticConnection
from test.dataset.ormatic_interface import Base
SymbolGraph(); configure_mappers()
engine = create_engine("sqlite:///:memory:"); session = Session(engine); Base.metadata.create_all(engine)
w = World(1, [Body("A1"), Body("A2"), Body("A3"), Body("H1")])
w.connections = [PrismaticConnection(w.bodies[0], w.bodies[1]), FixedConnection(w.bodies[1], w.bodies[2]), FixedConnection(w.bodies[2], w.bodies[3])]
session.add(to_dao(w)); session.commit()
bad = 0
def run(name, build):
    global bad
    mem = sorted((c.parent.name, c.child.name) for c in build().evaluate())
    try:
        out = ("rows", sorted((r.parent.name, r.child.name) for r in eql_to_sql(build(), session).evaluate()))
    except EQLTranslationError as e:
        out = ("rejected", type(e).__name__)
    ok = out[0] == "rejected" or out == ("rows", mem)
    bad += not ok
    print(name, "| memory:", mem, "| sql:", out, "|", "OK" if ok else "DIVERGES")
def q1():
    f = let(FixedConnection, domain=w.connections, name="f"); p = let(PrismaticConnection, domain=w.connections, name="p")
    return an(entity(f, and_(f.parent == p.child, f.child == p.parent)))
def q2():
    f = let(FixedConnection, domain=w.connections, name="f"); p = let(PrismaticConnection, domain=w.connections, name="p")
    return an(entity(f, or_(f.parent == p.child, f.child.name == "H1")))
run("two equalities onto one joined variable", q1)
run("join equality inside or_", q2)
sys.exit(1 if bad else 0)
