import warnings; warnings.filterwarnings('ignore')
from krrood.entity_query_language.entity import entity, let
from krrood.entity_query_language.quantify_entity import an
x = let(int, [0, 1, 2]); q = an(entity(x, x == 0))
print(list(q.evaluate()), "expected [0]")
d = x.real
print(list(q.evaluate()), "expected [0] (after d = x.real, used nowhere)")
x = let(int, [0, 1, 2]); d = x.real; q = an(entity(x, x == 0))
print(list(q.evaluate()), "expected [0] (d = x.real before the query)")
