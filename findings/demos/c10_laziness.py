from dataclasses import dataclass
from krrood.entity_query_language.entity import entity, let, Symbol, contains, in_, and_, set_of
from krrood.entity_query_language.quantify_entity import an
@dataclass(eq=False)
class P(Symbol):
    a: int
log=[]
def gen(n, tag):
    for i in range(n):
        log.append((tag,i)); yield P(i)
x=let(P, gen(5,'x'))
q=an(entity(x))
print("built; log", log)
it=iter(q.evaluate()); r=next(it)
print("first result", r.a, "pulled", len(log))
log.clear()
x=let(P, gen(5,'x'))
q=an(entity(x, x.a>=0))
it=iter(q.evaluate()); r=next(it)
print("with condition: first result", r.a, "pulled", len(log))
log.clear()
x=let(P, gen(5,'x')); y=let(P, gen(5,'y'))
q=an(set_of([x,y], x.a>=0))
it=iter(q.evaluate()); r=next(it)
print("set_of x,y cond on x only: pulled", log)
# literal generator consumed at construction
log.clear()
def ints():
    for i in [1,2,3]:
        log.append(('lit',i)); yield i
x=let(P,[P(1),P(5)])
c=in_(x.a, ints())
print("after constructing in_(x.a, generator): log", log)
print([r.a for r in an(entity(x,c)).evaluate()], "expected [1]")
class Weird:
    def __bool__(self):
        log.append('bool called'); return True
log.clear()
c = (x.a == Weird())
print("after constructing comparator with user object:", log)
