"""Demo (triage aid): building a query touches user data / consuming pulls more than needed."""
from dataclasses import dataclass
from krrood.entity_query_language.entity import entity, let, Symbol, in_, set_of
from krrood.entity_query_language.quantify_entity import an
from krrood.entity_query_language.match import match, entity_matching

@dataclass(eq=False)
class P(Symbol):
    a: int
log = []
bad = 0
def check(label, cond):
    global bad
    print(("ok   " if cond else "FAIL ") + label); bad += not cond

class Weird:
    def __bool__(self):
        log.append("bool"); return True
def ints():
    for i in [1, 2, 3]:
        log.append(("lit", i)); yield i

x = let(P, [P(1), P(5)])
log.clear(); c = in_(x.a, ints())
check(f"in_(x.a, generator): generator untouched at construction (log {log})", not log)
check("   ... and the answer is [1]", [r.a for r in an(entity(x, c)).evaluate()] == [1])
log.clear(); c = (x.a == Weird())
check(f"x.a == obj: obj.__bool__ not called at construction (log {log})", not log)
log.clear(); v = let(Weird, Weird())
check(f"let(T, single_object): __bool__ not called at construction (log {log})", not log)
log.clear(); m = entity_matching(Weird(), None)
check(f"match(obj): __bool__ not called at construction (log {log})", not log)
# demand-driven evaluation
def gen(n):
    for i in range(n):
        log.append(("dom", i)); yield P(i)
log.clear(); y = let(P, gen(5)); it = iter(an(entity(y)).evaluate()); next(it)
check(f"first result of an(entity(y)) pulls one element of a one-shot domain (pulled {len(log)})", len(log) == 1)
raise SystemExit(1 if bad else 0)
