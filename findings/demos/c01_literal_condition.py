import sys, warnings; warnings.filterwarnings('ignore')
sys.path.insert(0, "/repo")
from dataclasses import dataclass, field
from typing import List
from krrood.entity_query_language.entity import entity, let, Symbol, or_, and_, not_, flatten
from krrood.entity_query_language.quantify_entity import an
@dataclass(eq=False)
class P(Symbol):
    n: int
    flag: bool = False
    items: List[int] = field(default_factory=list)
bad = 0
def expect(label, f, want):
    global bad
    try: got = f()
    except Exception as e: got = repr(e)[:90]
    ok = got == want
    bad += not ok
    print(("ok   " if ok else "FAIL ") + label, got, "expected", want)
ps = [P(0, True), P(1, False), P(2, False, [3]), P(3, True, [3, 4])]
def q_a():
    x = let(P, ps); flag = x.flag
    first = sorted(p.n for p in an(entity(x, flag)).evaluate())
    second = sorted(p.n for p in an(entity(x, flag == False)).evaluate())
    return first, second
expect("attribute reused in a second query", q_a, ([0, 3], [1, 2]))
def q_b():
    x = let(P, ps)
    return sorted(p.n for p in an(entity(x, x.n > 0, False)).evaluate())
expect("literal False condition", q_b, [])
def q_b2():
    x = let(P, ps)
    return sorted(p.n for p in an(entity(x, x.n > 0, True)).evaluate())
expect("literal True condition", q_b2, [1, 2, 3])
def q_c():
    x = let(P, ps)
    return sorted(set(p.n for p in an(entity(x, or_(flatten(x.items) == 3, x.n == 1))).evaluate()))
# or_ over an empty flatten: the flattened element is a variable of the query; with an empty collection no assignment exists (join reading) - not a finding
raise SystemExit(1 if bad else 0)
