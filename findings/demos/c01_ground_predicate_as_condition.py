import sys
from dataclasses import dataclass
from krrood.entity_query_language.entity import let, entity, and_, or_, not_
from krrood.entity_query_language.quantify_entity import an
from krrood.entity_query_language.predicate import HasType, Predicate, symbolic_function


@dataclass(unsafe_hash=True)
class N:
    n: int


@dataclass
class Bigger(Predicate):
    a: int
    b: int

    def __call__(self):
        return self.a > self.b


xs = [N(0), N(1), N(2)]
x = let(N, xs)
bad = []
for label, cond, expected in [
    ("HasType(5, str)", lambda: HasType(5, str), []),
    ("HasType(5, int)", lambda: HasType(5, int), [0, 1, 2]),
    ("Bigger(1, 2)", lambda: Bigger(1, 2), []),
    ("Bigger(2, 1)", lambda: Bigger(2, 1), [0, 1, 2]),
]:
    for form, build in [("entity(x, P)", lambda c: entity(x, c)), ("entity(x, x.n >= 0, P)", lambda c: entity(x, x.n >= 0, c)), ("entity(x, P, x.n >= 0)", lambda c: entity(x, c, x.n >= 0))]:
        try:
            got = sorted(r.n for r in an(build(cond())).evaluate())
        except Exception as e:
            got = f"{type(e).__name__}: {e}"
        if got != expected:
            bad.append(f"{form} with P = {label}: got {got}, expected {expected}")
if bad:
    print("VIOLATED"); [print(" -", b) for b in bad]; sys.exit(1)
print("ok")
