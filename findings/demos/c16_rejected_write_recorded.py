"""A write the underlying container rejects must leave nothing recorded."""
from __future__ import annotations
import sys
from dataclasses import dataclass, field
from typing_extensions import List, Set, Type
from krrood.entity_query_language.predicate import Symbol
from krrood.entity_query_language.symbol_graph import SymbolGraph
from krrood.ontomatic.property_descriptor.mixins import HasInverseProperty
from krrood.ontomatic.property_descriptor.property_descriptor import PropertyDescriptor


@dataclass(eq=False)
class Team(Symbol):
    name: str
    players: List[Player] = field(default_factory=list)
    fans: Set[Loud] = field(default_factory=set)


@dataclass(eq=False)
class Player(Symbol):
    name: str
    plays_for: List[Team] = field(default_factory=list)


@dataclass
class Loud(Symbol):
    name: str
    fan_of: List[Team] = field(default_factory=list)


@dataclass
class HasPlayer(PropertyDescriptor, HasInverseProperty):
    @classmethod
    def get_inverse(cls) -> Type[PlaysFor]:
        return PlaysFor


@dataclass
class PlaysFor(PropertyDescriptor, HasInverseProperty):
    @classmethod
    def get_inverse(cls) -> Type[HasPlayer]:
        return HasPlayer


@dataclass
class HasFan(PropertyDescriptor, HasInverseProperty):
    @classmethod
    def get_inverse(cls) -> Type[FanOf]:
        return FanOf


@dataclass
class FanOf(PropertyDescriptor, HasInverseProperty):
    @classmethod
    def get_inverse(cls) -> Type[HasFan]:
        return HasFan


Team.players = HasPlayer(Team, "players")
Player.plays_for = PlaysFor(Player, "plays_for")
Team.fans = HasFan(Team, "fans")
Loud.fan_of = FanOf(Loud, "fan_of")

SymbolGraph().clear()
SymbolGraph()


def related(source, target) -> bool:
    return any(r.target.instance is target for r in SymbolGraph().get_outgoing_relations(source))


bad = []
t = Team("t")
a, b, c, d = (Player(n) for n in "abcd")
t.players = [a, b, c]
try:
    t.players[::2] = [d]
    bad.append("extended slice of the wrong size did not raise")
except ValueError:
    pass
if list(t.players) != [a, b, c]:
    bad.append(f"field changed: {[p.name for p in t.players]}")
if d.plays_for:
    bad.append(f"players[::2] = [d] on 3 elements: d is not in the field but d.plays_for = {[x.name for x in d.plays_for]}")
if related(t, d):
    bad.append("players[::2] = [d] on 3 elements: d is not in the field but related to the team in the symbol graph")

u = Loud("u")
try:
    t.fans.add(u)
    bad.append("unhashable element was accepted")
except TypeError:
    pass
if related(t, u):
    bad.append("fans.add(unhashable): it is not in the field but related to the team in the symbol graph")
if u.fan_of:
    bad.append(f"fans.add(unhashable): it is not in the field but its inverse field holds {[x.name for x in u.fan_of]}")
if bad:
    print("VIOLATED:"); [print(" -", x) for x in bad]; sys.exit(1)
print("ok")
