"""Demo (triage aid): domain-less variables vs. the live instances."""
import gc
from dataclasses import dataclass
from krrood.entity_query_language.entity import entity, let, Symbol
from krrood.entity_query_language.quantify_entity import an
from krrood.entity_query_language.symbol_graph import SymbolGraph
bad = 0
def expect(label, got, want):
    global bad
    ok = got == want; bad += not ok
    print(("ok   " if ok else "FAIL ") + label, got, "expected", want)

@dataclass(eq=False)
class A(Symbol): pass
@dataclass(eq=False)
class B(A): pass
@dataclass(eq=False)
class C(A): pass
@dataclass(eq=False)
class D(B, C): pass
SymbolGraph().clear(); SymbolGraph()
objs = [A(), B(), C(), D()]
res = list(an(entity(let(A, None))).evaluate())
expect("diamond: each instance once", sorted(type(o).__name__ for o in res), ["A", "B", "C", "D"])

@dataclass(eq=False)
class E(Symbol): pass
SymbolGraph().clear(); SymbolGraph()
keep = [E(), E()]
q = an(entity(let(E, None)))
n1 = len(list(q.evaluate()))
keep.append(E())
n2 = len(list(q.evaluate()))
expect("re-evaluation sees the instance created since (SG-EVALTIME, known finding)", (n1, n2), (2, 3))
raise SystemExit(1 if bad else 0)
