import sys
sys.path.insert(0, "/repo")
from krrood.entity_query_language.entity import entity, let, for_all, in_, and_
from krrood.entity_query_language.quantify_entity import an
from krrood.entity_query_language.predicate import symbolic_function
bad = 0
def expect(label, got, want):
    global bad
    ok = got == want
    bad += not ok
    print(("ok   " if ok else "FAIL ") + label, got, "expected", want)

calls = []
@symbolic_function
def le(a, b):
    calls.append((a, b))
    return a <= b

x = let(int, [1, 2, 3, 4]); y = let(int, [3, 2])
got = sorted(an(entity(x, for_all(y, le(x, y)))).evaluate())
expect("for_all over a predicate", got, [1, 2])
expect("predicate invoked for each y", sorted(set(b for a, b in calls)), [2, 3])

@symbolic_function
def gt(a, b):
    return a > b
x = let(int, [1, 2, 3, 4, 5, 6]); y = let(int, [2, 4])
got = sorted(an(entity(x, in_(x, [1, 2, 3, 4]), x == an(entity(y, gt(y, 3))))).evaluate())
expect("predicate as the only condition of a nested query", got, [4])
raise SystemExit(1 if bad else 0)
