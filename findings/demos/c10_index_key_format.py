import warnings; warnings.filterwarnings('ignore')
from dataclasses import dataclass, field
from typing import Dict, Any
from krrood.entity_query_language.entity import let, entity
log=[]
class Key:
    def __hash__(self): return 1
    def __eq__(self,o): return self is o
    def __str__(self): log.append('str'); return 'K'
    def __repr__(self): log.append('repr'); return 'K'
    def __format__(self, spec): log.append('format'); return 'K'
@dataclass
class Box:
    items: Dict[Any,int] = field(default_factory=dict)
k=Key()
b=let(Box, domain=[Box({k:1})])
cond = b.items[k] == 1
print("calls on user key while building:", log)
import sys; sys.exit(1 if log else 0)
