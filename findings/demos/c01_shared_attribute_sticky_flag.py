import warnings; warnings.filterwarnings('ignore')
from dataclasses import dataclass
from krrood.entity_query_language.entity import entity, let, Symbol, or_, and_, not_
from krrood.entity_query_language.quantify_entity import an
@dataclass(eq=False)
class N(Symbol):
    flag: bool
    n: int
xs=[N(True,0),N(False,1),N(False,2)]
bad=0
def run(name, mk, pred):
    global bad
    x=let(N,xs,"x")
    got=sorted(xs.index(r) for r in an(entity(x, mk(x))).evaluate())
    want=sorted(i for i,p in enumerate(xs) if pred(p))
    print(name,"got",got,"want",want,"OK" if got==want else "WRONG"); bad+=got!=want
run("or_(x.flag, x.flag == False)", lambda x: or_(x.flag, x.flag == False), lambda p: True)
def shared(x):
    f = x.flag
    return or_(f, f == False)
run("shared attribute: or_(f, f == False)", shared, lambda p: True)
def shared2(x):
    f = x.flag
    return or_(and_(f, x.n > 5), f == False)
run("shared attribute: or_(and_(f, n > 5), f == False)", shared2, lambda p: (p.flag and p.n>5) or p.flag==False)
import sys; sys.exit(1 if bad else 0)
