import os, sys, warnings
sys.path.insert(0, "/repo"); sys.path.insert(0, "/repo/src")
warnings.simplefilter("ignore")
from sqlalchemy.orm import Session, configure_mappers
from krrood.entity_query_language.entity import entity, let
from krrood.entity_query_language.quantify_entity import an
from krrood.entity_query_language.symbol_graph import SymbolGraph
from krrood.ormatic.dao import to_dao
from krrood.ormatic.eql_interface import eql_to_sql, EQLTranslationError
from krrood.ormatic.utils import create_engine
from test.dataset.semantic_world_like_classes import World, Body, FixedConnection, PrismaticConnection, Connection
from test.dataset.ormatic_interface import Base
SymbolGraph(); configure_mappers()
engine = create_engine("sqlite:///:memory:"); session = Session(engine); Base.metadata.create_all(engine)
w = World(1, [Body("A1"), Body("A2"), Body("A3"), Body("A4")])
w.connections = [PrismaticConnection(w.bodies[0], w.bodies[1]), FixedConnection(w.bodies[1], w.bodies[2]), FixedConnection(w.bodies[2], w.bodies[3])]
session.add(to_dao(w)); session.commit()
def run(name, build):
    mem = sorted((c.parent.name, c.child.name) for c in build().evaluate())
    try:
        rows = eql_to_sql(build(), session).evaluate()
        sql = sorted((r.parent.name, r.child.name) for r in rows)
        out = ("rows", sql)
    except EQLTranslationError as e:
        out = ("rejected", type(e).__name__)
    except Exception as e:
        out = ("OTHER-ERROR", type(e).__name__)
    print(name, "| memory:", mem, "| sql:", out, "| ", "OK" if out[0]=="rejected" or out==("rows",mem) else "DIVERGES")
def q1():
    f1 = let(FixedConnection, domain=w.connections, name="f1"); f2 = let(FixedConnection, domain=w.connections, name="f2")
    return an(entity(f1, f1.child == f2.parent))
def q2():
    c = let(Connection, domain=w.connections, name="c"); f = let(FixedConnection, domain=w.connections, name="f")
    return an(entity(f, f.parent == c.child))
def q3():
    f = let(FixedConnection, domain=w.connections, name="f"); p = let(PrismaticConnection, domain=w.connections, name="p")
    return an(entity(f, f.parent == p.child, p.parent.name == "A1"))
run("self-type join", q1); run("base/sub join", q2); run("path on non-selected", q3)
def q0():
    f = let(FixedConnection, domain=w.connections, name="f"); p = let(PrismaticConnection, domain=w.connections, name="p")
    return an(entity(f, f.parent == p.child))
run("plain join", q0)
for q in (q0, q3, q2):
    t = eql_to_sql(q(), session); print(str(t.sql_query)); print()
