"""Demo: a quantifier or a predicate as the whole base condition of a rule with an alternative."""
import sys, warnings; warnings.filterwarnings('ignore')
sys.path.insert(0, "/repo")
from dataclasses import dataclass, field
from typing import List
from krrood.entity_query_language.entity import entity, let, Symbol, for_all, flatten, exists
from krrood.entity_query_language.quantify_entity import an
from krrood.entity_query_language.rule import alternative
from krrood.entity_query_language.entity import inference
from krrood.entity_query_language.conclusion import Add
from krrood.entity_query_language.predicate import symbolic_function
@dataclass(eq=False)
class Item(Symbol):
    name: str
    sizes: List[int] = field(default_factory=list)
@dataclass(eq=False)
class Out(Symbol):
    kind: str
    item: Item
bad = 0
def expect(label, f, want):
    global bad
    try: got = f()
    except Exception as e: got = repr(e)[:100]
    ok = got == want
    bad += not ok
    print(("ok   " if ok else "FAIL ") + label, got, "expected", want)
items = [Item("a", [1, 2]), Item("b", [5, 1]), Item("c", [9, 9])]
def rule(base_builder):
    item = let(Item, items)
    q = an(entity(out := inference(Out)(), base_builder(item)))
    with q:
        Add(out, inference(Out)(kind="small", item=item))
        with alternative(item.name != "b"):
            Add(out, inference(Out)(kind="notb", item=item))
    return sorted((o.kind, o.item.name) for o in q.evaluate())
# for_all(s, s < 4) with s = flatten(item.sizes) ranges over the sizes of *all* items (the reading the suite fixes: test_for_all): false here, so the alternative decides
expect("for_all as the base condition", lambda: rule(lambda item: (lambda s: for_all(s, s < 4))(flatten(item.sizes))), [("notb", "a"), ("notb", "c")])
@symbolic_function
def is_small(i):
    return all(s < 4 for s in i.sizes)
expect("a predicate as the base condition", lambda: rule(lambda item: is_small(item)), [("notb", "c"), ("small", "a")])
raise SystemExit(1 if bad else 0)
