"""Demo (triage aid): user objects stay alive after every user reference is dropped, and which
process-lifetime root still reaches them (BFS over gc.get_referents)."""
import gc, weakref
from dataclasses import dataclass
from krrood.entity_query_language.entity import entity, let, Symbol, inference
from krrood.entity_query_language.quantify_entity import an
from krrood.entity_query_language.symbolic import SymbolicExpression, QueryObjectDescriptor
from krrood.entity_query_language.rxnode import RWXNode
from krrood.entity_query_language.conclusion import Add, Conclusion
from krrood.entity_query_language.rule import refinement

@dataclass(eq=False)
class P(Symbol):
    a: int
@dataclass(eq=False)
class V(Symbol):
    p: P

def work():
    objs = [P(i) for i in range(3)]
    refs = [weakref.ref(o) for o in objs]
    x = let(P, objs, "x")
    q = an(entity(x, x.a >= 0))
    list(q.evaluate())
    v = inference(V)()
    rq = an(entity(v, x.a >= 0))
    with rq:
        Add(v, inference(V)(p=x))
        with refinement(x.a >= 1):
            Add(v, inference(V)(p=x))
    list(rq.evaluate())
    return refs

refs = work()
gc.collect()
alive = [r() for r in refs if r() is not None]
print("alive after dropping every user reference:", len(alive), "(expected 0)")

def reaches(root, targets, limit=200000):
    ids = {id(t) for t in targets}
    seen = {id(root)}; work = [root]; n = 0
    while work and n < limit:
        o = work.pop(); n += 1
        for c in gc.get_referents(o):
            if id(c) in ids: return True
            if id(c) not in seen and not isinstance(c, (type, type(gc), str, int, float)):
                seen.add(id(c)); work.append(c)
    return False

roots = {
    "SymbolicExpression._id_expression_map_": SymbolicExpression._id_expression_map_,
    "RWXNode._graph": RWXNode._graph,
    "lru_cache:QueryObjectDescriptor.variable_is_bound_or_its_children_are_bound": QueryObjectDescriptor.variable_is_bound_or_its_children_are_bound,
    "lru_cache:Conclusion._all_variable_instances_": Conclusion.__dict__["_all_variable_instances_"].fget,
}
bad = len(alive) > 0
for name, root in roots.items():
    hit = reaches(root, alive) if alive else False
    print(f"{name}: reaches a dropped user object = {hit}")
raise SystemExit(1 if bad else 0)
