import warnings; warnings.filterwarnings('ignore')
from dataclasses import dataclass
from krrood.entity_query_language.entity import entity, let, Symbol, inference
from krrood.entity_query_language.quantify_entity import an
from krrood.entity_query_language.conclusion import Add
from krrood.entity_query_language.rule import refinement, alternative, next_rule
@dataclass(eq=False)
class P(Symbol):
    a: int
    b: int
    c: int
@dataclass(eq=False)
class V(Symbol):
    p: P
    tag: str = ""
def build(evaluate_first):
    xs = [P(1, 1, 0), P(1, 0, 0), P(0, 0, 1)]
    x = let(P, xs, "x"); v = inference(V)()
    q = an(entity(v, x.a > 0))
    with q:
        Add(v, inference(V)(p=x, tag="base"))
    if evaluate_first:
        list(q.evaluate())
    with q:
        with refinement(x.b > 0):
            Add(v, inference(V)(p=x, tag="refined"))
        with alternative(x.c > 0):
            Add(v, inference(V)(p=x, tag="alt"))
    import krrood.entity_query_language.symbolic as S, krrood.entity_query_language.conclusion_selector as CS, gc
    if evaluate_first == 2:
        for mod in (S, CS):
            for cls in vars(mod).values():
                if isinstance(cls, type):
                    f = cls.__dict__.get("_projection_")
                    if f is not None and hasattr(f, "cache_clear"):
                        f.cache_clear()
    return sorted(((r.p.a, r.p.b, r.p.c), r.tag) for r in q.evaluate())
a = build(False); b = build(True); c = build(2); print("with _projection_ caches cleared:", c)
print("built before first evaluation:", a); print("built after first evaluation: ", b)
import sys; sys.exit(0 if a == b else 1)
