"""Demo (triage aid): a garbage-producing prefix changes what asserting a relation does."""
import sys, gc
sys.path.insert(0, "/repo")
from test.dataset.university_ontology_like_classes import Company, Person
from krrood.entity_query_language.symbol_graph import SymbolGraph
bad = 0
def expect(label, got, want):
    global bad
    ok = got == want; bad += not ok
    print(("ok   " if ok else "FAIL ") + label, got, "expected", want)

def scenario(prefix):
    SymbolGraph().clear(); sg = SymbolGraph()
    if prefix:
        def garbage():
            a = Company(name="X"); b = Person(name="Y"); b.works_for = a
        garbage(); gc.collect(); sg.remove_dead_instances()
    b = Person(name="B"); a = Company(name="A")  # LIFO index recycling: b gets the dead Person's index
    b.works_for = a
    return (b in a.members, len(list(sg.relations())), len(sg._instance_index), sum(len(v) for v in sg._relation_index.values()))

fresh = scenario(False)
after = scenario(True)
print("fresh graph      :", fresh)
print("after a prefix   :", after)
expect("same effect after a garbage-producing prefix", after, fresh)
# 9 dead instances leave nothing behind
SymbolGraph().clear(); sg = SymbolGraph()
for i in range(9): Person(name=str(i))
gc.collect(); sg.remove_dead_instances()
expect("instance index after sweep", len(sg._instance_index), 0)
# recycled id: the wrapper of a dead instance must not be handed out for a new object
SymbolGraph().clear(); sg = SymbolGraph()
p = Person(name="dead"); pid = id(p); del p
class NotRegistered: pass
hit = None
keep = []
for _ in range(20000):
    o = NotRegistered()
    if id(o) == pid: hit = o; break
    keep.append(o)
if hit is not None:
    w = sg.get_wrapped_instance(hit)
    expect("lookup of a new object with a recycled id", w is None or w.instance is hit, True)
else:
    print("skip recycled-id lookup (id not reused in this run)")
raise SystemExit(1 if bad else 0)
