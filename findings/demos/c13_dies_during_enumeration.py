"""Demo: an instance that dies while a domain-less variable is being enumerated is skipped, not reported as None."""
import sys, gc, warnings; warnings.filterwarnings('ignore')
sys.path.insert(0, "/repo")
from dataclasses import dataclass
from krrood.entity_query_language.entity import entity, let, Symbol
from krrood.entity_query_language.quantify_entity import an
from krrood.entity_query_language.symbol_graph import SymbolGraph
@dataclass(eq=False)
class Thing(Symbol):
    n: int
SymbolGraph().clear(); SymbolGraph()
things = [Thing(i) for i in range(4)]
it = an(entity(let(Thing, domain=None))).evaluate()
first = next(it)
del first
things.pop()          # the last instance dies while the enumeration is suspended
gc.collect()
rest = list(it)
print("rest:", rest)
bad = any(r is None for r in rest)
print("FAIL: None reported as an instance" if bad else "ok")
raise SystemExit(1 if bad else 0)
