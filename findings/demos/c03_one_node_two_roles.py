import sys, warnings; warnings.filterwarnings('ignore')
sys.path.insert(0, "/repo")
from dataclasses import dataclass
from krrood.entity_query_language.entity import entity, let, Symbol, and_
from krrood.entity_query_language.quantify_entity import an
@dataclass(eq=False)
class X(Symbol):
    n: int
    flag: bool
xs=[X(1,True),X(2,False),X(3,True)]
x=let(X,xs); f=x.flag
print("one node in two roles :", [r.n for r in an(entity(x, and_(f, f == False))).evaluate()], "expected []")
x=let(X,xs)
print("two nodes             :", [r.n for r in an(entity(x, and_(x.flag, x.flag == False))).evaluate()], "expected []")
