import warnings; warnings.filterwarnings('ignore')
from dataclasses import dataclass
from krrood.entity_query_language.entity import entity, let, Symbol, or_, and_, not_
from krrood.entity_query_language.quantify_entity import an
from krrood.entity_query_language.predicate import symbolic_function
@dataclass(eq=False)
class N(Symbol):
    v: int
@symbolic_function
def rem(n: N) -> int:
    return n.v % 2
@symbolic_function
def is_even(n: N) -> bool:
    return n.v % 2 == 0
xs=[N(1),N(2),N(3),N(4)]
bad=0
def run(name, mk, pred):
    global bad
    x=let(N,xs,"x")
    got=sorted(r.v for r in an(entity(x, mk(x))).evaluate())
    want=sorted(n.v for n in xs if pred(n))
    print(name, "got", got, "want", want, "OK" if got==want else "WRONG"); bad+= got!=want
run("rem(x) == 0", lambda x: rem(x) == 0, lambda n: n.v%2==0)
run("rem(x) == 1", lambda x: rem(x) == 1, lambda n: n.v%2==1)
run("is_even(x) == False", lambda x: is_even(x) == False, lambda n: n.v%2==1)
run("is_even(x)", lambda x: is_even(x), lambda n: n.v%2==0)
run("not_(is_even(x))", lambda x: not_(is_even(x)), lambda n: n.v%2==1)
import sys; sys.exit(1 if bad else 0)
