import sys, warnings
sys.path.insert(0, "/repo"); sys.path.insert(0, "/repo/src"); warnings.simplefilter("ignore")
from sqlalchemy import create_engine
from sqlalchemy.orm import Session
from test.dataset.semantic_world_like_classes import *
from test.dataset.ormatic_interface import *
from krrood.ormatic.dao import to_dao
from krrood.ormatic.eql_interface import eql_to_sql, EQLTranslationError
from krrood.entity_query_language.entity import entity, let, and_
from krrood.entity_query_language.quantify_entity import an
engine = create_engine("sqlite:///:memory:"); Base.metadata.create_all(engine); session = Session(engine)
w1 = World(1); w2 = World(2)
h1 = Handle("H1", 2, world=w1); c1 = Container("C1", world=w1); h2 = Handle("H2", 3, world=w2); c2 = Container("C2", world=w2); h3 = Handle("H3", 1, world=w1)
w1.bodies=[h1,c1,h3]; w2.bodies=[h2,c2]
d1 = Drawer(h2, c1, world=w1); d2 = Drawer(h1, c2, world=w2)
w1.views=[d1]; w2.views=[d2]
from krrood.ormatic.dao import ToDAOState
st = ToDAOState()
session.add(to_dao(w1, state=st)); session.add(to_dao(w2, state=st)); session.commit()
def run(name, mk):
    q = mk()
    mem = sorted((x.handle.name) for x in q.evaluate())
    try:
        rows = eql_to_sql(q, session).evaluate()
        sql = sorted((x.handle.name) for x in rows)
    except EQLTranslationError as e:
        sql = "rejected"
    except Exception as e:
        sql = type(e).__name__ + ": " + str(e)[:80]
    print(name, "| mem", mem, "| sql", sql, "| OK" if sql == "rejected" or sql == mem else "| MISMATCH")
def qa():
    d = let(Drawer, [d1, d2]); h = let(Handle, [h1, h2, h3])
    return an(entity(d, d.handle.size > 1, d.world == h.world))
def qb():
    d = let(Drawer, [d1, d2]); h = let(Handle, [h1, h2, h3])
    return an(entity(d, d.world == h.world, d.handle.size > 1))
run("path then join", qa); run("join then path", qb)
def qc():
    d = let(Drawer, [d1, d2]); h = let(Handle, [h1, h2, h3])
    return an(entity(d, d.handle.world == h.world))
def qd():
    d = let(Drawer, [d1, d2]); h = let(Handle, [h1, h2, h3])
    return an(entity(d, d.world == h.world))
run("chain relationship equality d.handle.world == h.world", qc); run("plain relationship equality d.world == h.world", qd)
