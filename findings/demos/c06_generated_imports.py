"""Demo (triage aid): models of the supported grammar whose generated module cannot be imported.
 - Leaf(other: Optional[Leaf])      : no builtin-typed public field -> `builtins` was never imported
 - OnlyIds(ids: List[uuid.UUID])    : `uuid` was never imported
 - TreeNode(children: List[TreeNode]): association table with two identically named columns (known finding)
"""
import sys, os, importlib, tempfile, textwrap
d = tempfile.mkdtemp(prefix="krrood_c06_")
sys.path.insert(0, d)
open(os.path.join(d, "c06_models.py"), "w").write(textwrap.dedent('''
    from __future__ import annotations
    from dataclasses import dataclass, field
    from typing_extensions import List, Optional
    import uuid
    @dataclass
    class OnlyIds:
        ids: List[uuid.UUID] = field(default_factory=list)
    @dataclass
    class Leaf:
        other: Optional[Leaf] = None
    @dataclass
    class TreeNode:
        children: List[TreeNode] = field(default_factory=list)
'''))
import c06_models as m
from krrood.class_diagrams.class_diagram import ClassDiagram
from krrood.ormatic.ormatic import ORMatic
bad = 0
for cls in (m.OnlyIds, m.Leaf, m.TreeNode):
    o = ORMatic(ClassDiagram([cls])); o.make_all_tables()
    name = f"c06_out_{cls.__name__.lower()}"
    with open(os.path.join(d, name + ".py"), "w") as f:
        o.to_sqlalchemy_file(f)
    try:
        importlib.import_module(name); print(cls.__name__, "import OK")
    except Exception as e:
        print(cls.__name__, "IMPORT FAILED:", type(e).__name__, str(e)[:140]); bad += 1
raise SystemExit(1 if bad else 0)
