import warnings; warnings.filterwarnings('ignore')
from krrood.entity_query_language.entity import entity, let, and_
from krrood.entity_query_language.predicate import symbolic_function
from krrood.entity_query_language.quantify_entity import an
@symbolic_function
def is_even(v): return v % 2 == 0
@symbolic_function
def always(v): return True
@symbolic_function
def unused(v): return v
x = let(int, [2, 3, 4, 5]); p = is_even(x)
q = an(entity(x, and_(p, always(p))))
print(list(q.evaluate()), "expected [2, 4]")
unused(p)
print(list(q.evaluate()), "expected [2, 4] (after unused(p) was written)")
