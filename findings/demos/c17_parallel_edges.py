from __future__ import annotations
import warnings; warnings.filterwarnings('ignore')
from dataclasses import dataclass, field
from typing import List
from krrood.class_diagrams.class_diagram import ClassDiagram, Association, Inheritance
@dataclass
class Node:
    kids: List[Kid] = field(default_factory=list)
@dataclass
class Kid(Node):
    pass
d = ClassDiagram([Node, Kid])
g = d._dependency_graph
edges = sorted((g.get_node_data(u).clazz.__name__, g.get_node_data(v).clazz.__name__, type(e).__name__) for u, v, e in g.weighted_edge_list())
print("edges in the graph:", edges)
bad = 0
def check(name, got, want):
    global bad
    ok = got == want; bad += not ok
    print(name, "got", got, "want", want, "OK" if ok else "WRONG")
node, kid = d.get_wrapped_class(Node), d.get_wrapped_class(Kid)
check("parent_map", {d._dependency_graph.get_node_data(k).clazz.__name__: sorted(d._dependency_graph.get_node_data(p).clazz.__name__ for p in v) for k, v in d.parent_map.items()}, {"Kid": ["Node"]})
check("neighbours of Node by Association", sorted(c.clazz.__name__ for c in d.get_neighbors_with_relation_type(Node, Association)), ["Kid"])
check("neighbours of Node by Inheritance", sorted(c.clazz.__name__ for c in d.get_neighbors_with_relation_type(Node, Inheritance)), ["Kid"])
sub = d.to_subdiagram_without_inherited_associations(True)
sg = sub._dependency_graph
sedges = sorted((sg.get_node_data(u).clazz.__name__, sg.get_node_data(v).clazz.__name__, type(e).__name__) for u, v, e in sg.weighted_edge_list())
check("sub-diagram without inherited associations", sedges, [("Node", "Kid", "Association"), ("Node", "Kid", "Inheritance")])
import sys; sys.exit(1 if bad else 0)
