import sys, warnings
sys.path.insert(0, "/repo"); sys.path.insert(0, "/repo/src"); warnings.simplefilter("ignore")
from sqlalchemy import create_engine
from sqlalchemy.orm import Session
from test.dataset.semantic_world_like_classes import *
from test.dataset.ormatic_interface import *
from krrood.ormatic.dao import to_dao
from krrood.ormatic.eql_interface import eql_to_sql, EQLTranslationError
from krrood.entity_query_language.entity import entity, let, and_
from krrood.entity_query_language.quantify_entity import an
engine = create_engine("sqlite:///:memory:"); Base.metadata.create_all(engine); session = Session(engine)
w = World(1, [Handle("Handle1", 1), Handle("Handle2", 3), Container("Container1", 9), Body("Plain", 2)])
session.add(to_dao(w)); session.commit()
bad = 0
def run(name, mk):
    global bad
    q = mk()
    mem = sorted(x.name for x in q.evaluate())
    try: sql = sorted(x.name for x in eql_to_sql(q, session).evaluate())
    except EQLTranslationError as e: sql = "rejected"
    except Exception as e: sql = type(e).__name__ + ": " + str(e)[:60]
    ok = sql == "rejected" or sql == mem
    bad += not ok
    print(("ok   " if ok else "FAIL ") + name, "| in memory", mem, "| sql", sql)
def q1():
    h = let(Handle, w.bodies); b = let(Body, w.bodies)
    return an(entity(h, and_(h.name == "Handle1", b.size > 5)))
def q2():
    h = let(Handle, w.bodies); c = let(Container, w.bodies)
    return an(entity(h, and_(h.size >= 1, c.size > 5)))
def q3():
    h = let(Handle, w.bodies)
    return an(entity(h, h.size >= 1))
run("a condition on a second variable of the selected one's hierarchy (Body above Handle)", q1)
run("a condition on a sibling class variable (Container next to Handle)", q2)
run("the selected variable alone", q3)
raise SystemExit(1 if bad else 0)
