import sys
from dataclasses import dataclass
from krrood.entity_query_language.entity import let, entity, for_all, exists, not_, and_
from krrood.entity_query_language.quantify_entity import an


@dataclass(unsafe_hash=True)
class N:
    v: int


A = [N(1), N(2)]
B = [N(1), N(2)]
X = [N(0)]
bad = []
a = let(N, A); b = let(N, B); x = let(N, X)
got = [r.v for r in an(entity(x, for_all(a, exists(b, a.v == b.v)))).evaluate()]
if got != [0]:
    bad.append(f"for_all(a, exists(b, a.v == b.v)) over A=B=[1,2]: got {got}, expected [0]")
a = let(N, A); b = let(N, [N(1)]); x = let(N, X)
got = [r.v for r in an(entity(x, for_all(a, exists(b, a.v == b.v)))).evaluate()]
if got != []:
    bad.append(f"for_all(a, exists(b, a.v == b.v)) over A=[1,2], B=[1]: got {got}, expected []")
a = let(N, A); b = let(N, B); x = let(N, X)
got = [r.v for r in an(entity(x, not_(exists(a, for_all(b, a.v != b.v))))).evaluate()]
if got != [0]:
    bad.append(f"not_(exists(a, for_all(b, a.v != b.v))): got {got}, expected [0]")
if bad:
    print("VIOLATED"); [print(" -", m) for m in bad]; sys.exit(1)
print("ok")
