import sys
sys.path.insert(0,'/repo'); sys.path.insert(0,'/repo/test')
from sqlalchemy.orm import Session, configure_mappers
from test.dataset.ormatic_interface import *
from test.dataset.example_classes import Position, Pose
from krrood.ormatic.utils import create_engine
from krrood.ormatic.eql_interface import eql_to_sql, EQLTranslationError
from krrood.entity_query_language.entity import let, entity, set_of, and_, or_, not_, in_, contains
from krrood.entity_query_language.quantify_entity import an, the
configure_mappers()
eng=create_engine("sqlite:///:memory:"); Base.metadata.create_all(eng); s=Session(eng)
for (x,y,z) in [(1,2,3),(3,2,1),(5,5,5)]: s.add(PositionDAO(x=x,y=y,z=z))
s.commit()
def attempt(label, qf):
    try:
        q=qf(); t=eql_to_sql(q,s); print(label, "->", str(t.sql_query).replace("\n"," ")[-110:], "| rows", len(t.evaluate()))
    except EQLTranslationError as e: print(label, "-> rejected", type(e).__name__)
    except Exception as e: print(label, "-> ESCAPE", type(e).__name__, str(e)[:90])
p=lambda: let(Position, [])
def q1():
    a=p(); b=p(); return an(entity(a, a.x == b.z))
attempt("two vars a.x==b.z (in-memory would give a with x in {z of any b})", q1)
def q2():
    a=p(); return an(entity(a, not_(a.x == 1)))
attempt("not_", q2)
def q3():
    a=p(); return an(entity(a, a.x == a.z.__abs__()))
attempt("call operand", q3)
def q4():
    a=p(); b=let(int,[5,1]); return an(entity(a, a.x == b))
attempt("variable operand with domain [5,1]", q4)
def q5():
    a=p(); return an(set_of([a, a.x], a.x > 0))
attempt("set_of", q5)
def q6():
    a=p(); return an(entity(a, a.x == a.z))
attempt("same var a.x==a.z", q6)
