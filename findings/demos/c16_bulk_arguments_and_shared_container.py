import sys, signal
sys.path.insert(0, "/repo")
from test.dataset.university_ontology_like_classes import Company, Person
from krrood.entity_query_language.symbol_graph import SymbolGraph
SymbolGraph().clear(); SymbolGraph()
bad = 0
def expect(label, got, want):
    global bad
    ok = got == want
    bad += not ok
    print(("ok   " if ok else "FAIL ") + label, got, "expected", want)
p = Person(name="q"); c1 = Company(name="C1"); c2 = Company(name="C2"); c3 = Company(name="C3")
p.member_of = [c1]
p.member_of[0:1] = iter([c2, c3])
expect("slice assignment from an iterator", [x.name for x in p.member_of], ["C2", "C3"])
expect("slice assignment infers inverse", p in c3.members, True)
p.member_of[0:1] = [c1, c1]
expect("slice assignment from a list", [x.name for x in p.member_of], ["C1", "C1", "C3"])
def on_alarm(*a): raise TimeoutError
signal.signal(signal.SIGALRM, on_alarm); signal.alarm(5)
try:
    p.member_of.extend(p.member_of)
    expect("extend with itself", [x.name for x in p.member_of], ["C1", "C1", "C3"] * 2)
except (TimeoutError, MemoryError):
    expect("extend with itself terminates", False, True)
signal.alarm(0)
p3 = Person(name="p3")
a = Company(name="A")
b = Company(name="B", members=a.members)
a.members.add(p3)
expect("constructed from another field: no shared container", sorted(x.name for x in b.members), [])
expect("inverse of the added element", sorted(x.name for x in p3.member_of), ["A"])
raise SystemExit(1 if bad else 0)
