"""Demo (triage aid): a next_rule branch over the same variable as the base rule must fire in addition to it."""
from dataclasses import dataclass
from krrood.entity_query_language.entity import entity, let, Symbol, inference
from krrood.entity_query_language.quantify_entity import an
from krrood.entity_query_language.rule import next_rule
from krrood.entity_query_language.conclusion import Add

@dataclass(eq=False)
class P(Symbol):
    a: int
@dataclass(eq=False)
class V(Symbol):
    p: P
@dataclass(eq=False)
class V1(V): pass
@dataclass(eq=False)
class V2(V): pass
xs = [P(i) for i in range(4)]
x = let(P, xs, "x"); v = inference(V)()
q = an(entity(v, x.a >= 0))
with q:
    Add(v, inference(V1)(p=x))
    with next_rule(x.a >= 2):
        Add(v, inference(V2)(p=x))
got = sorted((type(r).__name__, r.p.a) for r in q.evaluate())
want = [("V1", 0), ("V1", 1), ("V1", 2), ("V1", 3), ("V2", 2), ("V2", 3)]
print(got)
raise SystemExit(0 if got == want else 1)
