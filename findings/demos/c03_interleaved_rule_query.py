import warnings; warnings.filterwarnings('ignore')
from dataclasses import dataclass
from krrood.entity_query_language.entity import entity, set_of, let, Symbol, inference
from krrood.entity_query_language.quantify_entity import an
from krrood.entity_query_language.conclusion import Add
from krrood.entity_query_language.rule import refinement, alternative, next_rule

@dataclass(eq=False)
class P(Symbol):
    a: int
@dataclass(eq=False)
class V(Symbol):
    p: P
    tag: str = ""
def build():
    xs = [P(i) for i in range(4)]
    x = let(P, xs, "x"); v = inference(V)()
    q = an(entity(v, x.a >= 0))
    with q:
        Add(v, inference(V)(p=x, tag="base"))
        with refinement(x.a <= 1):
            Add(v, inference(V)(p=x, tag="refined"))
    return q
def res(it): return [(r.p.a, r.tag) for r in it]
alone = res(build().evaluate())
print("alone:", alone)
q = build()
i1 = q.evaluate(); first = next(i1)            # suspended right after a refined conclusion
i2 = q.evaluate(); b = res(i2)
a = res([first]) + res(i1)
print("second evaluation, started while the first is suspended:", "same" if b == alone else "DIFFERENT", b)
print("first evaluation, resumed afterwards:", "same" if a == alone else "DIFFERENT", a)
import sys; sys.exit(0 if a == alone and b == alone else 1)
