"""Demo: two monitored containers compare by their elements; equal-looking owners with different members stay distinct."""
import sys
sys.path.insert(0, "/repo")
from test.dataset.university_ontology_like_classes import Company, Person
from krrood.entity_query_language.symbol_graph import SymbolGraph
SymbolGraph().clear(); SymbolGraph()
bad = 0
def expect(label, got, want):
    global bad
    ok = got == want
    bad += not ok
    print(("ok   " if ok else "FAIL ") + label, got, "expected", want)
p1 = Person(name="p1"); p2 = Person(name="p2"); q = Person(name="q")
a1 = Company(name="A"); a2 = Company(name="A")
a1.members.add(p1)
expect("containers with different elements differ", a1.members == a2.members, False)
expect("owners with different members differ", a1 == a2, False)
q.member_of.append(a1)
a2.members.add(q)      # infers member_of(q, a2)
expect("inferred value reaches the field", sum(1 for c in q.member_of if c is a2), 1)
raise SystemExit(1 if bad else 0)
