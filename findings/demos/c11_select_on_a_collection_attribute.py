"""C11: 'selected inner parts are reported consistently with the matched element'.  A select nested on a collection attribute
(parts=select(Wheel)(name='w1')) has to report the element of the collection that matched - as a select on a single-valued
attribute does - not the whole collection."""
from __future__ import annotations

import sys
from dataclasses import dataclass, field

from typing_extensions import List

from krrood.entity_query_language.match import entity_matching, select
from krrood.entity_query_language.predicate import Symbol
from krrood.entity_query_language.quantify_entity import an
from krrood.entity_query_language.symbol_graph import SymbolGraph


@dataclass(eq=False)
class Part(Symbol):
    name: str


@dataclass(eq=False)
class Wheel(Part):
    radius: int = 1


@dataclass(eq=False)
class Car(Symbol):
    name: str
    main: Part
    parts: List[Part] = field(default_factory=list)


SymbolGraph()
w1, w2, p1 = Wheel("w1", 3), Wheel("w2", 4), Part("p1")
cars = [Car("c1", w1, [w1, p1]), Car("c2", p1, [w2]), Car("c3", w2, [])]
bad = []


def picked(row, sel):
    return row[sel] if hasattr(row, "keys") else row


sel = select(Wheel)(name="w1")
got = [picked(r, sel) for r in an(entity_matching(Car, cars)(parts=sel)).evaluate()]
if got != [w1]:
    bad.append(f"parts=select(Wheel)(name='w1'): the selection reports {got}, expected [w1]")
car, sel = select(Car), select(Wheel)
rows = list(an(entity_matching(car, cars)(parts=sel(radius=4))).evaluate()) if False else None
sel = select(Wheel)
got = [picked(r, sel) for r in an(entity_matching(Car, cars)(main=sel)).evaluate()]
if got != [w1, w2]:
    bad.append(f"main=select(Wheel): the selection reports {got}, expected [w1, w2]")
if bad:
    print("VIOLATED")
    for b in bad:
        print(" -", b)
    sys.exit(1)
print("ok")
