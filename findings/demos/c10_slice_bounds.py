"""Demo: building x.parts[a:b] with user objects as slice bounds runs none of their methods."""
import sys, warnings; warnings.filterwarnings('ignore')
sys.path.insert(0, "/repo")
from dataclasses import dataclass, field
from typing import List
from krrood.entity_query_language.entity import entity, let, Symbol
from krrood.entity_query_language.quantify_entity import an
calls = []
class Bound:
    def __init__(self, i): self.i = i
    def __index__(self): return self.i
    def __repr__(self): calls.append("repr"); return f"Bound({self.i})"
    def __str__(self): calls.append("str"); return f"Bound({self.i})"
@dataclass(eq=False)
class Box(Symbol):
    parts: List[int] = field(default_factory=list)
x = let(Box, [Box([1, 2, 3, 4])])
q = an(entity(x, x.parts[Bound(1):Bound(3)] == [2, 3]))
print("methods of the bounds run while building:", calls)
built = list(calls)
res = [b.parts for b in q.evaluate()]
print("result:", res)
raise SystemExit(1 if built else 0)
