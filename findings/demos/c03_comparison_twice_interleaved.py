"""C03: two evaluations of one query consumed in an interleaving give what each gives alone - also when a comparison node occurs twice."""
import sys
from dataclasses import dataclass
from krrood.entity_query_language.entity import let, set_of, and_, or_
from krrood.entity_query_language.quantify_entity import an


@dataclass(unsafe_hash=True)
class N:
    n: int


xs = [N(1), N(2), N(3)]
ys = [N(10), N(20)]
x = let(N, xs)
y = let(N, ys)
c = x.n > 1
q = an(set_of([x, y], or_(and_(c, y.n > 5, c), x.n == 1)))


def rows(it):
    return [(r[x].n, r[y].n) for r in it]


alone = rows(q.evaluate())
a = q.evaluate()
got_a = []
# advance A until (2, 10)
for r in a:
    got_a.append((r[x].n, r[y].n))
    if got_a[-1] == (2, 10):
        break
b = q.evaluate()
first_b = next(b)
got_a += rows(a)
bad = []
if sorted(got_a) != sorted(alone):
    bad.append(f"suspended evaluation: alone {sorted(alone)}, interleaved {sorted(got_a)}")
if bad:
    print("VIOLATED"); [print(" -", m) for m in bad]; sys.exit(1)
print("ok", sorted(alone))
