"""Demo: a type tag with hundreds of dotted segments names a module that cannot be imported."""
import sys, warnings; warnings.filterwarnings('ignore')
sys.path.insert(0, "/repo/src")
from krrood.adapters.json_serializer import from_json, JSONSerializationError
bad = 0
for n in (50, 400, 5000):
    try:
        from_json({"__json_type__": "a." * n + "b"})
        print(n, "no error"); bad += 1
    except JSONSerializationError as e:
        print(n, "segments:", type(e).__name__)
    except BaseException as e:
        print(n, "segments: ESCAPE", type(e).__name__); bad += 1
raise SystemExit(1 if bad else 0)
