"""Demo: asserting a sub-property in the constructor, before the super-property field exists."""
import sys
sys.path.insert(0, "/repo")
from test.dataset.university_ontology_like_classes import Company, Person
from krrood.entity_query_language.symbol_graph import SymbolGraph
SymbolGraph().clear(); SymbolGraph()
c = Company(name="X")
try:
    p = Person(name="P", works_for=c)
    print("constructed; member_of:", [x.name for x in p.member_of], "members:", [x.name for x in c.members])
    ok = [x.name for x in p.member_of] == ["X"] and p in c.members
except Exception as e:
    print("constructor raised", type(e).__name__, e); ok = False
raise SystemExit(0 if ok else 1)
