"""Demo: Union[None, X] and X | None are optional fields whose endpoint is X."""
import sys, warnings
sys.path.insert(0, "/repo"); warnings.simplefilter("ignore")
from dataclasses import dataclass
from typing import Union, Optional
from krrood.class_diagrams.class_diagram import ClassDiagram
bad = 0
def expect(label, got, want):
    global bad
    ok = got == want
    bad += not ok
    print(("ok   " if ok else "FAIL ") + label, got, "expected", want)
@dataclass
class Leaf:
    n: int = 0
@dataclass
class Holder:
    a: Union[None, Leaf] = None
    b: Optional[Leaf] = None
    c: Leaf | None = None
    d: Union[None, int] = None
cd = ClassDiagram([Holder, Leaf])
w = cd.get_wrapped_class(Holder)
f = {x.name: x for x in w.fields}
for name in "abc":
    expect(f"{name}: optional", f[name].is_optional, True)
    expect(f"{name}: endpoint", f[name].type_endpoint, Leaf)
    expect(f"{name}: one-to-one", f[name].is_one_to_one_relationship, True)
expect("d: builtin", (f["d"].is_optional, f["d"].type_endpoint, f["d"].is_builtin_type), (True, int, True))
assoc = sorted(a.field.name for a in cd.associations if a.source.clazz is Holder)
expect("associations of Holder", assoc, ["a", "b", "c"])
raise SystemExit(1 if bad else 0)
