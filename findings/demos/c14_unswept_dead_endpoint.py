"""Demo: a relation of an instance that died (and was not swept yet) does not take part in new inferences."""
import sys, gc
sys.path.insert(0, "/repo")
from test.dataset.university_ontology_like_classes import Company
from krrood.entity_query_language.symbol_graph import SymbolGraph
SymbolGraph().clear(); SymbolGraph()
bad = 0
def expect(label, got, want):
    global bad
    ok = got == want
    bad += not ok
    print(("ok   " if ok else "FAIL ") + label, got, "expected", want)
a = Company(name="a"); d = Company(name="d")
d.sub_organization_of = [a]
del d; gc.collect()
y = Company(name="y")
try:
    a.sub_organization_of = [y]
    expect("assertion after a related instance died", [c.name for c in a.sub_organization_of], ["y"])
except Exception as e:
    expect("assertion after a related instance died", repr(e)[:80], "no exception")
z = Company(name="z")
try:
    y.sub_organization_of = [z]
    expect("closure among the living", sorted(c.name for c in a.sub_organization_of), ["y", "z"])
except Exception as e:
    expect("closure among the living", repr(e)[:80], "no exception")
raise SystemExit(1 if bad else 0)
