import sys, warnings; warnings.filterwarnings('ignore')
sys.path.insert(0, "/repo")
from dataclasses import dataclass, field
from typing import List, Tuple
from krrood.entity_query_language.entity import entity, let, Symbol
from krrood.entity_query_language.quantify_entity import an
from krrood.entity_query_language.match import entity_matching, match, select, match_any
from krrood.entity_query_language.symbol_graph import SymbolGraph

@dataclass(eq=False)
class Part(Symbol):
    name: str
@dataclass(eq=False)
class Other(Symbol):
    name: str
@dataclass(eq=False)
class Box(Symbol):
    label: str
    tags: List[str] = field(default_factory=list)
    parts: List[Part] = field(default_factory=list)
    main: Part = None
@dataclass(eq=False)
class Shelf(Symbol):
    boxes: List[Box] = field(default_factory=list)
SymbolGraph().clear(); SymbolGraph()
bad = 0
def expect(label, f, want):
    global bad
    try: got = f()
    except Exception as e: got = repr(e)[:90]
    ok = got == want
    bad += not ok
    print(("ok   " if ok else "FAIL ") + label, got, "expected", want)
b1 = Box("b1", tags=["t1", "t2"]); b2 = Box("b2", tags=["t3"])
expect("literal against a list of builtins", lambda: [b.label for b in an(entity_matching(Box, [b1, b2])(tags="t1")).evaluate()], ["b1"])
p1 = Part("p1")
bA = Box("wrong", parts=[p1]); bB = Box("right", parts=[p1]); s = Shelf(boxes=[bA, bB])
expect("match_any inside nested match (any first)", lambda: len(list(an(entity_matching(Shelf, [s])(boxes=match(Box)(parts=match_any([p1]), label="right"))).evaluate())), 1)
expect("match_any inside nested match (label first)", lambda: len(list(an(entity_matching(Shelf, [s])(boxes=match(Box)(label="right", parts=match_any([p1])))).evaluate())), 1)
c1 = Box("c1", main=Part("a")); c2 = Box("c2", main=Part("b"))
expect("nested match of an unrelated type", lambda: [b.label for b in an(entity_matching(Box, [c1, c2])(main=match(Other)(name="a"))).evaluate()], [])
raise SystemExit(1 if bad else 0)
