import warnings; warnings.filterwarnings('ignore')
from dataclasses import dataclass
from krrood.entity_query_language.entity import entity, let, Symbol, inference
from krrood.entity_query_language.quantify_entity import an
from krrood.entity_query_language.conclusion import Add
from krrood.entity_query_language.rule import refinement, alternative, next_rule
@dataclass(eq=False)
class P(Symbol):
    a: int
@dataclass(eq=False)
class V(Symbol):
    p: P
    tag: str = ""
def build():
    xs = [P(i) for i in range(4)]
    x = let(P, xs, "x"); v = inference(V)()
    q = an(entity(v, x.a >= 0))
    with q:
        Add(v, inference(V)(p=x, tag="base"))
        with next_rule(x.a >= 2):
            Add(v, inference(V)(p=x, tag="next"))
    return q
def res(it): return [(r.p.a, r.tag) for r in it]
alone = res(build().evaluate())
bad = 0
for k in range(1, len(alone) + 1):
    q = build(); it = q.evaluate(); part = [next(it) for _ in range(k)]; it.close()
    again = res(q.evaluate())
    ok = again == alone; bad += not ok
    print(f"abandoned after {k} results, then evaluated again:", "same" if ok else f"DIFFERENT {again}")
print("alone:", alone)
import sys; sys.exit(1 if bad else 0)
