"""Demo: an empty collection of a reconstructed object is its own list, not the DAO's."""
import sys, warnings
sys.path.insert(0, "/repo"); sys.path.insert(0, "/repo/src")
warnings.simplefilter("ignore")
from test.dataset.example_classes import Positions, Position
from test.dataset.ormatic_interface import *
from krrood.ormatic.dao import to_dao
bad = 0
def expect(label, got, want):
    global bad
    ok = got == want
    bad += not ok
    print(("ok   " if ok else "FAIL ") + label, got, "expected", want)
p = Positions([], ["a"])
dao = to_dao(p)
q = dao.from_dao()
expect("empty collection reconstructed", list(q.positions), [])
expect("reconstructed list is not the DAO's list", q.positions is dao.positions, False)
q.positions.append(Position(1, 2, 3))
expect("appending to the object leaves the DAO alone", len(dao.positions), 0)
raise SystemExit(1 if bad else 0)
