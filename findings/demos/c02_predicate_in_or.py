import warnings; warnings.filterwarnings('ignore')
from dataclasses import dataclass
from krrood.entity_query_language.entity import entity, let, Symbol, or_, and_, not_
from krrood.entity_query_language.quantify_entity import an
from krrood.entity_query_language.predicate import symbolic_function
@dataclass(eq=False)
class N(Symbol):
    a: int
@symbolic_function
def even(n: N) -> bool:
    return n.a % 2 == 0
xs=[N(0),N(1),N(2),N(3)]
x=let(N,xs,"x")
cond=or_(even(x), x.a == 0)
print(type(cond).__name__)
got=[r.a for r in an(entity(x, cond)).evaluate()]
print("got",got,"want",[0,2])
import sys; sys.exit(0 if sorted(got)==[0,2] else 1)
