"""Demo: the field agrees with the graph after a collection field is assigned once inferences have reached it."""
import sys
sys.path.insert(0, "/repo")
from test.dataset.university_ontology_like_classes import Company, Person, MemberOf
from krrood.entity_query_language.symbol_graph import SymbolGraph
SymbolGraph().clear(); SymbolGraph()
bad = 0
def expect(label, got, want):
    global bad
    ok = got == want
    bad += not ok
    print(("ok   " if ok else "FAIL ") + label, got, "expected", want)
def graph_member_of(p):
    sg = SymbolGraph()
    w = sg.get_wrapped_instance(p)
    return sorted(r.target.instance.name for r in sg.get_outgoing_relations(w) if r.wrapped_field.name == "member_of")
p = Person(name="p"); c = Company(name="c"); c2 = Company(name="c2")
c.members.add(p)            # infers member_of(p, c)
p.member_of = [c2]
expect("field agrees with graph (inference first)", sorted(x.name for x in p.member_of), graph_member_of(p))
q = Person(name="q"); d = Company(name="d"); d2 = Company(name="d2")
q.member_of = [d2]
d.members.add(q)
expect("field agrees with graph (assignment first)", sorted(x.name for x in q.member_of), graph_member_of(q))
raise SystemExit(1 if bad else 0)
