"""Demo (triage aid): repeated and interleaved evaluations."""
from dataclasses import dataclass
from krrood.entity_query_language.entity import entity, set_of, let, Symbol, inference
from krrood.entity_query_language.quantify_entity import an
from krrood.entity_query_language.conclusion import Add
from krrood.entity_query_language.rule import refinement

@dataclass(eq=False)
class P(Symbol):
    a: int
@dataclass(eq=False)
class V(Symbol):
    p: P
bad = 0
xs = [P(i) for i in range(4)]
x = let(P, xs, "x"); v = inference(V)()
q = an(entity(v, x.a >= 0))
with q:
    Add(v, inference(V)(p=x))
    with refinement(x.a >= 2):
        Add(v, inference(V)(p=x))
first = len(list(q.evaluate())); second = len(list(q.evaluate()))
print("rule query evaluated twice:", first, second, "(expected equal)"); bad += first != second
# two live iterations sharing a variable whose domain is a one-shot generator (CARRY-2, known finding)
y = let(P, (p for p in xs), "y")
q1 = an(entity(y, y.a >= 0)); q2 = an(entity(y, y.a >= 0))
pairs = [(a.a, b.a) for a in q1.evaluate() for b in q2.evaluate()]
print("nested loop over two queries sharing a generator-backed variable:", len(pairs), "pairs (expected 16)"); bad += len(pairs) != 16
raise SystemExit(1 if bad else 0)
