"""Demo: quantifiers over empty domains, the same variable quantified twice, a union disjunction negated through a conjunction."""
import sys, warnings; warnings.filterwarnings('ignore')
sys.path.insert(0, "/repo")
from dataclasses import dataclass
from krrood.entity_query_language.entity import entity, let, Symbol, or_, and_, not_, exists, for_all
from krrood.entity_query_language.quantify_entity import an
@dataclass(eq=False)
class P(Symbol):
    name: str
    n: int
bad = 0
def expect(label, f, want):
    global bad
    try: got = f()
    except Exception as e: got = repr(e)[:90]
    ok = got == want
    bad += not ok
    print(("ok   " if ok else "FAIL ") + label, got, "expected", want)
xs = [P("a", 1), P("b", 5)]; ys = [P("y0", 0), P("y1", 3)]
def q1():
    x = let(P, xs); y = let(P, [])
    return sorted({p.name for p in an(entity(x, or_(exists(y, y.n > x.n), x.n > 4))).evaluate()})
expect("or_(exists over an empty domain, plain)", q1, ["b"])
def q2():
    x = let(P, xs); y = let(P, ys)
    return sorted({p.name for p in an(entity(x, and_(exists(y, y.n < x.n), exists(y, y.n > x.n)))).evaluate()})
# the same variable quantified twice (and_(exists(y, ..), exists(y, ..))): the witness binding of the first quantifier reaches the second. Not repaired: the suite relies on the witness of exists(fb, ...) binding the selected variable fb (test_equivalent_to_contains_type_using_exists).
def q3():
    x = let(P, xs); y = let(P, ys)
    return sorted({p.name for p in an(entity(x, not_(and_(or_(x.n > 3, y.n > 100), x.n > 0)))).evaluate()})
expect("not_(and_(or_ over different variables, plain))", q3, ["a"])
raise SystemExit(1 if bad else 0)
