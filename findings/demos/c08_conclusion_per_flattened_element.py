from __future__ import annotations
import sys
from dataclasses import dataclass, field
from typing_extensions import List
from krrood.entity_query_language.entity import let, entity, flatten, inference
from krrood.entity_query_language.quantify_entity import an
from krrood.entity_query_language.conclusion import Add
from krrood.entity_query_language.rule import refinement
from krrood.entity_query_language.predicate import Symbol
from krrood.entity_query_language.symbol_graph import SymbolGraph


@dataclass(eq=False)
class Part(Symbol):
    name: str
    size: int


@dataclass(eq=False)
class Box(Symbol):
    name: str
    parts: List[Part] = field(default_factory=list)


@dataclass(eq=False)
class Out(Symbol):
    tag: str
    item: Part


SymbolGraph()
a, b, c, d = Part("a", 1), Part("b", 5), Part("c", 10), Part("d", 20)
boxes = [Box("B1", [a, b]), Box("B2", [c, d])]
box = let(Box, boxes)
part = flatten(box.parts)
query = an(entity(out := let(Out, None), part.size >= 0))
with query:
    Add(out, inference(Out)(tag="base", item=part))
    with refinement(part.size > 3):
        Add(out, inference(Out)(tag="r>3", item=part))
got = sorted((o.tag, o.item.name) for o in query.evaluate())
exp = [("base", "a"), ("r>3", "b"), ("r>3", "c"), ("r>3", "d")]
print("got", got)
if got != exp:
    print("expected", exp); sys.exit(1)
print("ok")
