import warnings; warnings.filterwarnings('ignore')
from dataclasses import dataclass
from krrood.entity_query_language.entity import entity, let, Symbol, or_, and_, not_, exists, for_all
from krrood.entity_query_language.quantify_entity import an
@dataclass(eq=False)
class P(Symbol):
    a: int
    b: int = 0
bad=0
def check(name, f, want):
    global bad
    try: got=sorted(set(f()))  # membership is what the property states; the union form of or_ may repeat a value
    except Exception as e: got=repr(e)[:70]
    ok = got==sorted(want); bad += not ok
    print(name, "got", got, "want", sorted(want), "OK" if ok else "WRONG")
xs=[P(5),P(1),P(0,1)]; ys=[P(2),P(3)]
def q1():
    x=let(P,xs,"x"); y=let(P,ys,"y")
    return [xs.index(r) for r in an(entity(x, or_(for_all(y, x.a > y.a), x.b == 1))).evaluate()]
check("or_(for_all(y, x.a > y.a), x.b == 1)", q1, [0,2])
def q2():
    x=let(P,xs,"x"); y=let(P,[],"y")
    return [xs.index(r) for r in an(entity(x, for_all(y, x.a > y.a))).evaluate()]
check("for_all over an empty domain", q2, [0,1,2])
def q3():
    x=let(P,xs,"x"); y=let(P,ys,"y")
    return [xs.index(r) for r in an(entity(x, and_(x.a >= 0, for_all(y, x.a > y.a)))).evaluate()]
check("and_(x.a >= 0, for_all(y, x.a > y.a))", q3, [0])
import sys; sys.exit(1 if bad else 0)
