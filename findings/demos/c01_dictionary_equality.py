import sys, warnings; warnings.filterwarnings('ignore')
from dataclasses import dataclass, field
from typing import Dict, List
from krrood.entity_query_language.entity import entity, let
from krrood.entity_query_language.quantify_entity import an
@dataclass(eq=False)
class P:
    name: str
    attrs: Dict[str, int] = field(default_factory=dict)
    tags: List[str] = field(default_factory=list)
ps = [P("a", {"a": 1}, ["x", "y"]), P("b", {"a": 2}, ["y", "x"]), P("c", {"b": 1}, ["x"])]
x = let(P, ps)
print("attrs == {'a': 1}:", [p.name for p in an(entity(x, x.attrs == {"a": 1})).evaluate()], "expected ['a']")
x = let(P, ps)
print("attrs != {'a': 1}:", [p.name for p in an(entity(x, x.attrs != {"a": 1})).evaluate()], "expected ['b', 'c']")
x = let(P, ps)
print("tags == ['x', 'y'] (collections compare as sets):", [p.name for p in an(entity(x, x.tags == ["x", "y"])).evaluate()], "expected ['a', 'b']")
