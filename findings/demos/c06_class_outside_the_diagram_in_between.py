from __future__ import annotations
import importlib.util, os, sys, tempfile, warnings
warnings.filterwarnings('ignore')
from dataclasses import dataclass
from krrood.class_diagrams.class_diagram import ClassDiagram
from krrood.ormatic.ormatic import ORMatic
@dataclass
class GA: a: int = 0
@dataclass
class GB(GA): b: int = 0
@dataclass
class GC(GB): c: int = 0
bad = 0
for order in ([GC, GA], [GA, GC]):
    o = ORMatic(class_dependency_graph=ClassDiagram(list(order))); o.make_all_tables()
    d = tempfile.mkdtemp(prefix="c06m_"); p = os.path.join(d, f"c06m_{order[0].__name__}.py")
    with open(p, "w") as f: o.to_sqlalchemy_file(f)
    spec = importlib.util.spec_from_file_location(f"c06m_{order[0].__name__}", p); m = importlib.util.module_from_spec(spec); sys.modules[spec.name] = m
    try:
        spec.loader.exec_module(m); print([c.__name__ for c in order], "imports")
    except Exception as e:
        bad += 1; print([c.__name__ for c in order], "FAILS:", type(e).__name__, str(e)[:80])
raise SystemExit(1 if bad else 0)
