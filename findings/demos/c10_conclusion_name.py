import warnings; warnings.filterwarnings('ignore')
from dataclasses import dataclass
from krrood.entity_query_language.entity import entity, let, Symbol
from krrood.entity_query_language.quantify_entity import an
from krrood.entity_query_language.conclusion import Set
log = []
class Noisy:
    def __str__(self): log.append("str"); return "noisy"
    def __repr__(self): log.append("repr"); return "noisy"
@dataclass(eq=False)
class P(Symbol):
    v: object = None
x = let(P, [P(1)], "x")
q = an(entity(x, x.v == 1))
with q:
    Set(x.v, Noisy())
print("calls on the user value while the rule was written:", log)
import sys; sys.exit(1 if log else 0)
