import importlib, os, sys, tempfile, textwrap, warnings
warnings.simplefilter("ignore")
MODEL = textwrap.dedent('''
    from __future__ import annotations
    from dataclasses import dataclass, field
    from krrood.ormatic.dao import AlternativeMapping, T


    @dataclass
    class Thing:
        name: str


    @dataclass
    class SubThing(Thing):
        size: int = 0


    @dataclass
    class ThingMapping(AlternativeMapping[Thing]):
        """stores the name reversed, under the same attribute name"""
        name: str

        @classmethod
        def create_instance(cls, obj: Thing):
            return cls(name=obj.name[::-1])

        def create_from_dao(self) -> T:
            return Thing(name=self.name[::-1])
''')


def main():
    from krrood.ormatic.dao import to_dao
    with tempfile.TemporaryDirectory() as d:
        open(os.path.join(d, "c04_sn_model.py"), "w").write(MODEL)
        sys.path.insert(0, d)
        model = importlib.import_module("c04_sn_model")
        from krrood.class_diagrams.class_diagram import ClassDiagram
        from krrood.ormatic.ormatic import ORMatic
        om = ORMatic(class_dependency_graph=ClassDiagram([model.Thing, model.SubThing]), alternative_mappings=[model.ThingMapping])
        om.make_all_tables()
        with open(os.path.join(d, "c04_sn_interface.py"), "w") as f:
            om.to_sqlalchemy_file(f)
        importlib.import_module("c04_sn_interface")
        bad = []
        for obj in (model.Thing("abc"), model.SubThing("abc", 3)):
            dao = to_dao(obj)
            back = dao.from_dao()
            print(type(obj).__name__, "stored name:", dao.name, "-> back:", back)
            if back != obj or type(back) is not type(obj):
                bad.append(f"{obj!r} came back as {back!r}")
        if bad:
            print("VIOLATED"); [print(" -", b) for b in bad]; return 1
        print("ok"); return 0


sys.exit(main())
