from dataclasses import dataclass
from krrood.entity_query_language.entity import entity, set_of, let, and_, or_, not_, Symbol, inference
from krrood.entity_query_language.quantify_entity import an, the
from krrood.entity_query_language.rule import refinement, alternative, next_rule
from krrood.entity_query_language.conclusion import Add

@dataclass(eq=False)
class P(Symbol):
    a: int
@dataclass(eq=False)
class V(Symbol):
    p: P
    tag: str = ""
@dataclass(eq=False)
class V1(V): pass
@dataclass(eq=False)
class V2(V): pass
@dataclass(eq=False)
class V3(V): pass
@dataclass(eq=False)
class V4(V): pass

xs=[P(i) for i in range(6)]
def run_alt():
    x=let(P,xs,'x')
    v=inference(V)()
    q=an(entity(v, x.a==0))
    with q:
        Add(v, inference(V1)(p=x))
        with alternative(x.a==1):
            Add(v, inference(V2)(p=x))
        with alternative(x.a==2):
            Add(v, inference(V3)(p=x))
        with alternative(x.a==3):
            Add(v, inference(V4)(p=x))
    print("alts:", sorted((type(r).__name__, r.p.a) for r in q.evaluate()))
run_alt()
def run_ref():
    x=let(P,xs,'x')
    v=inference(V)()
    q=an(entity(v, x.a>=0))
    with q:
        Add(v, inference(V1)(p=x))
        with refinement(x.a>=2):
            Add(v, inference(V2)(p=x))
            with refinement(x.a>=4):
                Add(v, inference(V3)(p=x))
    print("refs:", sorted((type(r).__name__, r.p.a) for r in q.evaluate()))
    print("2nd eval:", sorted((type(r).__name__, r.p.a) for r in q.evaluate()))
run_ref()
