import sys, warnings; warnings.filterwarnings('ignore')
from dataclasses import dataclass
from krrood.entity_query_language.entity import entity, let, Symbol
from krrood.entity_query_language.quantify_entity import an
@dataclass(eq=False)
class P(Symbol):
    n: int
ps=[P(i) for i in range(5)]
def fresh():
    x=let(P, ps)
    return an(entity(x, x.n>=1))
alone=[p.n for p in fresh().evaluate()]
q=fresh()
a=q.evaluate(); b=q.evaluate()
ra=[next(a).n]; rb=[next(b).n, next(b).n]
ra+=[p.n for p in a]; rb+=[p.n for p in b]
print(alone, ra, rb)
q=fresh()
it=q.evaluate(); next(it); next(it)
try:
    r=[(u.n,v.n) for u in q.evaluate() for v in q.evaluate()]
    print(len(r))
except RuntimeError as e:
    print("RuntimeError", e)
