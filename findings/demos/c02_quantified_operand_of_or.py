"""Demo: or_ between a quantified condition and a plain one over the same free variable gives one result per assignment."""
import sys, warnings; warnings.filterwarnings('ignore')
sys.path.insert(0, "/repo")
from dataclasses import dataclass
from krrood.entity_query_language.entity import entity, let, Symbol, or_, and_, not_, exists, for_all
from krrood.entity_query_language.quantify_entity import an, the
from krrood.entity_query_language.symbolic import ElseIf, Union
@dataclass(eq=False)
class P(Symbol):
    a: int
    b: int = 0
bad = 0
def expect(label, f, want):
    global bad
    try: got = f()
    except Exception as e: got = repr(e)[:80]
    ok = got == want
    bad += not ok
    print(("ok   " if ok else "FAIL ") + label, got, "expected", want)
xs = [P(5), P(1), P(0, 1), P(9, 1)]; ys = [P(2), P(3)]
def q(cond):
    x = let(P, xs, "x"); y = let(P, ys, "y")
    return sorted(xs.index(r) for r in an(entity(x, cond(x, y))).evaluate())
expect("or_(for_all, plain)", lambda: q(lambda x, y: or_(for_all(y, x.a > y.a), x.b == 1)), [0, 2, 3])
expect("or_(exists, plain)", lambda: q(lambda x, y: or_(exists(y, x.a > y.a), x.b == 1)), [0, 2, 3])
expect("or_(plain, exists)", lambda: q(lambda x, y: or_(x.b == 1, exists(y, x.a > y.a))), [0, 2, 3])
def form():
    x = let(P, xs, "x"); y = let(P, ys, "y")
    return type(or_(exists(y, x.a > y.a), x.b == 1)).__name__, type(or_(x.a > y.a, x.b == 1)).__name__
expect("forms", form, ("ElseIf", "Union"))
raise SystemExit(1 if bad else 0)
