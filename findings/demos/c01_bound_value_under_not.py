import warnings; warnings.filterwarnings('ignore')
from dataclasses import dataclass
from krrood.entity_query_language.entity import entity, let, Symbol, or_, and_, not_
from krrood.entity_query_language.quantify_entity import an
from krrood.entity_query_language.predicate import symbolic_function
@dataclass(eq=False)
class N(Symbol):
    v: int
@symbolic_function
def is_even(n: N) -> bool:
    return n.v % 2 == 0
xs=[N(1),N(2),N(3),N(4)]
bad=0
def run(name, mk, pred):
    global bad
    x=let(N,xs,"x"); p=is_even(x)
    got=sorted(r.v for r in an(entity(x, mk(x,p))).evaluate())
    want=sorted(n.v for n in xs if pred(n))
    print(name, "got", got, "want", want, "OK" if got==want else "WRONG"); bad+= got!=want
run("or_(p, not_(p))", lambda x,p: or_(p, not_(p)), lambda n: True)
run("or_(and_(p, v>2), and_(not_(p), v<2))", lambda x,p: or_(and_(p, x.v>2), and_(not_(p), x.v<2)), lambda n: (n.v%2==0 and n.v>2) or (n.v%2==1 and n.v<2))
import sys; sys.exit(1 if bad else 0)
