from __future__ import annotations
import importlib.util, os, sys, tempfile, warnings
warnings.filterwarnings('ignore')
from dataclasses import dataclass, field
from typing_extensions import List, Optional, Set
from krrood.class_diagrams.class_diagram import ClassDiagram
from krrood.ormatic.dao import to_dao
from krrood.ormatic.ormatic import ORMatic
@dataclass(eq=False)
class Tag:
    name: str
@dataclass(eq=False)
class Box:
    label: str
    tags: Set[Tag] = field(default_factory=set)
    order: List[Tag] = field(default_factory=list)
def gen():
    diagram = ClassDiagram([Tag, Box])
    o = ORMatic(class_dependency_graph=diagram)
    o.make_all_tables()
    d = tempfile.mkdtemp(prefix="c04s_"); p = os.path.join(d, "c04s_interface.py")
    with open(p, "w") as f: o.to_sqlalchemy_file(f)
    spec = importlib.util.spec_from_file_location("c04s_interface", p); m = importlib.util.module_from_spec(spec); sys.modules[spec.name] = m; spec.loader.exec_module(m)
gen()
t1, t2 = Tag("a"), Tag("b")
b = Box("x", {t1, t2}, [t2, t1])
c = to_dao(b).from_dao()
print(type(c.tags).__name__, sorted(t.name for t in c.tags), type(c.order).__name__, [t.name for t in c.order])
print("set field comes back as", type(c.tags).__name__, "(expected set)")
