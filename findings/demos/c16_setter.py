"""Demo (triage aid): writes to a descriptor-managed field that erase or reorder data."""
import sys
sys.path.insert(0, "/repo")
from test.dataset.university_ontology_like_classes import Company, Person
from krrood.entity_query_language.symbol_graph import SymbolGraph
SymbolGraph().clear(); SymbolGraph()
bad = 0
def expect(label, got, want):
    global bad
    ok = got == want
    bad += not ok
    print(("ok   " if ok else "FAIL ") + label, got, "expected", want)
c = Company(name="C"); p1 = Person(name="p1"); p2 = Person(name="p2")
c.members = {p1, p2}
c.members = c.members
expect("self-assignment keeps elements", len(c.members), 2)
c.members = {p1}
c.members |= {p2}
expect("|= keeps and adds", len(c.members), 2)
expect("|= infers inverse", c in p2.member_of, True)
p = Person(name="q"); c2 = Company(name="C2"); c3 = Company(name="C3")
p.member_of = [c2, c3, c2]
expect("list assignment keeps order and repetitions", [x.name for x in p.member_of], ["C2", "C3", "C2"])
p.member_of += [c]
expect("+= appends", [x.name for x in p.member_of], ["C2", "C3", "C2", "C"])
expect("+= infers inverse", p in c.members, True)
raise SystemExit(1 if bad else 0)
