from __future__ import annotations
import sys
from dataclasses import dataclass, field
from typing_extensions import List, Optional
from krrood.entity_query_language.match import entity_matching, match, select
from krrood.entity_query_language.predicate import Symbol
from krrood.entity_query_language.quantify_entity import an
from krrood.entity_query_language.symbol_graph import SymbolGraph


@dataclass(eq=False)
class Part(Symbol):
    name: str


@dataclass(eq=False)
class Wheel(Part):
    radius: int = 1


@dataclass(eq=False)
class Car(Symbol):
    name: str
    main: Part
    spare: Optional[Part] = None
    parts: List[Part] = field(default_factory=list)


SymbolGraph()
w1, w2, p1 = Wheel("w1", 3), Wheel("w2", 4), Part("p1")
cars = [Car("c1", w1, None, [w1, p1]), Car("c2", p1, w2, [w2]), Car("c3", w2, p1, [])]
bad = []


def names(q):
    try:
        return sorted(c.name for c in q.evaluate())
    except Exception as e:
        return f"{type(e).__name__}: {e}"


def names_safe(build):
    try:
        return names(build())
    except Exception as e:
        return f"while building: {type(e).__name__}: {e}"


def check(label, got, exp):
    got = got() if callable(got) else got
    print(("ok  " if got == exp else "FAIL"), label, got, "expected", exp)
    if got != exp:
        bad.append(label)


check("spare=match(Part)", lambda: names_safe(lambda: an(entity_matching(Car, cars)(spare=match(Part)))), ["c2", "c3"])
check("spare=match(Wheel)", lambda: names_safe(lambda: an(entity_matching(Car, cars)(spare=match(Wheel)))), ["c2"])
check("spare=match(Part)(name='p1')", lambda: names_safe(lambda: an(entity_matching(Car, cars)(spare=match(Part)(name="p1")))), ["c3"])
check("main=match(Wheel)", lambda: names_safe(lambda: an(entity_matching(Car, cars)(main=match(Wheel)))), ["c1", "c3"])
sys.exit(1 if bad else 0)
