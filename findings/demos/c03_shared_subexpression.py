import warnings; warnings.filterwarnings('ignore')
from dataclasses import dataclass
from krrood.entity_query_language.entity import entity, let, Symbol, and_
from krrood.entity_query_language.quantify_entity import an
from krrood.entity_query_language.predicate import symbolic_function
@dataclass(eq=False)
class N(Symbol):
    v: int
    flag: bool = True
@symbolic_function
def is_even(n: N) -> bool:
    return n.v % 2 == 0
bad=0
def check(name, got, want):
    global bad
    ok=sorted(got)==sorted(want); bad+=not ok
    print(name,"got",sorted(got),"want",sorted(want),"OK" if ok else "WRONG")
xs=[N(1,True),N(2,False),N(3,False),N(4,True)]
# (a) attribute node used as a condition in one query, then as an operand in another
x=let(N,xs,"x"); flag=x.flag
check("q1: entity(x, flag)", [r.v for r in an(entity(x, flag)).evaluate()], [1,4])
check("q2: entity(x, flag == False)", [r.v for r in an(entity(x, flag == False)).evaluate()], [2,3])
# (b) predicate node used in two queries, the second built before the first is evaluated
x=let(N,xs,"x"); p=is_even(x)
q1=an(entity(x, p)); q2=an(entity(x, and_(p, x.v > 2)))
check("q1: entity(x, p) after q2 was built", [r.v for r in q1.evaluate()], [2,4])
check("q2: entity(x, and_(p, x.v > 2))", [r.v for r in q2.evaluate()], [4])
import sys; sys.exit(1 if bad else 0)
