"""Demo: an(...) with a result-count constraint is rejected by the translator (or enforced), not answered without the constraint."""
import sys, warnings
sys.path.insert(0, "/repo"); sys.path.insert(0, "/repo/src"); warnings.simplefilter("ignore")
from sqlalchemy import create_engine
from sqlalchemy.orm import Session
from test.dataset.example_classes import Position
from test.dataset.ormatic_interface import *
from krrood.ormatic.dao import to_dao
from krrood.ormatic.eql_interface import eql_to_sql, EQLTranslationError
from krrood.entity_query_language.entity import entity, let
from krrood.entity_query_language.quantify_entity import an
from krrood.entity_query_language.result_quantification_constraint import AtMost
from krrood.entity_query_language.failures import GreaterThanExpectedNumberOfSolutions
engine = create_engine("sqlite:///:memory:"); Base.metadata.create_all(engine); session = Session(engine)
ps = [Position(1, 2, 3), Position(2, 2, 3), Position(3, 2, 3)]
session.add_all([to_dao(p) for p in ps]); session.commit()
p = let(Position, ps)
q = an(entity(p, p.y == 2), quantification=AtMost(1))
try:
    list(q.evaluate()); mem = "rows"
except GreaterThanExpectedNumberOfSolutions:
    mem = "GreaterThanExpectedNumberOfSolutions"
try:
    rows = eql_to_sql(q, session).evaluate(); sql = f"{len(rows)} rows"
except EQLTranslationError as e:
    sql = "rejected"
except Exception as e:
    sql = type(e).__name__
print("in memory:", mem, "| sql:", sql)
ok = (mem == "rows") == sql.endswith("rows")
raise SystemExit(0 if ok else 1)
