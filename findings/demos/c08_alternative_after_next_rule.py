import warnings; warnings.filterwarnings('ignore')
from dataclasses import dataclass
from krrood.entity_query_language.entity import entity, let, Symbol, inference
from krrood.entity_query_language.quantify_entity import an
from krrood.entity_query_language.conclusion import Add
from krrood.entity_query_language.rule import refinement, alternative, next_rule

@dataclass(eq=False)
class P(Symbol):
    a: int
    b: int
    c: int
@dataclass(eq=False)
class V(Symbol):
    p: P
    tag: str = ""
xs = [P(1, 0, 1), P(0, 0, 1), P(1, 1, 1), P(0, 1, 0)]
x = let(P, xs, "x"); v = inference(V)()
q = an(entity(v, x.a > 0))
with q:
    Add(v, inference(V)(p=x, tag="base"))
    with next_rule(x.b > 0):
        Add(v, inference(V)(p=x, tag="next"))
    with alternative(x.c > 0):
        Add(v, inference(V)(p=x, tag="alt"))
got = sorted(((r.p.a, r.p.b, r.p.c), r.tag) for r in q.evaluate())
# base if a>0; next additionally if b>0; alt only when neither base nor next fired and c>0
want = sorted([((1,0,1),"base"), ((0,0,1),"alt"), ((1,1,1),"base"), ((1,1,1),"next"), ((0,1,0),"next")])
print("got ", got); print("want", want)
import sys; sys.exit(0 if got == want else 1)
