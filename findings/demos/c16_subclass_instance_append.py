import sys, warnings; warnings.filterwarnings('ignore')
sys.path.insert(0, "/repo")
from dataclasses import dataclass, field
from krrood.entity_query_language.symbol_graph import SymbolGraph
from test.dataset.university_ontology_like_classes import *
@dataclass
class Employee(Person):
    number: int = 0
    def __hash__(self): return hash(self.name)
SymbolGraph().clear(); SymbolGraph()
c = Company(name="c"); e = Employee(name="e"); p = Person(name="p")
p.member_of.append(c); e.member_of.append(c)
print("Person  :", [x.name for x in p.member_of], [m.name for m in c.members])
print("Employee:", [x.name for x in e.member_of], "expected ['c']")
e2 = Employee(name="e2"); c2 = Company(name="c2")
e2.works_for = c2
print("Employee works_for:", e2.works_for.name, [x.name for x in e2.member_of], sorted(m.name for m in c2.members), "expected c2 ['c2'] ['e2']")
c3 = Company(name="c3"); e3 = Employee(name="e3")
c3.members.add(e3)
print("Company.members.add(employee):", [x.name for x in e3.member_of], "expected ['c3']")
