"""C19: a type tag that names something a module produces on demand - six.moves.dbm_gnu on an interpreter built without _gdbm - made
getattr(module, name) raise ModuleNotFoundError, which left from_json as it was: an unrelated exception instead of a JSONSerializationError."""
import sys
import types
import warnings

warnings.simplefilter("ignore")
from krrood.adapters.json_serializer import from_json, JSONSerializationError

# a module of our own that behaves like six.moves: an attribute whose import fails (independent of what is installed)
lazy = types.ModuleType("c19_lazy_module")


def _module_getattr(name):
    if name == "Backend":
        raise ModuleNotFoundError("No module named '_c19_backend'")
    raise AttributeError(name)


lazy.__getattr__ = _module_getattr
sys.modules["c19_lazy_module"] = lazy

bad = []
tags = ["c19_lazy_module.Backend", "c19_lazy_module.Other"]
try:
    import six  # noqa: F401

    tags += ["six.moves.dbm_gnu", "six.moves.dbm_ndbm"]
except ImportError:
    pass
for tag in tags:
    try:
        obj = from_json({"__json_type__": tag})
        if tag.startswith("six."):
            continue  # the backend happens to be installed: the tag names a module, which is rejected further on or accepted
        bad.append(f"{tag}: no error, got {obj!r}")
    except JSONSerializationError:
        pass
    except Exception as e:
        bad.append(f"{tag}: unrelated {type(e).__name__}: {e}")
if bad:
    print("VIOLATED")
    for b in bad:
        print(" -", b)
    sys.exit(1)
print("ok")
