import sys, warnings
warnings.simplefilter("ignore")
from sqlalchemy.orm import Session, configure_mappers
from krrood.entity_query_language.symbol_graph import SymbolGraph
from krrood.entity_query_language.entity import let, entity, and_
from krrood.entity_query_language.quantify_entity import an
from krrood.ormatic.dao import to_dao
from krrood.ormatic.utils import create_engine
from krrood.ormatic.eql_interface import eql_to_sql, EQLTranslationError
from test.dataset.semantic_world_like_classes import World, Body, Handle, Container, FixedConnection, Connection
from test.dataset.ormatic_interface import Base

SymbolGraph()
configure_mappers()
engine = create_engine("sqlite:///:memory:")
session = Session(engine)
Base.metadata.create_all(engine)
h1, h2, c1, c2 = Handle("H1"), Handle("H2"), Container("C1"), Container("C2")
w1 = World(1, [h1, c1])
w2 = World(2, [h2, c2])
w1.connections = [FixedConnection(c1, h1)]
w2.connections = [FixedConnection(c2, h2)]
h3 = Handle("H3")
w3 = World(3, [h3])
for w in (w1, w2, w3):
    for b in w.bodies:
        b.world = w
    for c in w.connections:
        c.world = w
session.add(to_dao(w1)); session.add(to_dao(w2)); session.add(to_dao(w3))
session.commit()
bodies = w1.bodies + w2.bodies + w3.bodies
conns = w1.connections + w2.connections
h = let(Handle, domain=bodies, name="h")
hh = let(Handle, domain=bodies, name="hh")
c = let(Connection, domain=conns, name="c")
q = an(entity(h, hh.world == c.world))
mem = sorted({x.name for x in q.evaluate()})
try:
    t = eql_to_sql(q, session)
    db = sorted({r.name for r in t.evaluate()})
    print("memory", mem, "database", db, "| FROM/WHERE:", str(t.sql_query).replace("\n", " ")[-260:])
    sys.exit(0 if db == mem else 1)
except EQLTranslationError as e:
    print("rejected:", type(e).__name__, e)
    sys.exit(0)
# (rejected is the repaired behaviour; a statement that is accepted has to agree with memory)
