from __future__ import annotations
import sys
from dataclasses import dataclass, field
from typing_extensions import List
from krrood.entity_query_language.predicate import Symbol
from krrood.entity_query_language.symbol_graph import SymbolGraph
from krrood.ontomatic.property_descriptor.property_descriptor import PropertyDescriptor
from krrood.ontomatic.property_descriptor.mixins import TransitiveProperty

@dataclass(eq=False)
class Fleet(Symbol):
    name: str
@dataclass(eq=False)
class Car(Symbol):
    name: str
    belongs_to: List[Symbol] = field(default_factory=list)
@dataclass(eq=False)
class Wheel(Symbol):
    name: str
    mounted_on: List[Symbol] = field(default_factory=list)
@dataclass
class PartOf(PropertyDescriptor, TransitiveProperty): ...
Car.belongs_to = PartOf(Car, "belongs_to")
Wheel.mounted_on = PartOf(Wheel, "mounted_on")
SymbolGraph().clear(); sg=SymbolGraph()
f=Fleet("f"); c=Car("c"); w=Wheel("w")
try:
    c.belongs_to.append(f)      # car part of fleet
    w.mounted_on.append(c)      # wheel part of car  => wheel part of fleet (transitive)
    print("order A: wheel.mounted_on =", [x.name for x in w.mounted_on])
except Exception as e:
    import traceback; traceback.print_exc(limit=3)
SymbolGraph().clear(); sg=SymbolGraph()
f=Fleet("f"); c=Car("c"); w=Wheel("w")
try:
    w.mounted_on.append(c)
    c.belongs_to.append(f)
    print("order B: wheel.mounted_on =", [x.name for x in w.mounted_on])
except Exception as e:
    import traceback; traceback.print_exc(limit=3)
