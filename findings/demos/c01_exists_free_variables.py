import warnings; warnings.filterwarnings('ignore')
from dataclasses import dataclass, field
from typing import List
from krrood.entity_query_language.entity import entity, let, Symbol, or_, and_, not_, exists, for_all, flatten, set_of
from krrood.entity_query_language.quantify_entity import an
@dataclass(eq=False)
class P(Symbol):
    a: int
    b: int = 0
    items: List[int] = field(default_factory=list)
bad=0
def check(name, got, want):
    global bad
    ok = sorted(got)==sorted(want); bad += not ok
    print(name, "got", sorted(got), "want", sorted(want), "OK" if ok else "WRONG")
xs=[P(1),P(1),P(2)]; ys=[P(1),P(3)]
x=let(P,xs,"x"); y=let(P,ys,"y")
check("exists(y, x.a == y.a), x unbound", [xs.index(r) for r in an(entity(x, exists(y, x.a == y.a))).evaluate()], [0,1])
x=let(P,xs,"x"); y=let(P,ys,"y")
check("and_(x.a > 0, exists(y, x.a == y.a))", [xs.index(r) for r in an(entity(x, and_(x.a > 0, exists(y, x.a == y.a)))).evaluate()], [0,1])
ys2=[P(1),P(1),P(3)]
x=let(P,xs,"x"); y=let(P,ys2,"y")
check("exists with two witnesses", [xs.index(r) for r in an(entity(x, and_(x.a > 0, exists(y, x.a == y.a)))).evaluate()], [0,1])
zs=[P(0,0,[1,9]),P(0,0,[1]),P(0,1,[5])]
x=let(P,zs,"x"); f=flatten(x.items)
check("or_(exists(f, f > 4), x.b == 0)", [zs.index(r) for r in an(entity(x, or_(exists(f, f > 4), x.b == 0))).evaluate()], [0,1,2])
import sys; sys.exit(1 if bad else 0)
