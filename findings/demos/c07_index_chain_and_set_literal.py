import os, sys, warnings
sys.path.insert(0, "/repo"); sys.path.insert(0, "/repo/src")
warnings.simplefilter("ignore")
from sqlalchemy.orm import Session, configure_mappers
from krrood.entity_query_language.entity import entity, let, in_
from krrood.entity_query_language.quantify_entity import an
from krrood.entity_query_language.symbol_graph import SymbolGraph
from krrood.ormatic.dao import to_dao
from krrood.ormatic.eql_interface import eql_to_sql, EQLTranslationError
from krrood.ormatic.utils import create_engine
from test.dataset.semantic_world_like_classes import World, Body
from test.dataset.ormatic_interface import Base
SymbolGraph(); configure_mappers()
engine = create_engine("sqlite:///:memory:"); session = Session(engine); Base.metadata.create_all(engine)
w = World(1, [Body("A"), Body("B"), Body("C")])
session.add(to_dao(w)); session.commit()
bad = 0
def run(name, build, key):
    global bad
    mem = sorted(key(c) for c in build().evaluate())
    try:
        out = ("rows", sorted(key(r) for r in eql_to_sql(build(), session).evaluate()))
    except EQLTranslationError as e:
        out = ("rejected", type(e).__name__)
    except Exception as e:
        out = ("OTHER-ERROR", type(e).__name__)
    ok = out[0] == "rejected" or out == ("rows", mem); bad += not ok
    print(name, "| memory:", mem, "| sql:", out, "|", "OK" if ok else "DIVERGES")
def q1():
    ww = let(World, domain=[w], name="w")
    return an(entity(ww, ww.bodies[0].name == "B"))
def q2():
    b = let(Body, domain=w.bodies, name="b")
    return an(entity(b, in_(b.name, {"A", "C"})))
run("index inside an attribute chain", q1, lambda x: x.id_ if hasattr(x, "id_") else 1)
run("membership in a set literal", q2, lambda x: x.name)
sys.exit(1 if bad else 0)
