from __future__ import annotations
import importlib.util, os, sys, tempfile, warnings
warnings.filterwarnings('ignore')
from dataclasses import dataclass, field
from typing_extensions import List, Optional
from krrood.class_diagrams.class_diagram import ClassDiagram
from krrood.ormatic.dao import AlternativeMapping, to_dao
from krrood.ormatic.ormatic import ORMatic

@dataclass
class Vehicle:
    name: str = "unnamed"

@dataclass
class VehicleMapping(AlternativeMapping[Vehicle]):
    label: str                       # the mapping stores the name under another column

    @classmethod
    def create_instance(cls, obj: Vehicle):
        return cls(obj.name)

    def create_from_dao(self) -> Vehicle:
        return Vehicle(self.label)

@dataclass
class Car(Vehicle):
    seats: int = 4

@dataclass
class SportsCar(Car):
    top_speed: float = 0.0

def generate():
    diagram = ClassDiagram([Vehicle, Car, SportsCar])
    o = ORMatic(class_dependency_graph=diagram, alternative_mappings=[VehicleMapping]); o.make_all_tables()
    d = tempfile.mkdtemp(prefix="c04g_"); p = os.path.join(d, "c04g_interface.py")
    with open(p, "w") as f: o.to_sqlalchemy_file(f)
    spec = importlib.util.spec_from_file_location("c04g_interface", p); m = importlib.util.module_from_spec(spec); sys.modules[spec.name] = m; spec.loader.exec_module(m)
generate()
bad = 0
for obj in (Vehicle("cart"), Car("sedan", 5), SportsCar("gt", 2, 310.0)):
    back = to_dao(obj).from_dao()
    ok = back == obj and type(back) is type(obj)
    bad += not ok
    print(("ok   " if ok else "FAIL "), obj, "->", back)
raise SystemExit(1 if bad else 0)
