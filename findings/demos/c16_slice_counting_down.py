import warnings; warnings.filterwarnings('ignore')
from krrood.entity_query_language.symbol_graph import SymbolGraph
from test.dataset.university_ontology_like_classes import Company, Person
SymbolGraph().clear(); SymbolGraph()
cs=[Company(name=f"c{i}") for i in range(5)]
bad=0
import itertools
for sl, n in [(slice(None,None,-1),2),(slice(None,None,-1),3),(slice(-1,None,-2),2),(slice(2,None,-1),3),(slice(None,None,2),2),(slice(1,2),3),(slice(-2,None),1),(slice(3,0,-1),3), (slice(0,None,-1),1)]:
    for start_len in (2,3,4):
        plain=list(cs[:start_len]); 
        p=Person(name="p"); p.member_of=list(cs[:start_len])
        new=[cs[(i+1)%5] for i in range(n)]
        try: plain[sl]=new; want=[c.name for c in plain]
        except ValueError as e: want="ValueError"
        try: p.member_of[sl]=new; got=[c.name for c in p.member_of]
        except ValueError as e: got="ValueError"
        if want!=got: bad+=1; print(sl,start_len,n,"plain",want,"managed",got)
print("mismatches",bad)
