"""Demo: negative positions refer to the list as it is when the write starts, also when the write infers further elements."""
import sys
sys.path.insert(0, "/repo")
from test.dataset.university_ontology_like_classes import Company
from krrood.entity_query_language.symbol_graph import SymbolGraph
SymbolGraph().clear(); SymbolGraph()
bad = 0
def expect(label, got, want):
    global bad
    ok = got == want
    bad += not ok
    print(("ok   " if ok else "FAIL ") + label, got, "expected", want)
def names(xs): return [x.name for x in xs]
def before(xs, a, b):
    n = names(xs); return n.index(a) < n.index(b)
c2, c3, c4 = Company(name="c2"), Company(name="c3"), Company(name="c4")
c2.sub_organization_of = [c3, c4]          # transitive: whoever is below c2 is below c3 and c4 as well
a, b = Company(name="a"), Company(name="b")
c1 = Company(name="c1"); c1.sub_organization_of = [a, b]
c1.sub_organization_of.insert(-1, c2)
expect("insert(-1, x): x before the old last element", (before(c1.sub_organization_of, "a", "c2"), before(c1.sub_organization_of, "c2", "b")), (True, True))
expect("insert(-1, x): closure complete", sorted(names(c1.sub_organization_of)), ["a", "b", "c2", "c3", "c4"])
d1 = Company(name="d1"); d1.sub_organization_of = [a, b]
d1.sub_organization_of[-1] = c2
expect("x[-1] = y replaces the old last element", ("b" in names(d1.sub_organization_of), names(d1.sub_organization_of)[:2]), (False, ["a", "c2"]))
expect("x[-1] = y: closure complete", sorted(names(d1.sub_organization_of)), ["a", "c2", "c3", "c4"])
raise SystemExit(1 if bad else 0)
