"""C03: 'abandoning an iterator at any point ... this includes rule queries that infer instances'.  The evaluation after an abandoned one has
to behave like a fresh one - also in what it *constructs*.  A selector fills its set of selected conclusions for one result and clears it
when the generator is resumed: an iterator abandoned at that result left the conclusion behind, and the first result of the next evaluation
was produced with the leftover in force as well - an extra inferred instance was constructed (which of the two conclusions won was left to
the iteration order of a two-element set)."""
import gc
import sys
from dataclasses import dataclass

from krrood.entity_query_language.conclusion import Add
from krrood.entity_query_language.entity import let, entity, inference
from krrood.entity_query_language.quantify_entity import an
from krrood.entity_query_language.rule import refinement
from krrood.entity_query_language.symbol_graph import SymbolGraph

CONSTRUCTED = []


@dataclass(eq=False)
class Item:
    name: str
    size: int


@dataclass(eq=False)
class Tag:
    item: Item

    def __post_init__(self):
        CONSTRUCTED.append((type(self).__name__, self.item.name))


@dataclass(eq=False)
class Small(Tag): ...


@dataclass(eq=False)
class Big(Tag): ...


SymbolGraph()
ITEMS = [Item("a", 1), Item("b", 5), Item("c", 2), Item("d", 9)]
EXPECTED = [("Small", "a"), ("Big", "b"), ("Small", "c"), ("Big", "d")]


def build():
    x = let(Item, ITEMS)
    query = an(entity(tag := inference(Tag)(), x.size > 0))
    with query:
        Add(tag, inference(Small)(item=x))
        with refinement(x.size > 3):
            Add(tag, inference(Big)(item=x))
    return query


def show(results):
    return [(type(r).__name__, r.item.name) for r in results]


bad = []
query = build()
CONSTRUCTED.clear()
fresh = show(query.evaluate())
fresh_constructed = sorted(CONSTRUCTED)
if fresh != EXPECTED:
    bad.append(f"a fresh evaluation gives {fresh}")
for taken in (1, 2, 3):
    query = build()
    iterator = query.evaluate()
    [next(iterator) for _ in range(taken)]
    del iterator
    gc.collect()
    CONSTRUCTED.clear()
    again = show(query.evaluate())
    if again != EXPECTED:
        bad.append(f"after an iterator abandoned after {taken} result(s) the evaluation gives {again}")
    if sorted(CONSTRUCTED) != fresh_constructed:
        extra = sorted(set(CONSTRUCTED) - set(fresh_constructed)) or [c for c in CONSTRUCTED if CONSTRUCTED.count(c) > fresh_constructed.count(c)]
        bad.append(f"after an iterator abandoned after {taken} result(s) the evaluation constructs {sorted(CONSTRUCTED)}, a fresh one {fresh_constructed} (extra: {sorted(set(extra))})")
if bad:
    print("VIOLATED")
    for b in bad:
        print(" -", b)
    sys.exit(1)
print("ok")
