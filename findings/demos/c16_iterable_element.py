from __future__ import annotations
import sys, warnings; warnings.filterwarnings('ignore')
from dataclasses import dataclass, field
from typing_extensions import List, Set, Type
from krrood.entity_query_language.predicate import Symbol
from krrood.entity_query_language.symbol_graph import SymbolGraph
from krrood.ontomatic.property_descriptor.mixins import HasInverseProperty
from krrood.ontomatic.property_descriptor.property_descriptor import PropertyDescriptor

@dataclass(eq=False)
class Team(Symbol):
    name: str
    members: Set[Dev] = field(default_factory=set)

    def __iter__(self):
        """a team can be iterated: its members"""
        return iter(self.members)

@dataclass(eq=False)
class Dev(Symbol):
    name: str
    lead_of: Team = None
    member_of: List[Team] = field(default_factory=list)

@dataclass
class Members(PropertyDescriptor, HasInverseProperty):
    @classmethod
    def get_inverse(cls) -> Type[MemberOf]:
        return MemberOf

@dataclass
class MemberOf(PropertyDescriptor, HasInverseProperty):
    @classmethod
    def get_inverse(cls) -> Type[Members]:
        return Members

@dataclass
class LeadOf(PropertyDescriptor):
    pass

Dev.member_of = MemberOf(Dev, "member_of"); Dev.lead_of = LeadOf(Dev, "lead_of"); Team.members = Members(Team, "members")
SymbolGraph().clear(); SymbolGraph()
bad = 0
def expect(what, got, want):
    global bad
    ok = got == want; bad += not ok
    print(("ok   " if ok else "FAIL ") + what, got, "" if ok else f"expected {want}")
t = Team("t"); a = Dev("a"); b = Dev("b")
t.members.add(a)
b.member_of.append(t)          # the element written to the field is iterable
expect("b.member_of", [x.name for x in b.member_of], ["t"])
expect("t.members", sorted(x.name for x in t.members), ["a", "b"])
def rels(name):
    return sorted((r.source.instance.name, r.target.instance.name) for r in SymbolGraph().relations() if r.wrapped_field.name == name)
expect("member_of relations", rels("member_of"), [("a", "t"), ("b", "t")])
c = Dev("c"); c.lead_of = t    # single-valued field, iterable value
expect("lead_of relations", rels("lead_of"), [("c", "t")])
raise SystemExit(1 if bad else 0)
