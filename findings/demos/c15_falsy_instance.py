"""Demo: relations of instances that are falsy (define __len__/__bool__) are recorded like any other."""
import sys
sys.path.insert(0, "/repo")
from dataclasses import dataclass, field
from typing import List
from test.dataset.university_ontology_like_classes import Company, Person
from krrood.entity_query_language.symbol_graph import SymbolGraph

@dataclass(eq=False)
class QuietPerson(Person):
    words: List[str] = field(default_factory=list)
    def __len__(self):
        return len(getattr(self, "words", ()))

SymbolGraph().clear(); SymbolGraph()
bad = 0
def expect(label, got, want):
    global bad
    ok = got == want
    bad += not ok
    print(("ok   " if ok else "FAIL ") + label, got, "expected", want)

c = Company(name="C"); q = QuietPerson(name="quiet"); p = Person(name="p")
c.members = {q, p}
expect("plain member gets the inverse", c in p.member_of, True)
expect("falsy member gets the inverse", c in q.member_of, True)
c2 = Company(name="C2")
q.member_of.append(c2) if hasattr(q.member_of, "append") else q.member_of.add(c2)
expect("falsy domain: inverse inferred", q in c2.members, True)
raise SystemExit(1 if bad else 0)
