"""Demo: an equality join between two variables neither of which is selected is rejected (or answered like in memory)."""
import sys, warnings
sys.path.insert(0, "/repo"); sys.path.insert(0, "/repo/src"); warnings.simplefilter("ignore")
from sqlalchemy import create_engine
from sqlalchemy.orm import Session
from test.dataset.semantic_world_like_classes import World, Body, PrismaticConnection, FixedConnection, RevoluteConnection
from test.dataset.ormatic_interface import *
from krrood.ormatic.dao import to_dao
from krrood.ormatic.eql_interface import eql_to_sql, EQLTranslationError
from krrood.entity_query_language.entity import entity, let, and_
from krrood.entity_query_language.quantify_entity import an
engine = create_engine("sqlite:///:memory:"); Base.metadata.create_all(engine); session = Session(engine)
w = World(1, [Body("B0"), Body("B1"), Body("B2"), Body("B3")])
pc = PrismaticConnection(w.bodies[0], w.bodies[1]); fc = FixedConnection(w.bodies[1], w.bodies[3]); rc = RevoluteConnection(w.bodies[2], w.bodies[3])
rc2 = RevoluteConnection(w.bodies[0], w.bodies[2])
w.connections = [pc, fc, rc, rc2]
session.add(to_dao(w)); session.commit()
r = let(RevoluteConnection, w.connections); p = let(PrismaticConnection, w.connections); f = let(FixedConnection, w.connections)
# select the revolute connections; the condition relates the two *other* variables only
q = an(entity(r, f.parent == p.child))
mem = sorted((x.parent.name, x.child.name) for x in q.evaluate())
try:
    rows = eql_to_sql(q, session).evaluate()
    sql = sorted((x.parent.name, x.child.name) for x in rows)
except EQLTranslationError as e:
    sql = "rejected"
except Exception as e:
    sql = type(e).__name__ + ": " + str(e)[:80]
print("in memory:", mem); print("sql      :", sql)
raise SystemExit(0 if sql == "rejected" or sql == mem else 1)
