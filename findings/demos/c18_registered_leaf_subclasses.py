"""Demo: registered third-party types that subclass int / tuple keep their tag and class through JSON text."""
import sys, json, enum
sys.path.insert(0, "/repo")
from collections import namedtuple
from krrood.adapters.json_serializer import to_json, from_json, JSONSerializableTypeRegistry, JSON_TYPE_NAME
from krrood.utils import get_full_class_name
bad = 0
def expect(label, got, want):
    global bad
    ok = got == want
    bad += not ok
    print(("ok   " if ok else "FAIL ") + label, got, "expected", want)
Point = namedtuple("Point", "x y")
class Level(enum.IntEnum):
    LOW = 1
    HIGH = 2
reg = JSONSerializableTypeRegistry()
reg.register(Point, lambda p: {JSON_TYPE_NAME: get_full_class_name(Point), "x": p.x, "y": p.y}, lambda d, **kw: Point(d["x"], d["y"]))
reg.register(Level, lambda l: {JSON_TYPE_NAME: get_full_class_name(Level), "name": l.name}, lambda d, **kw: Level[d["name"]])
for v in (Point(1, 2), Level.HIGH, [Point(0, 0), Level.LOW, 3]):
    back = from_json(json.loads(json.dumps(to_json(v))))
    expect(f"round trip of {v!r}: value", back, v)
    expect(f"round trip of {v!r}: class", [type(x) for x in (back if isinstance(v, list) else [back])], [type(x) for x in (v if isinstance(v, list) else [v])])
raise SystemExit(1 if bad else 0)
