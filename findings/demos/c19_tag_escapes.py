"""Demo (triage aid, not a check): tag-resolution failures that escape the documented hierarchy.
Before the fix: AttributeError / ValueError / TypeError; after: JSONSerializationError subclasses."""
from krrood.adapters.json_serializer import from_json, JSONSerializationError, JSON_TYPE_NAME

bad = 0
for tag in [5, True, ["a.b"], {"a": 1}, 1.5, ".Foo", "..Foo", "os.path", "json.dumps", "math.pi", "typing.T", "sys.path", "a.", "os..", "krrood.adapters.json_serializer.SubclassJSONSerializer"]:
    try:
        r = from_json({JSON_TYPE_NAME: tag})
        print(repr(tag), "-> returned", type(r)); bad += 1
    except JSONSerializationError as e:
        print(repr(tag), "-> ok", type(e).__name__)
    except Exception as e:
        print(repr(tag), "-> ESCAPE", type(e).__name__, e); bad += 1
raise SystemExit(1 if bad else 0)
