from dataclasses import dataclass, field
from typing_extensions import List, Set
from krrood.entity_query_language.entity import entity, set_of, let, and_, or_, not_, Symbol, inference
from krrood.entity_query_language.quantify_entity import an, the
from krrood.entity_query_language.predicate import Predicate, symbolic_function
import gc, traceback

@dataclass(eq=False)
class P(Symbol):
    a: int

@symbolic_function
def is_even(n):
    return n % 2 == 0

xs=[P(i) for i in range(4)]
x=let(P,xs,'x')
try:
    c = is_even(x.a)
    print("positional ->", type(c))
    print([r.a for r in an(entity(x, c)).evaluate()])
except Exception as e:
    print("positional raised", type(e).__name__, e)
c = is_even(n=x.a)
print("kw ->", type(c), [r.a for r in an(entity(x, c)).evaluate()])

@symbolic_function
def lt(p, q):
    return p < q
try:
    c = lt(x.a, 2)
    print("lt positional ->", type(c))
    print([r.a for r in an(entity(x, c)).evaluate()])
except Exception as e:
    print("lt positional raised", type(e).__name__, e)
try:
    c = lt(1, x.a)
    print("lt(1,x.a) ->", type(c))
    print([r.a for r in an(entity(x, c)).evaluate()])
except Exception as e:
    print("lt(1,x.a) raised", type(e).__name__, e)
