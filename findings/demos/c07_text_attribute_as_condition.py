import sys, warnings
warnings.simplefilter("ignore")
from sqlalchemy.orm import Session, configure_mappers
from krrood.entity_query_language.symbol_graph import SymbolGraph
from krrood.entity_query_language.entity import let, entity, and_
from krrood.entity_query_language.quantify_entity import an
from krrood.ormatic.dao import to_dao
from krrood.ormatic.utils import create_engine
from krrood.ormatic.eql_interface import eql_to_sql, EQLTranslationError
from test.dataset.semantic_world_like_classes import World, Body, Handle, Container
from test.dataset.ormatic_interface import Base

SymbolGraph()
configure_mappers()
engine = create_engine("sqlite:///:memory:")
session = Session(engine)
Base.metadata.create_all(engine)
bodies = [Container("C1", size=1), Container("", size=5), Handle("7", size=0), Handle("H2", size=5)]
world = World(1, bodies)
session.add(to_dao(world))
session.commit()


def queries():
    b = let(Body, domain=bodies, name="b")
    yield "b.name", an(entity(b, b.name))
    b = let(Body, domain=bodies, name="b")
    yield "b.size", an(entity(b, b.size))
    b = let(Body, domain=bodies, name="b")
    yield "b.size > 0 and b.name", an(entity(b, b.size > 0, b.name))


bad = []
for d, q in queries():
    mem = sorted(r.name for r in q.evaluate())
    try:
        t = eql_to_sql(q, session)
    except EQLTranslationError as e:
        print(f"ok   {d}: rejected ({type(e).__name__}); memory {mem}")
        continue
    db = sorted(r.name for r in t.evaluate())
    print(("ok  " if db == mem else "FAIL"), d, "memory", mem, "database", db, "| WHERE", t.sql_query.whereclause)
    if db != mem:
        bad.append(d)
sys.exit(1 if bad else 0)
