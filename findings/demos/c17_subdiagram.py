"""Demo (triage aid): deriving the sub-diagram without inherited associations mutates the original."""
from dataclasses import dataclass
from krrood.class_diagrams.class_diagram import ClassDiagram

@dataclass
class T: pass
@dataclass
class A:
    t: T
@dataclass
class B(A): pass

d = ClassDiagram([T, A, B])
before = len(d.associations)
sub = d.to_subdiagram_without_inherited_associations()
after = len(d.associations)
print("original associations before/after:", before, after, "| sub-diagram:", len(sub.associations), "| same graph object:", sub._dependency_graph is d._dependency_graph)
raise SystemExit(0 if before == after == 2 and len(sub.associations) == 1 else 1)
