import sys, warnings
warnings.simplefilter("ignore")
from sqlalchemy.orm import Session, configure_mappers
from krrood.entity_query_language.symbol_graph import SymbolGraph
from krrood.entity_query_language.entity import let, entity, or_, in_
from krrood.entity_query_language.quantify_entity import an
from krrood.ormatic.dao import to_dao
from krrood.ormatic.utils import create_engine
from krrood.ormatic.eql_interface import eql_to_sql, EQLTranslationError
from test.dataset.semantic_world_like_classes import World, Body, Handle, Container
from test.dataset.ormatic_interface import Base

SymbolGraph()
configure_mappers()
engine = create_engine("sqlite:///:memory:")
session = Session(engine)
Base.metadata.create_all(engine)
c1 = Container("C1")  # belongs to no world
c2, h1 = Container("C2"), Handle("H1")
w = World(1, [c2, h1])
for b in w.bodies:
    b.world = w
session.add(to_dao(w)); session.add(to_dao(c1))
session.commit()
bodies = [c1, c2, h1]
bad = []
b = let(Body, domain=bodies, name="b")
q = an(entity(b, or_(b.name == "C1", b.world.id == 1)))
mem = sorted(x.name for x in q.evaluate())
try:
    t = eql_to_sql(q, session)
    db = sorted(r.name for r in t.evaluate())
    print("memory", mem, "database", db)
    if db != mem:
        bad.append("or_(b.name == 'C1', b.world.id == 1)")
except EQLTranslationError as e:
    print("rejected", type(e).__name__)
sys.exit(1 if bad else 0)
