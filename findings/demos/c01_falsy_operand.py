"""Demo (triage aid): a bound plain variable holding a falsy value, used again as a comparator operand."""
from krrood.entity_query_language.entity import entity, let, and_
from krrood.entity_query_language.quantify_entity import an
x = let(int, [0, 1, 2], "x")
got = list(an(entity(x, and_(x >= 0, x < 3))).evaluate())
print("and_(x >= 0, x < 3) over [0, 1, 2]:", got, "(expected [0, 1, 2])")
raise SystemExit(0 if got == [0, 1, 2] else 1)
