import sys, warnings
warnings.simplefilter("ignore")
from sqlalchemy.orm import Session, configure_mappers
from krrood.entity_query_language.symbol_graph import SymbolGraph
from krrood.entity_query_language.entity import let, entity, in_, contains, not_
from krrood.entity_query_language.quantify_entity import an
from krrood.ormatic.dao import to_dao
from krrood.ormatic.utils import create_engine
from krrood.ormatic.eql_interface import eql_to_sql, EQLTranslationError
from test.dataset.example_classes import Orientation
from test.dataset.ormatic_interface import Base

SymbolGraph()
configure_mappers()
engine = create_engine("sqlite:///:memory:")
session = Session(engine)
Base.metadata.create_all(engine)
os_ = [Orientation(1.0, 0.0, 0.0, None), Orientation(2.0, 0.0, 0.0, 5.0), Orientation(3.0, 0.0, 0.0, 7.0)]
for o in os_:
    session.add(to_dao(o))
session.commit()


def queries():
    o = let(Orientation, domain=os_, name="o")
    yield "in_(o.w, [5.0, None])", an(entity(o, in_(o.w, [5.0, None])))
    o = let(Orientation, domain=os_, name="o")
    yield "in_(o.w, [5.0, 7.0])", an(entity(o, in_(o.w, [5.0, 7.0])))
    o = let(Orientation, domain=os_, name="o")
    yield "contains([None], o.w)", an(entity(o, contains([None, 9.0], o.w)))


bad = []
for d, q in queries():
    mem = sorted(r.x for r in q.evaluate())
    try:
        t = eql_to_sql(q, session)
    except EQLTranslationError as e:
        print(f"ok   {d}: rejected ({type(e).__name__}); memory {mem}")
        continue
    db = sorted(r.x for r in t.evaluate())
    print(("ok  " if db == mem else "FAIL"), d, "memory", mem, "database", db)
    if db != mem:
        bad.append(d)
sys.exit(1 if bad else 0)
