import warnings; warnings.filterwarnings('ignore')
from dataclasses import dataclass
from krrood.entity_query_language.entity import entity, let, Symbol, or_, and_, not_, exists, for_all, set_of
from krrood.entity_query_language.quantify_entity import an
from krrood.entity_query_language.symbolic import ElseIf
@dataclass(eq=False)
class P(Symbol):
    a: int
    b: int = 0
xs=[P(5),P(1),P(0,1)]; ys=[P(2),P(3)]
x=let(P,xs,"x"); y=let(P,ys,"y")
cond=or_(for_all(y, x.a > y.a), and_(x.b == 1, y.a > 0))
print(type(cond).__name__)
got=sorted({xs.index(r) for r in an(entity(x, cond)).evaluate()})
print("got",got,"want",[0,2])
import sys; sys.exit(0 if got==[0,2] else 1)
