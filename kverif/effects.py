"""M5 - effect analysis: add / delete sites on container fields of a class."""
from __future__ import annotations

import ast
from typing import Dict, List, Optional, Set, Tuple

from .model import Program, FuncInfo, ClassInfo, walk_local
from .astutil import src
from .callgraph import resolve_call, Ctx

MUT_ADD = {"add", "append", "add_node", "add_edge", "setdefault", "update", "extend", "insert", "__setitem__", "add_nodes_from", "add_edges_from", "add_edges_from_no_data", "add_child", "add_parent"}
MUT_DEL = {"pop", "remove", "discard", "remove_node", "remove_edge", "clear", "popitem", "difference_update", "__delitem__", "remove_edge_from_index", "remove_edges_from", "remove_nodes_from", "clear_edges"}


def _field_of(e: ast.expr, selfname: str) -> Optional[str]:
    """self.F, self.F[k], self.F.get(k, ...), self.F[k].x ... -> F"""
    while True:
        if isinstance(e, ast.Attribute) and isinstance(e.value, ast.Name) and e.value.id == selfname:
            return e.attr
        if isinstance(e, ast.Subscript):
            e = e.value
        elif isinstance(e, ast.Call) and isinstance(e.func, ast.Attribute) and e.func.attr in ("get", "setdefault", "values", "items"):
            e = e.func.value
        elif isinstance(e, ast.Attribute):
            e = e.value
        else:
            return None


def effects(prog: Program, cls: ClassInfo, funcs: Set[FuncInfo]):
    """(field, kind 'add'|'del', function, node, key-text) for container fields of `cls`"""
    out = []
    for f in funcs:
        if not f.params:
            continue
        selfname = f.params[0]
        aliases: Dict[str, str] = {}  # local name -> field it was read from
        for n in walk_local(f.node):
            if isinstance(n, ast.Assign) and len(n.targets) == 1 and isinstance(n.targets[0], ast.Name):
                fl = _field_of(n.value, selfname)
                if fl:
                    aliases[n.targets[0].id] = fl
            if isinstance(n, ast.For) and isinstance(n.target, ast.Name):
                fl = _field_of(n.iter, selfname)
                if fl:
                    aliases[n.target.id] = fl

        def fld(e):
            r = _field_of(e, selfname)
            if r:
                return r
            b = e
            while isinstance(b, (ast.Attribute, ast.Subscript)):
                b = b.value
            if isinstance(b, ast.Call) and isinstance(b.func, ast.Attribute):
                b = b.func.value
                while isinstance(b, (ast.Attribute, ast.Subscript)):
                    b = b.value
            if isinstance(b, ast.Name) and b.id in aliases:
                return aliases[b.id]
            return None

        for n in walk_local(f.node):
            if isinstance(n, ast.Call) and isinstance(n.func, ast.Attribute):
                m = n.func.attr
                fl = fld(n.func.value)
                if fl and m in MUT_ADD:
                    out.append((fl, "add", f, n, ", ".join(src(a) for a in n.args)))
                elif fl and m in MUT_DEL:
                    out.append((fl, "del", f, n, ", ".join(src(a) for a in n.args)))
            elif isinstance(n, ast.Assign):
                for t in n.targets:
                    if isinstance(t, ast.Subscript):
                        fl = fld(t.value)
                        if fl:
                            out.append((fl, "add", f, n, src(t.slice)))
            elif isinstance(n, ast.AugAssign) and isinstance(n.target, (ast.Name, ast.Subscript, ast.Attribute)):
                fl = fld(n.target)
                if fl and isinstance(n.op, ast.Sub):
                    out.append((fl, "del", f, n, src(n.value)))
                elif fl and isinstance(n.op, (ast.BitOr, ast.Add)):
                    out.append((fl, "add", f, n, src(n.value)))
            elif isinstance(n, ast.Delete):
                for t in n.targets:
                    if isinstance(t, ast.Subscript):
                        fl = fld(t.value)
                        if fl:
                            out.append((fl, "del", f, n, src(t.slice)))
    return out




def write_summary(prog: Program, cls: ClassInfo) -> Dict[str, Set[str]]:
    """method name -> self fields it mutates, transitively through self-calls (MRO-resolved)"""
    direct: Dict[str, Set[str]] = {}
    calls: Dict[str, Set[str]] = {}
    methods = {}
    for q in prog.mro(cls.qual):
        ci = prog.classes.get(q)
        if ci is None:
            continue
        for n, f in ci.methods.items():
            methods.setdefault(n, f)
    for n, f in methods.items():
        ws = set()
        for fl, kind, _, node, _ in effects(prog, cls, {f}):
            ws.add(fl)
        if f.params:
            selfname = f.params[0]
            for x in walk_local(f.node):
                if isinstance(x, (ast.Assign, ast.AugAssign, ast.AnnAssign)):
                    ts = x.targets if isinstance(x, ast.Assign) else [x.target]
                    for t in ts:
                        if isinstance(t, ast.Attribute) and isinstance(t.value, ast.Name) and t.value.id == selfname:
                            ws.add(t.attr)
        direct[n] = ws
        cs = set()
        if f.params:
            for c in [x for x in walk_local(f.node) if isinstance(x, ast.Call)]:
                if isinstance(c.func, ast.Attribute) and isinstance(c.func.value, ast.Name) and c.func.value.id == f.params[0] and c.func.attr in methods:
                    cs.add(c.func.attr)
        calls[n] = cs
    changed = True
    while changed:
        changed = False
        for n in direct:
            for m in calls[n]:
                new = direct[m] - direct[n]
                if new:
                    direct[n] |= new
                    changed = True
    return direct
