"""M4 - provenance analysis of the evaluation protocol.

For one concrete expression class the `_evaluate__` method found through the MRO is interpreted
abstractly (self-calls and super-calls are inlined in the receiver's class context).  Values carry
    may / must : sets of origin tags   'P' (incoming bindings)   'E<k>' (k-th evaluation site)
    flag       : where a truth flag comes from ('elem', sites, 'is_false'|'is_true') | ('const', b)
The result is a summary:
    sites      every child evaluation `X._evaluate__(arg0, parent=...)` with the provenance of
               arg0, the guards it is control-dependent on and whether it sits in a
               comprehension / loop over a *collection of sub-expressions*
    emissions  every result the node hands to its consumer, with the provenance of its bindings,
               of its truth flag and the guards
No repo code is executed.
"""
from __future__ import annotations

import ast
from dataclasses import dataclass, field, replace
from typing import Any, Dict, FrozenSet, List, Optional, Set, Tuple

from .model import Program, AnalysisError, FuncInfo, walk_local, dotted
from .astutil import src, is_super_call, call_name

EMPTY = frozenset()


@dataclass(frozen=True)
class AV:
    may: FrozenSet[str] = EMPTY
    must: FrozenSet[str] = EMPTY
    flag: Optional[Tuple] = None  # provenance of a truth value
    stream: bool = False  # iterable of results
    rflag: Optional["AV"] = None  # for result objects: the AV of their is_false flag
    filtered: Optional[str] = None  # stream filtered on 'true' / 'false'
    elem_sites: FrozenSet[str] = EMPTY  # evaluation sites this element was drawn from
    product: bool = False  # built by a cross-product combinator
    holds_streams: bool = False  # container of streams


def join(a: Optional[AV], b: Optional[AV]) -> Optional[AV]:
    if a is None:
        return b
    if b is None:
        return a
    return AV(
        a.may | b.may,
        a.must & b.must,
        a.flag if a.flag == b.flag else (("join", a.flag, b.flag) if (a.flag or b.flag) else None),
        a.stream or b.stream,
        join(a.rflag, b.rflag) if (a.rflag or b.rflag) else None,
        a.filtered if a.filtered == b.filtered else None,
        a.elem_sites | b.elem_sites,
        a.product or b.product,
        a.holds_streams or b.holds_streams,
    )


def union(*vs: Optional[AV]) -> AV:
    """value built from all of the given values (dict display, merge): must = union"""
    may, must, es = set(), set(), set()
    for v in vs:
        if v is None:
            continue
        may |= v.may
        must |= v.must
        es |= v.elem_sites
    return AV(frozenset(may), frozenset(must), elem_sites=frozenset(es))


@dataclass
class Site:
    id: str
    recv: str  # receiver expression as written
    recv_roles: FrozenSet[str]  # operand fields the receiver may denote (self.left, ...)
    func: str  # function in which the call occurs
    node: ast.Call
    arg0: AV
    parent_kw: Optional[str]
    guards: Tuple
    over_collection: Optional[str]  # collection of sub-expressions the site is repeated over
    loops: Tuple[str, ...]  # streams (site ids) whose elements enclose this site
    lineno: int = 0
    module: str = ""


@dataclass
class Emission:
    func: str
    node: ast.AST
    bindings: AV
    flag: Optional[AV]
    guards: Tuple
    loops: Tuple[str, ...]
    passthrough: bool  # yields a child's result object unchanged
    lineno: int = 0
    module: str = ""


class Summary:
    def __init__(self, cls: str):
        self.cls = cls
        self.sites: List[Site] = []
        self.emissions: List[Emission] = []
        self.field_writes: List[Tuple[str, str, ast.AST, AV]] = []  # (field, function, node, value)
        self.unknown: List[str] = []


class ProtoInterp:
    MAXDEPTH = 5

    def __init__(self, prog: Program, cls_qual: str, entry: str = "_evaluate__"):
        self.prog = prog
        self.cls = cls_qual
        self.sum = Summary(cls_qual)
        self.nsite = 0
        self.depth = 0
        self.guards: List[Tuple] = []
        self.loops: List[str] = []
        self.collection: List[str] = []
        self.capture: List[List[Emission]] = []  # stack: emissions of inlined generator callees
        self.entry = entry
        self.fn_stack: List[FuncInfo] = []
        self.site_by_node: Dict[Tuple[int, Tuple], str] = {}

    # ---- entry ---------------------------------------------------------------------------
    def run(self) -> Summary:
        f = self.prog.lookup(self.cls, self.entry)
        if f is None:
            raise AnalysisError(f"evalproto: {self.cls} has no {self.entry}")
        params = f.params
        env: Dict[str, AV] = {}
        if len(params) > 1:
            env[params[1]] = AV(frozenset({"P"}), frozenset({"P"}))
        for p in params[2:]:
            env[p] = AV()
        ems = self.run_function(f, env)
        self.sum.emissions = ems
        return self.sum

    def run_function(self, f: FuncInfo, env: Dict[str, AV]) -> List[Emission]:
        """interpret a (generator) function; returns its emissions (yields / returns)"""
        self.capture.append([])
        self.fn_stack.append(f)
        self.depth += 1
        try:
            self.block(f.node.body, env)
        finally:
            self.depth -= 1
            self.fn_stack.pop()
        return self.capture.pop()

    @property
    def fn(self) -> FuncInfo:
        return self.fn_stack[-1]

    # ---- helpers -------------------------------------------------------------------------
    def emit(self, node: ast.AST, value: Optional[AV], expr: Optional[ast.expr]):
        if value is None:
            value = AV()
        passthrough = value.rflag is None and bool(value.elem_sites) and not (isinstance(expr, ast.Call))
        flag = value.rflag
        if passthrough:
            flag = AV(value.may, value.must, flag=("elem", value.elem_sites, "is_false"))
        e = Emission(self.fn.short, node, AV(value.may, value.must, elem_sites=value.elem_sites, product=value.product, filtered=value.filtered), flag, tuple(self.guards), tuple(self.loops), passthrough,
                     getattr(node, "lineno", 0), self.fn.module.relpath)
        self.capture[-1].append(e)

    def elem_of(self, it: Optional[AV]) -> AV:
        if it is None:
            return AV()
        sites = frozenset(t for t in it.may if t.startswith("E")) if it.stream else it.elem_sites
        rflag = it.rflag
        return AV(it.may, it.must, elem_sites=sites if it.stream else it.elem_sites, rflag=rflag, product=it.product,
                  flag=None, filtered=it.filtered)

    def operand_roles(self, e: ast.expr, env) -> FrozenSet[str]:
        if isinstance(e, ast.Attribute) and isinstance(e.value, ast.Name) and e.value.id == "self":
            f = self.prog.lookup(self.cls, e.attr)
            if f is not None and f.is_property:
                rets = [n.value for n in walk_local(f.node) if isinstance(n, ast.Return) and n.value is not None]
                out = set()
                for r in rets:
                    out |= self.operand_roles(r, {})
                return frozenset(out) or frozenset({src(e)})
            return frozenset({src(e)})
        if isinstance(e, ast.Name) and e.id in env and env[e.id].flag and env[e.id].flag[0] == "roles":
            return env[e.id].flag[1]
        if isinstance(e, ast.Attribute):
            return frozenset({src(e)})
        return frozenset({src(e)})

    # ---- expressions ---------------------------------------------------------------------
    def ev(self, e: Optional[ast.expr], env: Dict[str, AV]) -> AV:
        if e is None:
            return AV()
        if isinstance(e, ast.Constant):
            if isinstance(e.value, bool):
                return AV(flag=("const", e.value))
            return AV()
        if isinstance(e, ast.Name):
            return env.get(e.id, AV())
        if isinstance(e, ast.Attribute):
            key = src(e)
            if key in env:
                return env[key]
            if isinstance(e.value, ast.Name) and e.value.id == "self":
                f = self.prog.lookup(self.cls, e.attr)
                if f is not None and f.is_property and not f.is_cached_property and self.depth < self.MAXDEPTH and not f.is_abstract:
                    # plain properties are inlined (e.g. QuantifiedConditional.variable -> self.left)
                    rets = [n.value for n in walk_local(f.node) if isinstance(n, ast.Return) and n.value is not None]
                    if len(rets) == 1 and isinstance(rets[0], ast.Attribute):
                        return replace(self.ev(rets[0], env), flag=("roles", self.operand_roles(e, env)))
                return AV(flag=("roles", frozenset({key})))
            base = self.ev(e.value, env)
            if e.attr in ("is_false", "is_true"):
                if base.rflag is not None and base.rflag.flag is not None and not base.elem_sites:
                    fl = base.rflag.flag
                    if e.attr == "is_true":
                        fl = ("not", fl)
                    return AV(base.may, base.must, flag=fl)
                return AV(base.may, base.must, flag=("elem", base.elem_sites, e.attr))
            if e.attr in ("bindings", "value", "values", "items", "keys"):
                return AV(base.may, base.must, elem_sites=base.elem_sites)
            return AV(base.may, base.must if e.attr.startswith("_") is False else EMPTY, elem_sites=base.elem_sites)
        if isinstance(e, ast.Subscript):
            b, k = self.ev(e.value, env), self.ev(e.slice, env)
            # one value drawn out of a bindings mapping is not that mapping: value-level provenance 'v:<origin>'
            vm = frozenset(t if t.startswith("v:") else "v:" + t for t in b.may)
            return AV(vm | k.may, EMPTY, elem_sites=b.elem_sites)
        if isinstance(e, ast.Dict):
            vals = []
            for k, v in zip(e.keys, e.values):
                vals.append(self.ev(v, env))
                if k is not None:
                    self.ev(k, env)
            return union(*vals)
        if isinstance(e, (ast.List, ast.Tuple, ast.Set)):
            vs = [self.ev(x, env) for x in e.elts]
            u = union(*vs)
            if any(v.rflag is not None for v in vs):
                # a display of result objects (yield from [OperationResult(...)])
                rf = None
                for v in vs:
                    rf = join(rf, v.rflag)
                return AV(u.may, u.must, stream=True, rflag=rf, elem_sites=u.elem_sites)
            return replace(u, holds_streams=any(v.stream for v in vs))
        if isinstance(e, ast.Starred):
            return self.ev(e.value, env)
        if isinstance(e, ast.BoolOp):
            vs = [self.ev(x, env) for x in e.values]
            if isinstance(e.op, ast.Or) and len(vs) == 2 and isinstance(e.values[1], (ast.Dict, ast.Call)) and not vs[1].may:
                return vs[0]  # `sources = sources or {}`
            out = None
            for v in vs:
                out = join(out, v)
            fl = ("bool", "and" if isinstance(e.op, ast.And) else "or", tuple(v.flag for v in vs))
            return replace(out, flag=fl) if out is not None else AV()
        if isinstance(e, ast.UnaryOp):
            v = self.ev(e.operand, env)
            if isinstance(e.op, ast.Not):
                return replace(v, flag=("not", v.flag))
            return v
        if isinstance(e, ast.Compare):
            vs = [self.ev(e.left, env)] + [self.ev(c, env) for c in e.comparators]
            u = union(*vs)
            return AV(u.may, EMPTY, flag=("cmp", src(e)))
        if isinstance(e, ast.IfExp):
            self.ev(e.test, env)
            return join(self.ev(e.body, env), self.ev(e.orelse, env)) or AV()
        if isinstance(e, ast.Lambda):
            return AV(flag=("lambda", e))
        if isinstance(e, (ast.GeneratorExp, ast.ListComp, ast.SetComp, ast.DictComp)):
            return self.comprehension(e, env)
        if isinstance(e, ast.Call):
            return self.call(e, env)
        if isinstance(e, ast.BinOp):
            return union(self.ev(e.left, env), self.ev(e.right, env))
        if isinstance(e, ast.JoinedStr):
            return AV()
        if isinstance(e, ast.Slice):
            return AV()
        if isinstance(e, (ast.Yield, ast.YieldFrom)):
            return AV()
        self.sum.unknown.append(f"{type(e).__name__}@{self.fn.short}")
        return AV()

    def comprehension(self, e, env) -> AV:
        env2 = dict(env)
        pushed_loops = 0
        pushed_coll = 0
        npushed_guards = 0
        lazy = isinstance(e, ast.GeneratorExp)
        for g in e.generators:
            it = self.ev(g.iter, env2)
            if it.stream:
                el = self.elem_of(it)
                for s in sorted(el.elem_sites):
                    self.loops.append(s)
                    pushed_loops += 1
            else:
                el = AV(it.may, it.must, elem_sites=it.elem_sites)
                self.collection.append(src(g.iter))
                pushed_coll += 1
            self.bind(g.target, el, env2)
            for c in g.ifs:
                t = self.ev(c, env2)
                self.guards.append((t.flag, True, src(c)))
                npushed_guards += 1
        if isinstance(e, ast.DictComp):
            k, v = self.ev(e.key, env2), self.ev(e.value, env2)
            res = AV(v.may | k.may, v.must, holds_streams=v.stream, elem_sites=v.elem_sites)
        else:
            v = self.ev(e.elt, env2)
            res = AV(v.may, v.must, stream=True, rflag=v.rflag, elem_sites=v.elem_sites, holds_streams=v.stream and not lazy)
            if v.rflag is not None:
                # a generator of result objects: remember its element as an emission candidate
                res = replace(res, flag=("genexp-results",))
                self._pending_gen = getattr(self, "_pending_gen", {})
                self._pending_gen[id(e)] = (e, v, tuple(self.guards), tuple(self.loops))
        for _ in range(npushed_guards):
            self.guards.pop()
        for _ in range(pushed_loops):
            self.loops.pop()
        for _ in range(pushed_coll):
            self.collection.pop()
        return res

    def bind(self, target, v: AV, env):
        if isinstance(target, ast.Name):
            env[target.id] = v
        elif isinstance(target, (ast.Tuple, ast.List)):
            for t in target.elts:
                self.bind(t, v, env)
        elif isinstance(target, ast.Attribute):
            env[src(target)] = v
            if isinstance(target.value, ast.Name) and target.value.id == "self":
                self.sum.field_writes.append((target.attr, self.fn.short, target, v))
        elif isinstance(target, ast.Subscript):
            base = src(target.value)
            old = env.get(base, self.ev(target.value, env))
            env[base] = AV(old.may | v.may, old.must | v.must, elem_sites=old.elem_sites, rflag=old.rflag, stream=old.stream)
            # writing into an element's bindings also updates the element (value[self._id_] = ...)

    # ---- calls ---------------------------------------------------------------------------
    def call(self, c: ast.Call, env) -> AV:
        f = c.func
        name = call_name(c)
        # child evaluation
        if isinstance(f, ast.Attribute) and f.attr == "_evaluate__":
            if is_super_call(c):
                return self.inline_super(c, env)
            return self.eval_site(c, env)
        if is_super_call(c):
            return self.inline_super(c, env)
        if isinstance(f, ast.Attribute) and isinstance(f.value, ast.Name) and f.value.id == "self":
            target = self.prog.lookup(self.cls, f.attr)
            if target is not None and self.depth < self.MAXDEPTH:
                return self.inline(target, c, env)
        args = [self.ev(a, env) for a in c.args]
        kws = {k.arg: self.ev(k.value, env) for k in c.keywords}
        if isinstance(f, ast.Name):
            if f.id == "OperationResult" and args:
                flag = args[1] if len(args) > 1 else kws.get("is_false", AV())
                return AV(args[0].may, args[0].must, rflag=flag, elem_sites=args[0].elem_sites)
            if f.id == "filter" and len(args) == 2:
                lam = args[0].flag[1] if args[0].flag and args[0].flag[0] == "lambda" else None
                filt = None
                if lam is not None:
                    t = src(lam.body)
                    if t.endswith(".is_true"):
                        filt = "true"
                    elif t.endswith(".is_false"):
                        filt = "false"
                return replace(args[1], filtered=filt or args[1].filtered)
            if f.id in ("map",) and len(args) >= 2:
                return replace(args[1], rflag=None)
            if f.id in ("iter", "copy", "dict", "reversed", "enumerate"):
                return args[0] if args else AV()
            if f.id == "next" and args:
                return self.elem_of(args[0]) if args[0].stream else args[0]
            if f.id in ("list", "tuple", "set", "sorted"):
                return replace(args[0], stream=args[0].stream) if args else AV()
            if f.id in ("isinstance", "bool", "len", "any", "all", "hasattr"):
                u = union(*args)
                return AV(u.may, EMPTY, flag=("opaque", src(c)))
            q = self.fn.module.resolve(f)
            g = self.prog.functions.get(q)
            if g is not None and g.cls is None:
                u = union(*args, *kws.values())
                prod = any("product" in src(x) for x in ast.walk(g.node) if isinstance(x, ast.Call))
                return AV(u.may, u.must if not prod else EMPTY, stream=g.is_generator, product=prod, elem_sites=u.elem_sites)
            u = union(*args, *kws.values())
            return AV(u.may, EMPTY, elem_sites=u.elem_sites)
        # method on a value
        recv = self.ev(f.value, env) if isinstance(f, ast.Attribute) else AV()
        u = union(recv, *args, *kws.values())
        if name in ("update", "add", "append", "extend", "setdefault", "__setitem__") and isinstance(f, ast.Attribute):
            base = src(f.value)
            old = env.get(base, recv)
            env[base] = AV(old.may | u.may, old.must | frozenset().union(*(a.must for a in args)) if args else old.must, elem_sites=old.elem_sites, stream=old.stream, rflag=old.rflag)
            if isinstance(f.value, ast.Attribute) and isinstance(f.value.value, ast.Name) and f.value.value.id == "self":
                self.sum.field_writes.append((f.value.attr + "." + name + "()", self.fn.short, c, u))
            return AV()
        if name in ("get", "items", "values", "keys", "copy", "filter", "difference", "union"):
            return AV(recv.may, recv.must, elem_sites=recv.elem_sites)
        return AV(u.may, EMPTY, elem_sites=recv.elem_sites)

    def eval_site(self, c: ast.Call, env) -> AV:
        f = c.func
        a0 = self.ev(c.args[0], env) if c.args else AV()
        pk = None
        for k in c.keywords:
            if k.arg == "parent":
                pk = src(k.value)
            self.ev(k.value, env)
        if pk is None and len(c.args) > 1:
            pk = src(c.args[1])
        key = (id(c), tuple(self.loops), tuple((g[2], g[1]) for g in self.guards))
        if key in self.site_by_node:
            sid = self.site_by_node[key]
        else:
            self.nsite += 1
            sid = f"E{self.nsite}"
            self.site_by_node[key] = sid
            self.sum.sites.append(
                Site(sid, src(f.value), self.operand_roles(f.value, env), self.fn.short, c, a0, pk, tuple(self.guards),
                     self.collection[-1] if self.collection else None, tuple(self.loops), c.lineno, self.fn.module.relpath)
            )
        return AV(a0.may | {sid}, a0.must | {sid}, stream=True)

    def _bind_params(self, target: FuncInfo, c: ast.Call, env, skip_self=True) -> Dict[str, AV]:
        params = target.params[1:] if (target.cls is not None and skip_self and not target.is_staticmethod) else target.params
        env2: Dict[str, AV] = {}
        pos = [a for a in c.args if not isinstance(a, ast.Starred)]
        for p, a in zip(params, pos):
            env2[p] = self.ev(a, env)
        for k in c.keywords:
            if k.arg:
                env2[k.arg] = self.ev(k.value, env)
        for p in params:
            env2.setdefault(p, AV())
        # fields written earlier in this activation stay visible
        for k, v in env.items():
            if k.startswith("self."):
                env2[k] = v
        return env2

    def inline(self, target: FuncInfo, c: ast.Call, env) -> AV:
        env2 = self._bind_params(target, c, env)
        ems = self.run_function(target, env2)
        for k, v in env2.items():
            if k.startswith("self."):
                env[k] = v
        return self._result_of(target, ems)

    def inline_super(self, c: ast.Call, env) -> AV:
        cur = self.fn
        if cur.cls is None:
            return AV()
        target = self.prog.lookup_super(self.cls, cur.cls.qual, c.func.attr)
        if target is None or self.depth >= self.MAXDEPTH:
            return AV()
        env2 = self._bind_params(target, c, env)
        ems = self.run_function(target, env2)
        for k, v in env2.items():
            if k.startswith("self."):
                env[k] = v
        return self._result_of(target, ems)

    def _result_of(self, target: FuncInfo, ems: List[Emission]) -> AV:
        """AV of the value a call of `target` evaluates to; for generators a stream whose pending
        emissions are kept for promotion by `yield from`"""
        out = None
        for e in ems:
            out = join(out, AV(e.bindings.may, e.bindings.must, rflag=e.flag, elem_sites=e.bindings.elem_sites, product=e.bindings.product))
        if out is None:
            out = AV()
        if target.is_generator:
            out = replace(out, stream=True)
            self._pending = getattr(self, "_pending", {})
            key = f"G{len(self._pending) + 1}"
            self._pending[key] = ems
            out = replace(out, flag=("gen", key))
        return out

    # ---- statements ----------------------------------------------------------------------
    def block(self, stmts, env):
        n = len(self.guards)
        for s in stmts:
            self.stmt(s, env)
        del self.guards[n:]  # guards made sticky by `if ...: return` end with the block

    def stmt(self, s, env):
        if isinstance(s, ast.Expr):
            v = s.value
            if isinstance(v, ast.Yield):
                val = self.ev(v.value, env)
                self.emit(s, val, v.value)
            elif isinstance(v, ast.YieldFrom):
                self.yield_from(s, v.value, env)
            else:
                self.ev(v, env)
        elif isinstance(s, ast.Assign):
            val = self.ev(s.value, env)
            for t in s.targets:
                self.bind(t, val, env)
        elif isinstance(s, ast.AnnAssign):
            if s.value is not None:
                self.bind(s.target, self.ev(s.value, env), env)
        elif isinstance(s, ast.AugAssign):
            old = self.ev(s.target, env)
            self.bind(s.target, union(old, self.ev(s.value, env)), env)
        elif isinstance(s, ast.Return):
            if s.value is not None:
                val = self.ev(s.value, env)
                if not self.fn.is_generator:
                    self.emit(s, val, s.value)
        elif isinstance(s, ast.If):
            t = self.ev(s.test, env)
            e1, e2 = dict(env), dict(env)
            self.guards.append((t.flag, True, src(s.test)))
            self.block(s.body, e1)
            self.guards.pop()
            self.guards.append((t.flag, False, src(s.test)))
            self.block(s.orelse, e2)
            self.guards.pop()
            ends1 = self._terminates(s.body)
            ends2 = self._terminates(s.orelse)
            if ends1 and not ends2:
                merged = e2
                # code after an `if ...: return` runs under the negated guard (until the block ends)
                self.guards.append((t.flag, False, src(s.test)))
            elif ends2 and not ends1:
                merged = e1
            else:
                merged = {}
                for k in set(e1) | set(e2):
                    merged[k] = join(e1.get(k), e2.get(k))
            env.clear()
            env.update({k: v for k, v in merged.items() if v is not None})
        elif isinstance(s, (ast.For, ast.AsyncFor)):
            it = self.ev(s.iter, env)
            pushed = 0
            pushed_coll = 0
            if it.stream:
                el = self.elem_of(it)
                if it.flag and it.flag[0] == "gen":
                    pass
                for sid in sorted(el.elem_sites):
                    self.loops.append(sid)
                    pushed += 1
            else:
                el = AV(it.may, it.must, elem_sites=it.elem_sites)
                self.collection.append(src(s.iter))
                pushed_coll = 1
            for _ in range(2):  # two passes reach the fixpoint of this may/must domain
                self.bind(s.target, el, env)
                before = dict(env)
                mark = len(self.capture[-1])
                self.block(s.body, env)
                if _ == 0:
                    del self.capture[-1][mark:]  # emissions are recorded on the second pass only
                for k in set(before) | set(env):
                    env[k] = join(before.get(k), env.get(k)) or AV()
            for _ in range(pushed):
                self.loops.pop()
            if pushed_coll:
                self.collection.pop()
            self.block(s.orelse, env)
        elif isinstance(s, ast.While):
            self.ev(s.test, env)
            for _ in range(2):
                mark = len(self.capture[-1])
                self.block(s.body, env)
                if _ == 0:
                    del self.capture[-1][mark:]
        elif isinstance(s, ast.Try):
            self.block(s.body, env)
            for h in s.handlers:
                self.block(h.body, dict(env))
            self.block(s.orelse, env)
            self.block(s.finalbody, env)
        elif isinstance(s, (ast.With, ast.AsyncWith)):
            for i in s.items:
                self.ev(i.context_expr, env)
            self.block(s.body, env)
        elif isinstance(s, (ast.Raise, ast.Pass, ast.Break, ast.Continue, ast.FunctionDef, ast.ClassDef, ast.Global, ast.Nonlocal, ast.Delete, ast.Assert, ast.Import, ast.ImportFrom)):
            return
        else:
            self.sum.unknown.append(f"{type(s).__name__}@{self.fn.short}")

    def _terminates(self, stmts) -> bool:
        return bool(stmts) and isinstance(stmts[-1], (ast.Return, ast.Raise, ast.Continue, ast.Break))

    def yield_from(self, s, e: ast.expr, env):
        v = self.ev(e, env)
        # (a) generator callee inlined: promote its emissions
        if v.flag and v.flag[0] == "gen":
            for em in self._pending.get(v.flag[1], []):
                self.capture[-1].append(replace(em, guards=tuple(self.guards) + em.guards[len(self.guards):] if False else em.guards))
            return
        # (b) generator expression of result objects
        if isinstance(e, ast.GeneratorExp) and id(e) in getattr(self, "_pending_gen", {}):
            ge, val, guards, loops = self._pending_gen[id(e)]
            saved_g, saved_l = self.guards, self.loops
            self.guards, self.loops = list(guards), list(loops)
            self.emit(s, val, ge.elt)
            self.guards, self.loops = saved_g, saved_l
            return
        # (c) list display of results / any stream of results
        if isinstance(e, (ast.List, ast.Tuple)):
            for x in e.elts:
                self.emit(s, self.ev(x, env), x)
            return
        if isinstance(e, ast.ListComp):
            env2 = dict(env)
            for g in e.generators:
                it = self.ev(g.iter, env2)
                self.bind(g.target, self.elem_of(it) if it.stream else AV(it.may, it.must, elem_sites=it.elem_sites), env2)
            self.emit(s, self.ev(e.elt, env2), e.elt)
            return
        el = self.elem_of(v) if v.stream else v
        for sid in sorted(el.elem_sites):
            self.loops.append(sid)
        self.emit(s, el, e)
        for sid in sorted(el.elem_sites):
            self.loops.pop()


def summarize(prog: Program, cls_qual: str, entry: str = "_evaluate__") -> Summary:
    it = ProtoInterp(prog, cls_qual, entry)
    return it.run()
