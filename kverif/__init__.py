"""kverif - repository-specific static analysis deciding the krrood properties.

Pure stdlib (ast). Never imports or executes krrood.
"""

REPO_SRC = "/repo/src"
PKG = "krrood"
