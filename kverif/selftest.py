"""Test the checker both ways, entirely in memory (overlay; nothing is written to /repo).

Each case edits one source file of the *current* tree textually and runs one property's rules on
the overlay:
  kind 'mutant'  - a behaviour-breaking edit: the rules must report a violation whose key contains
                   `expect`
  kind 'rewrite' - a behaviour-preserving edit: the rules must report nothing new
A case whose `old` text is not present in the current tree is reported as 'stale' (the tree
changed); stale cases do not fail the self-test but are listed.
"""
from __future__ import annotations

import contextlib
import io
import json
import os
import sys
import time
from concurrent.futures import ProcessPoolExecutor
from typing import Dict, List, Optional, Tuple

from .model import Program, AnalysisError
from . import report

SRC = os.environ.get("KVERIF_SRC", "/repo/src")


def failing_keys(prop: str, overlay: Optional[Dict[str, str]]) -> Tuple[set, Optional[str]]:
    import importlib

    mod = importlib.import_module(f"kverif.rules.{prop.lower()}")
    try:
        prog = Program(root=SRC, overlay=overlay)
        results = mod.run(prog, "quick")
        fails = {o.key for r in results for o in r.obligations if not o.ok}
        if not fails:
            for r in results:
                if getattr(r, "blind", None):
                    return set(), r.blind
                if len(r.obligations) < r.floor:
                    return set(), f"floor {r.rule}"
    except AnalysisError as e:
        return set(), str(e)
    return fails, None


def run_case(case) -> Dict:
    path = os.path.join(SRC, case["file"])
    with open(path) as fh:
        text = fh.read()
    if case["old"] not in text:
        return {**case, "result": "stale"}
    new = text.replace(case["old"], case["new"], case.get("count", 1))
    overlay = {path: new}
    for edit in case.get("also", ()):  # further edits that belong to the same change: (old, new) in the same file, (file, old, new) elsewhere
        p2, (old2, new2) = (path, edit) if len(edit) == 2 else (os.path.join(SRC, edit[0]), edit[1:])
        if p2 not in overlay:
            with open(p2) as fh:
                overlay[p2] = fh.read()
        if old2 not in overlay[p2]:
            return {**case, "result": "stale"}
        overlay[p2] = overlay[p2].replace(old2, new2, 1)
    base, err0 = failing_keys(case["prop"], None)
    got, err = failing_keys(case["prop"], overlay)
    fresh = got - base
    res = {"id": case["id"], "prop": case["prop"], "kind": case["kind"], "new_failures": sorted(fresh), "analysis_error": err}
    if case["kind"] == "mutant":
        exp = case.get("expect", "")
        ok = any(exp in k for k in fresh) if exp else bool(fresh)
        if err and case.get("allow_error"):
            ok = True
        res["result"] = "killed" if ok else "MISSED"
    else:
        res["result"] = "silent" if not fresh and not err else "FALSE-ALARM"
    return res


def _reformat_overlay() -> Dict[str, str]:
    """every source file re-printed from its syntax tree: layout, comments, quoting and parenthesisation change, behaviour does not"""
    import ast

    out = {}
    for dp, _dn, fn in os.walk(os.path.join(SRC, "krrood")):
        for f in fn:
            if f.endswith(".py"):
                p = os.path.join(dp, f)
                with open(p) as fh:
                    out[p] = ast.unparse(ast.parse(fh.read()))
    return out


import ast


class Renamer(ast.NodeTransformer):
    """rename function-local variables x -> x_r consistently (params, globals, attributes untouched)"""
    def __init__(self): self.stack=[]
    def _locals(self, fn):
        params={a.arg for a in fn.args.posonlyargs+fn.args.args+fn.args.kwonlyargs}
        if fn.args.vararg: params.add(fn.args.vararg.arg)
        if fn.args.kwarg: params.add(fn.args.kwarg.arg)
        declared=set(); stores=set()
        def walk(n, top=True):
            for ch in ast.iter_child_nodes(n):
                if isinstance(ch,(ast.FunctionDef,ast.AsyncFunctionDef,ast.Lambda,ast.ClassDef)):
                    if isinstance(ch,(ast.FunctionDef,ast.AsyncFunctionDef,ast.ClassDef)): stores.add(('def',ch.name))
                    continue
                if isinstance(ch,(ast.Global,ast.Nonlocal)): declared.update(ch.names)
                if isinstance(ch,ast.Name) and isinstance(ch.ctx,(ast.Store,ast.Del)): stores.add(ch.id)
                if isinstance(ch, ast.ExceptHandler) and ch.name: stores.add(('exc',ch.name))
                walk(ch)
        walk(fn)
        names={s for s in stores if isinstance(s,str)}
        excl={s[1] for s in stores if not isinstance(s,str)}
        return names-params-declared-excl, params
    def visit_FunctionDef(self, node):
        loc, params = self._locals(node)
        # names of enclosing renames that this function rebinds as params are masked
        self.stack.append((loc, params))
        node.body=[self.visit(b) for b in node.body]
        node.decorator_list=node.decorator_list
        self.stack.pop()
        return node
    visit_AsyncFunctionDef=visit_FunctionDef
    def visit_Lambda(self,node):
        params={a.arg for a in node.args.args+node.args.kwonlyargs+node.args.posonlyargs}
        self.stack.append((set(),params))
        node.body=self.visit(node.body)
        self.stack.pop()
        return node
    def visit_ClassDef(self,node):
        # class body names are attributes: only descend into methods with a fresh context
        saved=self.stack; self.stack=[]
        node.body=[self.visit(b) for b in node.body]
        self.stack=saved
        return node
    def visit_Name(self,node):
        for loc,params in reversed(self.stack):
            if node.id in params: return node
            if node.id in loc:
                node.id=node.id+'_r'; return node
        return node



def _alpha_overlay() -> Dict[str, str]:
    """every function-local variable renamed (x -> x_r) in the whole tree: rules must not hang on the names of locals"""
    out = {}
    for dp, _dn, fn in os.walk(os.path.join(SRC, "krrood")):
        for f in fn:
            if f.endswith(".py"):
                p = os.path.join(dp, f)
                with open(p) as fh:
                    t = Renamer().visit(ast.parse(fh.read()))
                ast.fix_missing_locations(t)
                out[p] = ast.unparse(t)
    return out


class Swap(ast.NodeTransformer):
    """if c: A else: B  ->  if not c: B else: A   (only for plain if/else without elif chains)"""
    def visit_If(self,node):
        self.generic_visit(node)
        if node.orelse and not (len(node.orelse)==1 and isinstance(node.orelse[0],ast.If)):
            t=node.test
            nt = t.operand if isinstance(t,ast.UnaryOp) and isinstance(t.op,ast.Not) else ast.UnaryOp(op=ast.Not(),operand=t)
            return ast.If(test=nt, body=node.orelse, orelse=node.body)
        return node


class RetVar(ast.NodeTransformer):
    """return EXPR -> result_value = EXPR; return result_value   (non-trivial EXPR only, not in lambdas / generators' bare return)"""
    def _block(self, stmts):
        out=[]
        for st in stmts:
            st=self.visit(st)
            if isinstance(st,ast.Return) and st.value is not None and not isinstance(st.value,(ast.Name,ast.Constant)):
                out.append(ast.Assign(targets=[ast.Name(id='result_value',ctx=ast.Store())],value=st.value))
                out.append(ast.Return(value=ast.Name(id='result_value',ctx=ast.Load())))
            else: out.append(st)
        return out
    def generic_visit(self,node):
        for fld in ('body','orelse','finalbody'):
            v=getattr(node,fld,None)
            if isinstance(v,list) and v and isinstance(v[0],ast.stmt):
                setattr(node,fld,self._block(v))
        if hasattr(node,'handlers'):
            for h in node.handlers: h.body=self._block(h.body)
        if isinstance(node, ast.Match):
            for c in node.cases: c.body=self._block(c.body)
        return node


class ElseAfterJump(ast.NodeTransformer):
    """if c: ...; return/raise/continue/break   <rest of block>   ->   if c: ... jump  else: <rest of block>"""
    def _block(self, stmts):
        for i, st in enumerate(stmts):
            if isinstance(st, ast.If) and not st.orelse and st.body and isinstance(st.body[-1], (ast.Return, ast.Raise, ast.Continue, ast.Break)) and i + 1 < len(stmts):
                st.orelse = self._block(stmts[i+1:])
                return stmts[:i+1]
        return stmts
    def generic_visit(self, node):
        super().generic_visit(node)
        for fld in ('body','orelse','finalbody'):
            v=getattr(node,fld,None)
            if isinstance(v,list) and v and isinstance(v[0],ast.stmt):
                setattr(node,fld,self._block(v))
        return node
class SplitIsinstance(ast.NodeTransformer):
    """isinstance(x, (A, B)) -> isinstance(x, A) or isinstance(x, B)"""
    def visit_Call(self,node):
        self.generic_visit(node)
        if isinstance(node.func,ast.Name) and node.func.id=='isinstance' and len(node.args)==2 and isinstance(node.args[1],ast.Tuple) and len(node.args[1].elts)>1 and isinstance(node.args[0],(ast.Name,ast.Attribute)):
            return ast.BoolOp(op=ast.Or(),values=[ast.Call(func=ast.Name(id='isinstance',ctx=ast.Load()),args=[node.args[0],e],keywords=[]) for e in node.args[1].elts])
        return node


class CompToLoop(ast.NodeTransformer):
    """name = [elt for t in it if c]  ->  name = []; for t in it: if c: name.append(elt)     (single generator, statement level);
    likewise {k: v for ...} -> name = {}; ... name[k] = v   and   {e for ...} -> name = set(); ... name.add(e)"""
    def _block(self, stmts):
        out=[]
        for st in stmts:
            if isinstance(st,ast.Assign) and len(st.targets)==1 and isinstance(st.targets[0],ast.Name) and isinstance(st.value,(ast.ListComp,ast.DictComp,ast.SetComp)) and len(st.value.generators)==1 and not st.value.generators[0].is_async:
                g=st.value.generators[0]; name=st.targets[0].id
                used={n.id for n in ast.walk(st.value) if isinstance(n,ast.Name)}
                if name in used:
                    out.append(st); continue
                ref=ast.Name(id=name,ctx=ast.Load())
                if isinstance(st.value,ast.ListComp):
                    body=[ast.Expr(ast.Call(func=ast.Attribute(value=ref,attr='append',ctx=ast.Load()),args=[st.value.elt],keywords=[]))]
                    empty=ast.List(elts=[],ctx=ast.Load())
                elif isinstance(st.value,ast.SetComp):
                    body=[ast.Expr(ast.Call(func=ast.Attribute(value=ref,attr='add',ctx=ast.Load()),args=[st.value.elt],keywords=[]))]
                    empty=ast.Call(func=ast.Name(id='set',ctx=ast.Load()),args=[],keywords=[])
                else:
                    body=[ast.Assign(targets=[ast.Subscript(value=ref,slice=st.value.key,ctx=ast.Store())],value=st.value.value)]
                    empty=ast.Dict(keys=[],values=[])
                for c in reversed(g.ifs): body=[ast.If(test=c,body=body,orelse=[])]
                out.append(ast.Assign(targets=[ast.Name(id=name,ctx=ast.Store())],value=empty))
                out.append(ast.For(target=g.target,iter=g.iter,body=body,orelse=[]))
            else: out.append(st)
        return out
    def generic_visit(self,node):
        super().generic_visit(node)
        for fld in ('body','orelse','finalbody'):
            v=getattr(node,fld,None)
            if isinstance(v,list) and v and isinstance(v[0],ast.stmt):
                setattr(node,fld,self._block(v))
        return node
class IfExpToIf(ast.NodeTransformer):
    """name = a if c else b -> if c: name = a else: name = b"""
    def _block(self, stmts):
        out=[]
        for st in stmts:
            if isinstance(st,ast.Assign) and len(st.targets)==1 and isinstance(st.targets[0],ast.Name) and isinstance(st.value,ast.IfExp):
                out.append(ast.If(test=st.value.test,body=[ast.Assign(targets=st.targets,value=st.value.body)],orelse=[ast.Assign(targets=[ast.Name(id=st.targets[0].id,ctx=ast.Store())],value=st.value.orelse)]))
            else: out.append(st)
        return out
    def generic_visit(self,node):
        ast.NodeTransformer.generic_visit(self,node)
        for fld in ('body','orelse','finalbody'):
            v=getattr(node,fld,None)
            if isinstance(v,list) and v and isinstance(v[0],ast.stmt):
                setattr(node,fld,self._block(v))
        return node


class AddDocstring(ast.NodeTransformer):
    """every function and class without a docstring gets one (the first statement of a body is no longer code)"""
    def _doc(self, node):
        self.generic_visit(node)
        if not ast.get_docstring(node, clean=False):
            node.body = [ast.Expr(ast.Constant(value="Documented in the reference manual."))] + node.body
        return node
    visit_FunctionDef = visit_AsyncFunctionDef = visit_ClassDef = _doc


class ReorderMethods(ast.NodeTransformer):
    """the methods of a class in reverse order of definition; a getter and its setter stay one block in their own
    order, other class-level statements keep their places; classes whose class-level statements or decorators
    name a method are left alone"""
    def visit_ClassDef(self, node):
        self.generic_visit(node)
        fns = [s for s in node.body if isinstance(s, (ast.FunctionDef, ast.AsyncFunctionDef))]
        names = {f.name for f in fns}
        for s in node.body:
            if isinstance(s, (ast.FunctionDef, ast.AsyncFunctionDef)):
                for d in s.decorator_list:
                    for n in ast.walk(d):
                        if isinstance(n, ast.Name) and n.id in names and n.id != s.name:
                            return node
                for d in s.args.defaults + s.args.kw_defaults:
                    if d is not None and any(isinstance(n, ast.Name) and n.id in names for n in ast.walk(d)):
                        return node
            elif any(isinstance(n, ast.Name) and n.id in names for n in ast.walk(s)):
                return node
        blocks, order = {}, []
        for f in fns:
            if f.name not in blocks:
                blocks[f.name] = []; order.append(f.name)
            blocks[f.name].append(f)
        flat = [f for name in reversed(order) for f in blocks[name]]
        it = iter(flat)
        node.body = [next(it) if isinstance(s, (ast.FunctionDef, ast.AsyncFunctionDef)) else s for s in node.body]
        return node


class HoistCondition(ast.NodeTransformer):
    """if <call / comparison / boolean expression>: ...  ->  condition_N = <test>; if condition_N: ...   (statement level;
    an elif becomes else: condition_N = ...; if condition_N: ...)"""
    def __init__(self): self.n = 0
    def _block(self, stmts):
        out = []
        for st in stmts:
            if isinstance(st, ast.If) and isinstance(st.test, (ast.Call, ast.Compare, ast.BoolOp, ast.UnaryOp)):
                self.n += 1
                name = f"condition_{self.n}"
                out.append(ast.Assign(targets=[ast.Name(id=name, ctx=ast.Store())], value=st.test))
                st.test = ast.Name(id=name, ctx=ast.Load())
            out.append(st)
        return out
    def visit_FunctionDef(self, node):
        saved = self.n; self.n = 0
        self.generic_visit(node)
        self.n = saved
        return node
    visit_AsyncFunctionDef = visit_FunctionDef
    def generic_visit(self, node):
        ast.NodeTransformer.generic_visit(self, node)
        if isinstance(node, (ast.ClassDef, ast.Module)):
            return node
        for fld in ('body', 'orelse', 'finalbody'):
            v = getattr(node, fld, None)
            if isinstance(v, list) and v and isinstance(v[0], ast.stmt):
                setattr(node, fld, self._block(v))
        if hasattr(node, 'handlers'):
            for h in node.handlers: h.body = self._block(h.body)
        return node


class NegatedOperators(ast.NodeTransformer):
    """a is not b -> not a is b;  a not in b -> not a in b   (single comparisons)"""
    def visit_Compare(self, node):
        self.generic_visit(node)
        if len(node.ops) == 1 and isinstance(node.ops[0], (ast.IsNot, ast.NotIn)):
            op = ast.Is() if isinstance(node.ops[0], ast.IsNot) else ast.In()
            return ast.UnaryOp(op=ast.Not(), operand=ast.Compare(left=node.left, ops=[op], comparators=node.comparators))
        return node


class SplitAnd(ast.NodeTransformer):
    """if a and b: X   (no else)  ->  if a: if b: X"""
    def visit_If(self, node):
        self.generic_visit(node)
        if not node.orelse and isinstance(node.test, ast.BoolOp) and isinstance(node.test.op, ast.And) and len(node.test.values) >= 2:
            inner = node.body
            for v in reversed(node.test.values[1:]):
                inner = [ast.If(test=v, body=inner, orelse=[])]
            return ast.If(test=node.test.values[0], body=inner, orelse=[])
        return node


class MergeNestedIf(ast.NodeTransformer):
    """if a: if b: X   (neither has an else, nothing else in the outer body)  ->  if a and b: X"""
    def visit_If(self, node):
        self.generic_visit(node)
        if not node.orelse and len(node.body) == 1 and isinstance(node.body[0], ast.If) and not node.body[0].orelse:
            inner = node.body[0]
            vals = (node.test.values if isinstance(node.test, ast.BoolOp) and isinstance(node.test.op, ast.And) else [node.test]) + \
                   (inner.test.values if isinstance(inner.test, ast.BoolOp) and isinstance(inner.test.op, ast.And) else [inner.test])
            return ast.If(test=ast.BoolOp(op=ast.And(), values=list(vals)), body=inner.body, orelse=[])
        return node


class ContinueToNested(ast.NodeTransformer):
    """for ...: if c: continue; REST   ->   for ...: if not c: REST     (the guard is the first statement of the loop body, REST is non-empty)"""
    def visit_For(self, node):
        self.generic_visit(node)
        b = node.body
        if len(b) >= 2 and isinstance(b[0], ast.If) and not b[0].orelse and len(b[0].body) == 1 and isinstance(b[0].body[0], ast.Continue) \
                and not any(isinstance(x, (ast.Continue,)) and False for x in b[1:]):
            t = b[0].test
            nt = t.operand if isinstance(t, ast.UnaryOp) and isinstance(t.op, ast.Not) else ast.UnaryOp(op=ast.Not(), operand=t)
            node.body = [ast.If(test=nt, body=b[1:], orelse=[])]
        return node


def _transform_overlay(transformer) -> Dict[str, str]:
    out = {}
    for dp, _dn, fn in os.walk(os.path.join(SRC, "krrood")):
        for f in fn:
            if f.endswith(".py"):
                p = os.path.join(dp, f)
                with open(p) as fh:
                    t = transformer().visit(ast.parse(fh.read()))
                ast.fix_missing_locations(t)
                out[p] = ast.unparse(t)
    return out


class _Identity(ast.NodeTransformer):
    pass


# name -> AST transformer class (re-printing from the syntax tree is the identity transformer)
TRANSFORMERS = {
    "whole-tree-reformat": _Identity,
    "whole-tree-rename-locals": Renamer,
    "whole-tree-swap-if-else": Swap,
    "whole-tree-return-through-local": RetVar,
    "whole-tree-else-after-jump": ElseAfterJump,
    "whole-tree-split-isinstance": SplitIsinstance,
    "whole-tree-comprehension-to-loop": CompToLoop,
    "whole-tree-conditional-expression-to-if": IfExpToIf,
    "whole-tree-add-docstrings": AddDocstring,
    "whole-tree-reorder-methods": ReorderMethods,
    "whole-tree-hoist-conditions": HoistCondition,
    "whole-tree-negated-operators": NegatedOperators,
    "whole-tree-split-conjunctions": SplitAnd,
    "whole-tree-merge-nested-ifs": MergeNestedIf,
    "whole-tree-continue-to-nested-if": ContinueToNested,
}
WHOLE_TREE = dict(TRANSFORMERS)


def _overlay_for(which: str) -> Dict[str, str]:
    """`which` names one transformer, or two joined by '+' (applied in that order)"""
    chain = [TRANSFORMERS[w] for w in which.split("+")]
    out = {}
    for dp, _dn, fn in os.walk(os.path.join(SRC, "krrood")):
        for f in fn:
            if f.endswith(".py"):
                p = os.path.join(dp, f)
                with open(p) as fh:
                    t = ast.parse(fh.read())
                for tr in chain:
                    t = tr().visit(t)
                    ast.fix_missing_locations(t)
                out[p] = ast.unparse(t)
    return out


def run_reformat(prop: str, which: str = "whole-tree-reformat") -> Dict:
    base, err0 = failing_keys(prop, None)
    got, err = failing_keys(prop, _overlay_for(which))
    fresh = got - base
    return {"id": which, "prop": prop, "kind": "rewrite", "new_failures": sorted(fresh), "analysis_error": err,
            "result": "silent" if not fresh and not err else "FALSE-ALARM"}


def load_cases(prop: Optional[str] = None, deep: bool = False) -> List[Dict]:
    """deep: also every ordered pair of two different whole-tree transformations (thorough tier)"""
    from .cases import CASES

    props = sorted({c["prop"] for c in CASES})
    names = list(TRANSFORMERS)
    if deep:
        names += [f"{a}+{b}" for a in TRANSFORMERS for b in TRANSFORMERS if a != b and "reformat" not in a and "reformat" not in b]
    extra = [dict(prop=q, id=w, kind="reformat") for q in props for w in names]
    return [c for c in CASES + extra if prop is None or c["prop"] == prop]


def _dispatch(case) -> Dict:
    return run_reformat(case["prop"], case["id"]) if case.get("kind") == "reformat" else run_case(case)


def run_cases(cases: List[Dict], jobs: int = 0) -> List[Dict]:
    jobs = jobs or min(16, os.cpu_count() or 1, max(1, len(cases)))
    if jobs <= 1 or len(cases) <= 1:
        return [_dispatch(c) for c in cases]
    with ProcessPoolExecutor(max_workers=jobs) as ex:
        return list(ex.map(_dispatch, cases))


def summary(results: List[Dict]) -> Dict:
    out = {"mutants": 0, "killed": 0, "rewrites": 0, "silent": 0, "stale": 0, "missed": [], "false_alarms": []}
    for r in results:
        if r["result"] == "stale":
            out["stale"] += 1
        elif r["kind"] == "mutant":
            out["mutants"] += 1
            if r["result"] == "killed":
                out["killed"] += 1
            else:
                out["missed"].append(r["id"])
        else:
            out["rewrites"] += 1
            if r["result"] == "silent":
                out["silent"] += 1
            else:
                out["false_alarms"].append(r["id"])
    return out


def main(seed: int = 0, prop: Optional[str] = None) -> int:
    cases = load_cases(prop)
    t0 = time.time()
    results = run_cases(cases)
    s = summary(results)
    for r in results:
        print(f"{r['result']:12s} {r['prop']} {r['kind']:8s} {r['id']}  {r.get('new_failures', '')[:3] if r['result'] in ('MISSED', 'FALSE-ALARM') else ''} {r.get('analysis_error') or ''}")
    print(json.dumps(s))
    print(f"selftest: {len(cases)} cases in {time.time() - t0:.1f}s")
    return 0 if not s["missed"] and not s["false_alarms"] else 1
