"""Test the checker both ways, entirely in memory (overlay; nothing is written to /repo).

Each case edits one source file of the *current* tree textually and runs one property's rules on
the overlay:
  kind 'mutant'  - a behaviour-breaking edit: the rules must report a violation whose key contains
                   `expect`
  kind 'rewrite' - a behaviour-preserving edit: the rules must report nothing new
A case whose `old` text is not present in the current tree is reported as 'stale' (the tree
changed); stale cases do not fail the self-test but are listed.
"""
from __future__ import annotations

import contextlib
import io
import json
import os
import sys
import time
from concurrent.futures import ProcessPoolExecutor
from typing import Dict, List, Optional, Tuple

from .model import Program, AnalysisError
from . import report

SRC = os.environ.get("KVERIF_SRC", "/repo/src")


def failing_keys(prop: str, overlay: Optional[Dict[str, str]]) -> Tuple[set, Optional[str]]:
    import importlib

    mod = importlib.import_module(f"kverif.rules.{prop.lower()}")
    try:
        prog = Program(root=SRC, overlay=overlay)
        results = mod.run(prog, "quick")
        fails = {o.key for r in results for o in r.obligations if not o.ok}
        if not fails:
            for r in results:
                if len(r.obligations) < r.floor:
                    return set(), f"floor {r.rule}"
    except AnalysisError as e:
        return set(), str(e)
    return fails, None


def run_case(case) -> Dict:
    path = os.path.join(SRC, case["file"])
    with open(path) as fh:
        text = fh.read()
    if case["old"] not in text:
        return {**case, "result": "stale"}
    new = text.replace(case["old"], case["new"], case.get("count", 1))
    base, err0 = failing_keys(case["prop"], None)
    got, err = failing_keys(case["prop"], {path: new})
    fresh = got - base
    res = {"id": case["id"], "prop": case["prop"], "kind": case["kind"], "new_failures": sorted(fresh), "analysis_error": err}
    if case["kind"] == "mutant":
        exp = case.get("expect", "")
        ok = any(exp in k for k in fresh) if exp else bool(fresh)
        if err and case.get("allow_error"):
            ok = True
        res["result"] = "killed" if ok else "MISSED"
    else:
        res["result"] = "silent" if not fresh and not err else "FALSE-ALARM"
    return res


def load_cases(prop: Optional[str] = None) -> List[Dict]:
    from .cases import CASES

    return [c for c in CASES if prop is None or c["prop"] == prop]


def run_cases(cases: List[Dict], jobs: int = 0) -> List[Dict]:
    jobs = jobs or min(16, os.cpu_count() or 1, max(1, len(cases)))
    if jobs <= 1 or len(cases) <= 1:
        return [run_case(c) for c in cases]
    with ProcessPoolExecutor(max_workers=jobs) as ex:
        return list(ex.map(run_case, cases))


def summary(results: List[Dict]) -> Dict:
    out = {"mutants": 0, "killed": 0, "rewrites": 0, "silent": 0, "stale": 0, "missed": [], "false_alarms": []}
    for r in results:
        if r["result"] == "stale":
            out["stale"] += 1
        elif r["kind"] == "mutant":
            out["mutants"] += 1
            if r["result"] == "killed":
                out["killed"] += 1
            else:
                out["missed"].append(r["id"])
        else:
            out["rewrites"] += 1
            if r["result"] == "silent":
                out["silent"] += 1
            else:
                out["false_alarms"].append(r["id"])
    return out


def main(seed: int = 0, prop: Optional[str] = None) -> int:
    cases = load_cases(prop)
    t0 = time.time()
    results = run_cases(cases)
    s = summary(results)
    for r in results:
        print(f"{r['result']:12s} {r['prop']} {r['kind']:8s} {r['id']}  {r.get('new_failures', '')[:3] if r['result'] in ('MISSED', 'FALSE-ALARM') else ''} {r.get('analysis_error') or ''}")
    print(json.dumps(s))
    print(f"selftest: {len(cases)} cases in {time.time() - t0:.1f}s")
    return 0 if not s["missed"] and not s["false_alarms"] else 1
