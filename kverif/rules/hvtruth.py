"""HV-TRUTH - a bound value is never tested for its truth outside a condition position.

`HashedValue.__bool__` hands the question on to the wrapped user value.  `if bound:` where `bound` came out of the bindings therefore
does not ask "is the variable bound" but "is the user's value truthy": 0, '', False, an empty collection and any user object with
`__len__` / `__bool__` answer no.  Presence is asked with `in` / `is None`.  The one legitimate truth test of a bound value is the verdict
of a node that stands as a condition, and it sits under the `_stands_as_condition_` guard.

HashedValue-typed expressions are found from the annotations (parameters `Dict[int, HashedValue]`, `OperationResult`), from loops over
evaluations (`for r in x._evaluate__(...)`: r is an OperationResult; `r.value`, `r[...]`, `r.bindings[...]`, `sources.get(...)`), and
through locals assigned from them.
"""
from __future__ import annotations

import ast
from typing import List, Set

from ..model import Program, AnalysisError, walk_local, parents_of
from ..report import RuleResult
from ..astutil import src, site, call_name


def _ann(a) -> str:
    return ast.unparse(a) if a is not None else ""


def _is_condition_position_test(e: ast.expr) -> bool:
    """the helper property, or its body written out (a test on the parent being a logical operator)"""
    t = src(e)
    return "_stands_as_condition_" in t or ("_parent_" in t and "LogicalOperator" in t)


def hv_truth(prog: Program, floor: int = 1) -> RuleResult:
    r = RuleResult("HV-TRUTH", "a bound value is tested for truth only where the node stands as a condition", floor=1)
    n_guarded = 0
    n_funcs = 0
    for f in sorted(prog.functions.values(), key=lambda x: x.qual):
        if ".entity_query_language." not in f.qual:
            continue
        a = f.node.args
        hvdict: Set[str] = set()
        opres: Set[str] = set()
        hv: Set[str] = set()
        for p in a.posonlyargs + a.args + a.kwonlyargs:
            t = _ann(p.annotation)
            if "HashedValue" in t and "Dict" in t:
                hvdict.add(p.arg)
            elif "OperationResult" in t and "Iterable" not in t:
                opres.add(p.arg)
            elif t.strip() in ("HashedValue", "Optional[HashedValue]"):
                hv.add(p.arg)
        selfn = f.params[0] if f.params else "self"

        def results(call) -> bool:
            if not isinstance(call, ast.Call):
                return False
            if call_name(call) == "_evaluate__":
                return True
            if call_name(call) in ("filter", "map", "chain", "islice") and any(results(y) for y in call.args):
                return True
            if isinstance(call.func, ast.Attribute) and isinstance(call.func.value, ast.Name) and call.func.value.id == selfn and f.cls is not None:
                t = prog.lookup(f.cls.qual, call.func.attr)
                return t is not None and t.node.returns is not None and "OperationResult" in _ann(t.node.returns) and "Iterable" in _ann(t.node.returns)
            return False

        def is_hv(e) -> bool:
            if isinstance(e, ast.Name):
                return e.id in hv
            if isinstance(e, ast.Attribute) and e.attr == "value" and isinstance(e.value, ast.Name) and e.value.id in opres:
                return True
            if isinstance(e, ast.Subscript):
                b = e.value
                if isinstance(b, ast.Name) and (b.id in hvdict or b.id in opres):
                    return True
                if isinstance(b, ast.Attribute) and b.attr == "bindings":
                    return True
                # bindings and operation results are keyed by the ids of expressions: X[<expr>._id_] reads a bound value
                if isinstance(e.slice, ast.Attribute) and e.slice.attr == "_id_":
                    return True
            if isinstance(e, ast.Call) and isinstance(e.func, ast.Attribute) and e.func.attr == "get":
                b = e.func.value
                if isinstance(b, ast.Name) and b.id in hvdict:
                    return True
                if isinstance(b, ast.Attribute) and b.attr == "bindings":
                    return True
            return False

        def hv_stream(e) -> bool:
            """an iterable of bound values: map(<bindings>.get, ids), (val[i] for i in ids), <bindings>.values()"""
            if isinstance(e, ast.Call) and call_name(e) == "map" and e.args:
                fn = e.args[0]
                if isinstance(fn, ast.Attribute) and fn.attr in ("get", "__getitem__"):
                    b = fn.value
                    return (isinstance(b, ast.Name) and (b.id in hvdict or b.id in opres)) or (isinstance(b, ast.Attribute) and b.attr == "bindings")
            if isinstance(e, (ast.GeneratorExp, ast.ListComp)):
                return is_hv(e.elt)
            if isinstance(e, ast.Call) and isinstance(e.func, ast.Attribute) and e.func.attr == "values":
                b = e.func.value
                return (isinstance(b, ast.Name) and b.id in hvdict) or (isinstance(b, ast.Attribute) and b.attr == "bindings")
            if isinstance(e, ast.Name):
                return e.id in streams
            return False

        streams: Set[str] = set()
        for _ in range(3):
            for x in walk_local(f.node):
                if isinstance(x, (ast.For, ast.comprehension)) and isinstance(x.target, ast.Name):
                    if results(x.iter):
                        opres.add(x.target.id)
                    if hv_stream(x.iter):
                        hv.add(x.target.id)
                if isinstance(x, (ast.For, ast.comprehension)) and isinstance(x.target, ast.Tuple) and len(x.target.elts) == 2 and isinstance(x.target.elts[1], ast.Name) \
                        and isinstance(x.iter, ast.Call) and isinstance(x.iter.func, ast.Attribute) and x.iter.func.attr == "items" and isinstance(x.iter.func.value, ast.Name) and x.iter.func.value.id in hvdict:
                    hv.add(x.target.elts[1].id)
                if isinstance(x, ast.Assign) and len(x.targets) == 1 and isinstance(x.targets[0], ast.Name):
                    if isinstance(x.value, ast.DictComp) and is_hv(x.value.value):
                        hvdict.add(x.targets[0].id)
                    if is_hv(x.value):
                        hv.add(x.targets[0].id)
                    if hv_stream(x.value):
                        streams.add(x.targets[0].id)
                    if isinstance(x.value, ast.Attribute) and x.value.attr == "bindings":
                        hvdict.add(x.targets[0].id)
        if not (hvdict or opres or hv):
            continue
        n_funcs += 1
        par = parents_of(f.node)
        # locals that hold "do I stand as a condition"
        cond_names = {t.id for x in walk_local(f.node) if isinstance(x, ast.Assign) and _is_condition_position_test(x.value) for t in x.targets if isinstance(t, ast.Name)}

        def under_condition_guard(node) -> bool:
            x = node
            while x in par:
                p = par[x]
                if isinstance(p, (ast.If, ast.IfExp)) and x is not p.test and (_is_condition_position_test(p.test) or any(isinstance(z, ast.Name) and z.id in cond_names for z in ast.walk(p.test))):
                    return True
                if isinstance(p, ast.BoolOp) and isinstance(p.op, ast.And) and any(v is not x and (_is_condition_position_test(v) or (isinstance(v, ast.Name) and v.id in cond_names)) for v in p.values):
                    return True
                x = p
            return False

        def truth_operands(t):
            if isinstance(t, ast.BoolOp):
                for v in t.values:
                    yield from truth_operands(v)
            elif isinstance(t, ast.UnaryOp) and isinstance(t.op, ast.Not):
                yield from truth_operands(t.operand)
            else:
                yield t

        for x in walk_local(f.node):
            tests = []
            if isinstance(x, (ast.If, ast.While, ast.IfExp)):
                tests.append(x.test)
            if isinstance(x, ast.comprehension):
                tests += x.ifs
            if isinstance(x, ast.Assert):
                tests.append(x.test)
            if isinstance(x, ast.Call) and isinstance(x.func, ast.Name) and x.func.id == "bool" and x.args:
                tests.append(x.args[0])
            if isinstance(x, ast.Call) and isinstance(x.func, ast.Name) and x.func.id == "filter" and len(x.args) == 2 and isinstance(x.args[0], ast.Constant) and x.args[0].value is None and hv_stream(x.args[1]):
                tests.append(x.args[1])
            if isinstance(x, ast.UnaryOp) and isinstance(x.op, ast.Not):
                tests.append(x.operand)
            if isinstance(x, ast.BoolOp) and not isinstance(par.get(x), (ast.If, ast.While, ast.IfExp, ast.BoolOp, ast.UnaryOp)):
                # value position: `a or b` / `a and b` ask for the truth of all operands but the last
                tests += list(x.values[:-1])
            for t in tests:
                for o in truth_operands(t):
                    if not (is_hv(o) or (isinstance(o, ast.Name) and o.id in streams and False)):
                        continue
                    if under_condition_guard(o):
                        n_guarded += 1
                        r.ok(f"{f.short}#condition-verdict:{src(o)[:30]}", site(f, o), src(o)[:60], "truth of a bound value under the condition-position guard")
                        continue
                    r.fail(f"{f.short}#truth-of-a-bound-value:{src(o)[:30]}", site(f, o), src(x)[:90].replace("\n", " "),
                           f"{src(o)[:50]} is a bound value (a HashedValue: its truth is the truth of the user's value) and is tested for truth outside a condition position: a variable "
                           "bound to 0, '', False, an empty collection or an object with __len__ / __bool__ is taken for unbound or for no solution - it is enumerated again, "
                           "dropped from a key, or its row is never reported")
    if n_funcs < 5:
        raise AnalysisError(f"HV-TRUTH: only {n_funcs} functions of the query language handle bindings or operation results")
    if n_guarded < floor:
        r.note("the condition-position verdict (bool of a bound value under the condition-position guard) was not found in this tree")
    r.note(f"{n_funcs} functions with bound values in scope")
    return r
