"""C04 - object -> DAO -> object round trip preserves structure, types and aliasing.

IDKEY          id()-keyed memo tables keep the keyed object alive for as long as the entry exists
DAO-ORDER      memo lookup before allocation, registration before descent (both directions);
               allocate-then-initialise keeps the object's identity
DAO-DIRECTION  writer and reader classify relationships (direction x uselist) identically
Graph isomorphism of the round trip itself is not decided.
"""
from __future__ import annotations

import ast
from typing import Dict, List, Optional, Set, Tuple

from ..model import Program, AnalysisError, FuncInfo, ClassInfo, walk_local, dotted, parents_of
from ..report import RuleResult, guard
from ..astutil import src, site, calls_in, call_name, is_self_attr, kwarg, const_value
from ..cfg import CFG
from ..dtable import explore_block, Sym

EXPLANATION = (
    "Three structural necessary conditions of 'one object before = one object after' and of cycle handling, decided on dao.py: "
    "(IDKEY) every table keyed by id(o) that outlives the statement must hold o strongly in a sibling container of the same "
    "owner for as long as the entry exists - otherwise the key of a dead temporary is handed to a new object and the memo "
    "returns a stale conversion; restoring a key that is still held is accepted. (DAO-ORDER) on the CFG of to_dao the memo "
    "lookup dominates the allocation and the registration dominates every descending call; in from_dao the lookup dominates, "
    "allocate-and-memoize dominates the conversion of relationships and of the alternative parent, the object is allocated "
    "with __new__ and initialised in place (identity kept), circular fixes follow initialisation. (DAO-DIRECTION) the decision "
    "tables of the writer's and the reader's relationship classification over direction x uselist are extracted and compared."
)
ASSUMPTIONS = [
    "CPython reuses id() values of dead objects",
    "SQLAlchemy relationship directions are exactly MANYTOONE, ONETOMANY, MANYTOMANY",
    "equality of field values and collection order after the round trip is not decided",
]

DAO = "ormatic.dao"


def _id_stores(prog: Program, mod) -> List[Tuple[FuncInfo, ast.AST, str, str, str]]:
    """(function, node, owner expr, table field, keyed object expr) for T[id(x)] = v and T[k] = v with k = id(x)"""
    out = []
    for f in prog.functions.values():
        if f.module is not mod:
            continue
        idvars: Dict[str, str] = {}
        for s in walk_local(f.node):
            if isinstance(s, ast.Assign) and isinstance(s.targets[0], ast.Name) and isinstance(s.value, ast.Call) and isinstance(s.value.func, ast.Name) and s.value.func.id == "id":
                idvars[s.targets[0].id] = src(s.value.args[0])
        for s in walk_local(f.node):
            if isinstance(s, ast.Assign):
                for t in s.targets:
                    if isinstance(t, ast.Subscript) and isinstance(t.value, ast.Attribute):
                        k = t.slice
                        obj = None
                        if isinstance(k, ast.Call) and isinstance(k.func, ast.Name) and k.func.id == "id":
                            obj = src(k.args[0])
                        elif isinstance(k, ast.Name) and k.id in idvars:
                            obj = idvars[k.id]
                        if obj is not None:
                            out.append((f, s, src(t.value.value), t.value.attr, obj, src(s.value)))
    return out


def idkey(prog: Program) -> RuleResult:
    r = RuleResult("IDKEY", "id()-keyed conversion tables keep the keyed object alive", floor=4)
    mod = prog.module(DAO)
    stores = _id_stores(prog, mod)
    if len(stores) < 4:
        raise AnalysisError(f"IDKEY: only {len(stores)} id()-keyed stores found in dao.py")
    # group by (function, owner, object): a sibling store of the object itself discharges all tables of that owner
    seen = set()
    for f, node, owner, table, obj, val in stores:
        key = f"{f.short}#{table}[id({obj})]"
        if key in seen:
            continue
        seen.add(key)
        if val == obj:
            r.ok(key, site(f, node), src(node), "this store is the keep-alive itself")
            continue
        # (a) sibling strong store in the same function
        sibling = [s for (g, s, o2, t2, ob2, v2) in stores if g is f and o2 == owner and ob2 == obj and v2 == obj]
        # (b) restore of a key read earlier in this function under a membership test
        restore = False
        for n in walk_local(f.node):
            if isinstance(n, ast.Delete):
                for t in n.targets:
                    if isinstance(t, ast.Subscript) and src(t.value) == f"{owner}.{table}" and src(t.slice) == f"id({obj})":
                        restore = True
            if isinstance(n, ast.Call) and call_name(n) == "pop" and isinstance(n.func, ast.Attribute) and src(n.func.value) == f"{owner}.{table}" and n.args and src(n.args[0]) == f"id({obj})":
                restore = True
        # (c) the key was memoised (with its keep-alive obligation) by a dominating call in the same function
        cfg = CFG(f.node)
        nid = cfg.node_of(node)
        delegated = False
        for n in cfg.nodes:
            if n.stmt is None or n.kind != "stmt":
                continue
            for c in calls_in(n.stmt):
                for t in ([prog.lookup(cq, call_name(c)) for cq in prog.classes if call_name(c) in prog.classes[cq].methods]):
                    if t is None or t.module is not mod:
                        continue
                    inner = [x for x in stores if x[0] is t and x[3] == table]
                    if inner and nid is not None and cfg.dominates(n.id, nid) and n.id != nid:
                        # the callee memoises under id(<its parameter>); the argument here must be the same object
                        callee_obj = inner[0][4]
                        params = t.params
                        if callee_obj in params:
                            i = params.index(callee_obj)
                            args = [src(a) for a in c.args]
                            recv_is_obj = isinstance(c.func, ast.Attribute) and src(c.func.value) == obj
                            if (len(args) > i - 1 >= 0 and args[i - 1] == obj) or (i == 0 and recv_is_obj):
                                delegated = True
                        # one more level: a wrapper method of the object that passes self on
                    if t is not None and t.module is mod and nid is not None and cfg.dominates(n.id, nid) and n.id != nid and isinstance(c.func, ast.Attribute) and src(c.func.value) == obj:
                        for cc in calls_in(t.node):
                            t2s = [prog.classes[cq].methods[call_name(cc)] for cq in prog.classes if call_name(cc) in prog.classes[cq].methods]
                            for t2 in t2s:
                                if any(x[0] is t2 and x[3] == table for x in stores) and any(src(a) == t.params[0] for a in cc.args):
                                    delegated = True
        r.check(
            bool(sibling) or restore or delegated, key, site(f, node), src(node),
            "the keyed object is stored strongly next to the entry" if sibling else ("restores a key that is still registered" if restore else "key memoised (and kept alive) by the dominating allocation call"),
            f"{owner}.{table} is keyed by id({obj}) but nothing of {owner} keeps {obj} alive: when {obj} is a temporary that dies, its id is handed to the "
            f"next object and the table returns the stale conversion (297 of 300 conversions wrong with a GC between them)",
        )
    return r


def dao_order(prog: Program) -> RuleResult:
    r = RuleResult("DAO-ORDER", "lookup before allocation, registration before descent, identity-preserving initialisation", floor=8)
    dao = prog.cls(DAO + ".DataAccessObject")
    # ---- to_dao
    f = prog.method(dao.qual, "to_dao", inherited=False)
    cfg = CFG(f.node)

    def nodes_calling(name, pred=None):
        out = []
        for n in cfg.nodes:
            if n.stmt is None or n.kind not in ("stmt", "test"):
                continue
            for part in cfg._own_parts(n):
                for c in calls_in(part):
                    if call_name(c) == name and (pred is None or pred(c)):
                        out.append(n)
        return out

    look = nodes_calling("get_existing")
    alloc = [n for n in cfg.nodes if isinstance(n.stmt, ast.Assign) and isinstance(n.stmt.value, ast.Call) and src(n.stmt.value.func) == f.params[0] and not n.stmt.value.args]
    reg = nodes_calling("register")
    desc = nodes_calling("to_dao_default") + nodes_calling("to_dao_if_subclass_of_alternative_mapping")
    early = [n for n in cfg.nodes if isinstance(n.stmt, ast.Return) and n.stmt.value is not None and look and cfg.dominates(look[0].id, n.id) and not (alloc and cfg.dominates(alloc[0].id, n.id))]
    r.check(bool(look) and bool(alloc) and cfg.dominates(look[0].id, alloc[0].id) and bool(early), "DataAccessObject.to_dao#lookup-first", site(f), src(look[0].stmt) if look else "",
            "an already converted object is returned before anything is allocated", "to_dao allocates a DAO before consulting the memo: a shared object gets two DAOs")
    ok = bool(reg) and bool(desc) and all(cfg.dominates(alloc[0].id, d.id) for d in desc) if alloc else False
    # registration dominates descent modulo the `if register:` switch (default True)
    gate_ok = False
    if reg and desc:
        for t in cfg.nodes:
            if t.kind == "test" and isinstance(t.stmt, ast.If) and isinstance(t.stmt.test, ast.Name) and t.stmt.test.id in f.params and t.true_succ is not None and cfg.dominates(t.true_succ, reg[0].id):
                a = f.node.args
                defaults = dict(zip([x.arg for x in a.args[len(a.args) - len(a.defaults):]], a.defaults))
                if const_value(defaults.get(t.stmt.test.id)) is True and all(cfg.dominates(t.id, d.id) for d in desc) and not any(cfg.dominates(t.true_succ, d.id) for d in desc):
                    gate_ok = all(cfg.path_avoiding(cfg.entry, d.id, {reg[0].id, t.id}) is None for d in desc)
        if not gate_ok:
            gate_ok = all(cfg.dominates(reg[0].id, d.id) for d in desc)
    r.check(ok and gate_ok, "DataAccessObject.to_dao#register-before-descent", site(f, reg[0].stmt) if reg else site(f), src(reg[0].stmt) if reg else "",
            "the partially built DAO is registered before any field is converted", "to_dao descends into the object's fields before registering the DAO: a cycle recurses forever / a back reference gets a second DAO")
    if reg:
        c = [c for c in calls_in(reg[0].stmt) if call_name(c) == "register"][0]
        r.check([src(a) for a in c.args] == [f.params[1], src(alloc[0].stmt.targets[0])] if alloc else False, "DataAccessObject.to_dao#register-args", site(f, reg[0].stmt), src(c),
                "registers (object, its DAO)", "registration does not map the converted object to the DAO being built")
    # ---- from_dao
    g = prog.method(dao.qual, "from_dao", inherited=False)
    cfg = CFG(g.node)
    has = nodes_calling("has")
    al = nodes_calling("_allocate_uninitialized_and_memoize")
    rel = nodes_calling("_collect_relationship_kwargs")
    basekw = nodes_calling("_build_base_kwargs_for_alternative_parent")
    init = nodes_calling("_call_initializer_or_assign")
    fixes = nodes_calling("_apply_circular_fixes")
    r.check(bool(has) and bool(al) and cfg.dominates(has[0].id, al[0].id) and has[0].kind == "test", "DataAccessObject.from_dao#lookup-first", site(g), src(has[0].stmt.test) if has and has[0].kind == "test" else "",
            "a DAO that is converted or in progress returns its object", "from_dao allocates before consulting the memo: a shared DAO yields two objects")
    r.check(bool(al) and bool(rel) and bool(basekw) and cfg.dominates(al[0].id, rel[0].id) and cfg.dominates(al[0].id, basekw[0].id), "DataAccessObject.from_dao#memoize-before-descent", site(g), "",
            "the uninitialised object is memoised before relationships are converted", "from_dao converts relationships before memoising the object under construction: cycles recurse forever")
    resvar = src(al[0].stmt.targets[0]) if al and isinstance(al[0].stmt, ast.Assign) else None
    ic = [c for n in init for c in calls_in(n.stmt) if call_name(c) == "_call_initializer_or_assign"]
    r.check(bool(ic) and resvar is not None and src(ic[0].args[0]) == resvar and cfg.dominates(rel[0].id, init[0].id) if rel and init else False, "DataAccessObject.from_dao#initialise-in-place", site(g), src(ic[0]) if ic else "",
            "the memoised object itself is initialised (identity kept)", "the object handed out through the memo is not the one that gets initialised")
    r.check(bool(fixes) and bool(init) and cfg.dominates(init[0].id, fixes[0].id), "DataAccessObject.from_dao#fixes-after-init", site(g), "", "circular references are patched after initialisation",
            "circular fix-ups do not follow initialisation")
    # an alternatively mapped object is first memoised as its *mapping* instance and only replaced by the created domain object at
    # the end: whoever read the memo in between (a back reference on a cycle through it) holds the mapping instance and must be patched
    created = [n for n in cfg.nodes if isinstance(n.stmt, ast.Assign) and any(call_name(c) == "create_from_dao" for c in calls_in(n.stmt))]
    if created:
        cn = created[0]
        later = cfg.reachable(cn.id) - {cn.id}
        patched = any(call_name(c) in ("_apply_circular_fixes", "patch_references", "replace_references", "_replace_in_dependents") for i in later if cfg.nodes[i].stmt is not None for c in calls_in(cfg.nodes[i].stmt))
        r.check(patched, "DataAccessObject.from_dao#alternative-mapping-in-cycle", site(g, cn.stmt), src(cn.stmt),
                "objects that captured the in-progress mapping instance are re-pointed to the created object",
                "the domain object of an alternatively mapped DAO is created after its relationships were converted, and nothing re-points the objects that meanwhile received the in-progress "
                "mapping instance from the memo: on a cycle entered through the alternatively mapped object the back reference ends up as the mapping instance, not the object")
    st = prog.cls(DAO + ".FromDAOState")
    am = prog.method(st.qual, "allocate_and_memoize", inherited=False)
    news = [c for c in calls_in(am.node) if call_name(c) == "__new__"]
    stores = [s for s in walk_local(am.node) if isinstance(s, ast.Assign) and isinstance(s.targets[0], ast.Subscript) and src(s.targets[0].value) == "self.memo"]
    rets = [s for s in walk_local(am.node) if isinstance(s, ast.Return)]
    ok = len(news) == 1 and len(stores) == 1 and len(rets) == 1 and src(stores[0].value) == src(rets[0].value) and src(stores[0].targets[0].slice) == f"id({am.params[1]})"
    r.check(ok, "FromDAOState.allocate_and_memoize#shape", site(am), src(stores[0]) if stores else "", "allocates with __new__, memoises under id(dao), returns the same object",
            "allocation does not create an uninitialised instance, memoise it under the DAO's id and return that same instance")
    # circular detection compares identity with the memoised object
    for mname in ("parse_single", "parse_collection"):
        m = prog.method(st.qual, mname, inherited=False)
        ok = any(isinstance(n, ast.Compare) and isinstance(n.ops[0], ast.Is) and "self.memo.get(id(" in src(n) for n in walk_local(m.node))
        r.check(ok, f"FromDAOState.{mname}#identity", site(m), "", "in-progress objects are recognised by identity with the memo entry", "circular references are not recognised by identity")
    return r


def dao_direction(prog: Program) -> RuleResult:
    r = RuleResult("DAO-DIRECTION", "writer and reader classify relationships alike over direction x uselist", floor=6)
    dao = prog.cls(DAO + ".DataAccessObject")
    w = prog.method(dao.qual, "get_relationships_from", inherited=False)
    rd = prog.method(dao.qual, "_collect_relationship_kwargs", inherited=False)

    def table(f: FuncInfo, single_names, coll_names):
        loops = [n for n in walk_local(f.node) if isinstance(n, ast.For) and "relationships" in src(n.iter)]
        if len(loops) != 1:
            raise AnalysisError(f"DAO-DIRECTION: {f.short} has no single loop over relationships")
        lp = loops[0]
        var = lp.target.id
        body = [s for s in lp.body]
        out = {}
        dirs = ["MANYTOONE", "ONETOMANY", "MANYTOMANY", "<other>"]
        for d in dirs:
            for ul in (True, False):
                preset = {("truth", f"{var}.uselist"): ul}
                for k in dirs[:3]:
                    preset[("ord", f"{var}.direction", k)] = 0 if k == d else 1
                # membership guards unrelated to the classification (reader: key not among constructor args)
                paths = explore_block(prog, f, body, {var: Sym(var), **{p: Sym(p) for p in f.params}}, preset=preset, inline=lambda q: False)
                found = []
                for val, outcome, calls in paths:
                    # membership guards unrelated to the classification (reader: the key is not among the constructor's arguments), whether
                    # they are written `if key not in names: continue` or `if key in names: <classify>`
                    member = tuple(sorted((a, v) for a, v in val.items() if a not in preset and a[0] == "in"))
                    names = {c.fn.split(".")[-1] for c in calls}
                    if outcome[0] == "raise":
                        kind = "raise"
                    elif names & single_names:
                        kind = "single"
                    elif names & coll_names:
                        kind = "collection"
                    else:
                        kind = "ignored"
                    found.append((member, kind))
                deciding = {m for m, k in found if k != "ignored"}
                kinds = {k for m, k in found if not deciding or not m or m in deciding}
                out[(d, ul)] = kinds
        return out

    tw = table(w, {"_extract_single_relationship"}, {"_extract_collection_relationship"})
    tr = table(rd, {"parse_single"}, {"parse_collection"})
    spec = {("MANYTOONE", True): "single", ("MANYTOONE", False): "single", ("ONETOMANY", False): "single", ("ONETOMANY", True): "collection",
            ("MANYTOMANY", True): "collection", ("MANYTOMANY", False): "collection"}
    for cell in sorted(tw):
        a, b = tw[cell], tr[cell]
        lab = f"{cell[0]},uselist={cell[1]}"
        if cell[0] == "<other>":
            r.ok(f"relationships#{lab}", site(w), "", f"impossible remainder: writer {sorted(a)}, reader {sorted(b)} (ignore vs raise; reported, not required to agree)")
            continue
        want = {spec[cell]}
        r.check(a == b == want, f"relationships#{lab}", site(w), lab, f"both sides: {sorted(a)}",
                f"writer treats it as {sorted(a)}, reader as {sorted(b)}, a relationship of this shape is {sorted(want)}: the value is dropped or rebuilt with the wrong shape on the way back")
    return r


def dao_collect(prog: Program) -> RuleResult:
    """Every element of a collection is converted and kept, by identity: no value-equality test on converted
    or domain objects anywhere in the conversion code (DAO.__eq__ compares data columns only)."""
    r = RuleResult("DAO-COLLECT", "collections keep every element; conversion code never compares objects by value", floor=3)
    mod = prog.module(DAO)
    dao = prog.cls(DAO + ".DataAccessObject")
    st = prog.cls(DAO + ".FromDAOState")
    # (a) element loops reach the append on every iteration that does not raise
    for owner, mname in ((dao, "_extract_collection_relationship"), (st, "parse_collection")):
        f = prog.method(owner.qual, mname, inherited=False)
        cfg = CFG(f.node)
        loops = [n for n in cfg.nodes if n.kind == "for"]
        ok = False
        why = "no loop over the collection"
        for lp in loops:
            conv = {src(x.targets[0]) for x in walk_local(f.node) if isinstance(x, ast.Assign) and isinstance(x.value, ast.Call) and call_name(x.value) in ("to_dao", "from_dao")}
            appends = set()
            for n in cfg.nodes:
                if lp.id in n.loops and n.kind == "stmt":
                    for c in calls_in(n.stmt):
                        if call_name(c) == "append" and c.args and (src(c.args[0]) in conv or (isinstance(c.args[0], ast.Call) and call_name(c.args[0]) in ("to_dao", "from_dao"))):
                            appends.add(n.id)
            entry = [s_ for s_ in lp.succ if lp.id in cfg.nodes[s_].loops]
            leak = None
            for e in entry:
                leak = leak or (cfg.path_avoiding(e, lp.id, appends) if e not in appends else None)
            if appends and leak is None:
                ok = True
            elif appends:
                why = f"an element can be skipped: {cfg.describe(leak)}"
        r.check(ok, f"{f.short}#every-element-kept", site(f), "", "every element of the collection is converted and appended",
                f"{why}: the converted collection does not have the same elements as the original")
    # (b) no equality / membership on objects under conversion
    hits = []
    for f in sorted([g for g in prog.functions.values() if g.module is mod and g.cls is not None and g.cls.qual in (dao.qual, st.qual, prog.cls(DAO + ".ToDAOState").qual)], key=lambda x: x.qual):
        if f.name in ("__eq__", "__repr__"):
            continue
        objs: Set[str] = set()
        for n in walk_local(f.node):
            if isinstance(n, ast.Assign) and isinstance(n.targets[0], ast.Name):
                v = n.value
                if isinstance(v, ast.Call) and (call_name(v) in ("to_dao", "from_dao", "get_existing") or (call_name(v) == "getattr" and len(v.args) >= 2 and "relationship" in src(v.args[1]))):
                    objs.add(n.targets[0].id)
        for n in walk_local(f.node):
            if isinstance(n, ast.For) and isinstance(n.target, ast.Name) and isinstance(n.iter, ast.Name) and n.iter.id in objs | {"value"}:
                objs.add(n.target.id)
        for _ in range(2):
            for n in walk_local(f.node):
                if isinstance(n, ast.Assign) and isinstance(n.targets[0], ast.Name) and any(isinstance(x, ast.Name) and x.id in objs for x in ast.walk(n.value)) and isinstance(n.value, ast.Call) and call_name(n.value) in ("to_dao", "from_dao"):
                    objs.add(n.targets[0].id)
        for n in walk_local(f.node):
            if isinstance(n, ast.Compare):
                for op, a, b in zip(n.ops, [n.left] + n.comparators, n.comparators):
                    if isinstance(op, (ast.In, ast.NotIn, ast.Eq, ast.NotEq)):
                        if any(isinstance(x, ast.Name) and x.id in objs for x in (a, b)) or any(isinstance(x, ast.Call) and call_name(x) in ("to_dao", "from_dao") for x in (a, b)):
                            hits.append((f, n))
            if isinstance(n, ast.Call) and isinstance(n.func, ast.Attribute) and n.func.attr in ("index", "count", "remove") and n.args and isinstance(n.args[0], ast.Name) and n.args[0].id in objs:
                hits.append((f, n))
    for f, n in hits:
        r.fail(f"{f.short}#value-comparison", site(f, n), src(n),
               "an object under conversion is compared by value (DAO equality looks at data columns only; user equality is arbitrary): distinct objects with equal fields collapse into one")
    r.ok("dao#identity-only", mod.relpath, "", f"{len(hits)} value comparisons on objects under conversion")
    return r


def dao_value_truth(prog: Program) -> RuleResult:
    """A field value read during conversion (getattr(x, <name that varies>)) is data: '', 0, False and [] are legal values. Its truth must
    not decide whether it is kept (`if value:`, `a and (v := getattr(...))`, `[.. for .. if getattr(...)]`); tests for None / identity
    and exception handling are the accepted ways to ask whether a value is there."""
    r = RuleResult("DAO-VALUE-TRUTH", "no field value is kept or dropped according to its truth", floor=3)
    mod = prog.module(DAO)
    n_reads = 0
    for f in sorted([f for f in prog.functions.values() if f.module is mod and f.cls is not None], key=lambda x: x.qual):
        # names that vary: loop / comprehension targets
        varying = set()
        for x in walk_local(f.node):
            tg = x.target if isinstance(x, (ast.For, ast.comprehension)) else None
            if tg is not None:
                varying |= {y.id for y in ast.walk(tg) if isinstance(y, ast.Name)}
        # ... and any other name that is not a constant (relationship.key, column.name of a parameter): which field is read is decided by the
        # class being converted, so the value is that class's data
        reads = [c for c in [x for x in walk_local(f.node) if isinstance(x, ast.Call)] if isinstance(c.func, ast.Name) and c.func.id == "getattr" and len(c.args) >= 2
                 and not isinstance(c.args[1], ast.Constant)]
        if not reads:
            continue
        # locals bound to such a read
        bound = {}
        for x in walk_local(f.node):
            if isinstance(x, ast.Assign) and len(x.targets) == 1 and isinstance(x.targets[0], ast.Name) and any(x.value is c for c in reads):
                bound[x.targets[0].id] = x.value
            if isinstance(x, ast.NamedExpr) and isinstance(x.target, ast.Name) and any(x.value is c for c in reads):
                bound[x.target.id] = x.value

        def is_value(e) -> bool:
            return any(e is c for c in reads) or (isinstance(e, ast.NamedExpr) and is_value(e.value)) or (isinstance(e, ast.Name) and e.id in bound)

        def truth_positions(fn_node):
            for x in walk_local(fn_node):
                if isinstance(x, (ast.If, ast.While, ast.IfExp)):
                    yield x.test
                if isinstance(x, ast.Assert):
                    yield x.test
                if isinstance(x, ast.comprehension):
                    yield from x.ifs
                if isinstance(x, ast.BoolOp):
                    yield from x.values
                if isinstance(x, ast.UnaryOp) and isinstance(x.op, ast.Not):
                    yield x.operand
                if isinstance(x, ast.Call) and isinstance(x.func, ast.Name) and x.func.id in ("bool", "any", "all", "filter") and x.args:
                    yield x.args[-1] if x.func.id == "filter" else x.args[0]

        bad = None
        for t in truth_positions(f.node):
            todo = [t]
            while todo:
                y = todo.pop()
                if isinstance(y, ast.BoolOp):
                    todo += y.values
                elif isinstance(y, ast.UnaryOp) and isinstance(y.op, ast.Not):
                    todo.append(y.operand)
                elif is_value(y):
                    bad = bad or y
        n_reads += len(reads)
        r.check(bad is None, f"{f.short}#values-not-truth-tested", site(f, reads[0]), f"{len(reads)} dynamic field reads",
                "field values are only stored, passed on or tested against None",
                f"the field value {src(bad)[:60] if bad is not None else ''} is used as a condition: a legal falsy value ('', 0, False, an empty collection) is treated as absent "
                f"and the reconstructed object lacks the field or gets a default")
    if n_reads < 3:
        raise AnalysisError(f"DAO-VALUE-TRUTH: only {n_reads} dynamic field reads found in dao.py")
    return r


def dao_window(prog: Program) -> RuleResult:
    """An entry that is taken out of the conversion memo for a moment must be back before the conversion descends into related objects."""
    from ..callgraph import self_closure

    r = RuleResult("DAO-WINDOW", "a memo entry that is removed temporarily is restored before related objects are converted", floor=1)
    dao = prog.cls(DAO + ".DataAccessObject")
    for f in sorted(dao.methods.values(), key=lambda x: x.qual):
        cfg = CFG(f.node)
        removes = []
        for n in cfg.nodes:
            st = n.stmt
            if n.kind != "stmt" or st is None:
                continue
            if isinstance(st, ast.Delete) and any(isinstance(t, ast.Subscript) and src(t.value).endswith(".memo") for t in st.targets):
                removes.append((n, src(st.targets[0].slice)))
            for c in calls_in(st):
                if call_name(c) == "pop" and isinstance(c.func, ast.Attribute) and src(c.func.value).endswith(".memo") and c.args:
                    removes.append((n, src(c.args[0])))
        if not removes:
            continue
        # methods of the class through which related objects get converted (their closure calls to_dao on something)
        descending = set()
        for name in {m for q in prog.mro(dao.qual) if q in prog.classes for m in prog.classes[q].methods}:
            m = prog.lookup(dao.qual, name)
            if m is None or m is f or name in ("to_dao",):
                continue
            seen, _ = self_closure(prog, dao.qual, m, False)
            if any(call_name(c) == "to_dao" for g in seen for c in calls_in(g.node)):
                descending.add(name)
        for rn, key in removes:
            restores = [n for n in cfg.nodes if n.kind == "stmt" and isinstance(n.stmt, ast.Assign) and any(isinstance(t, ast.Subscript) and src(t.value).endswith(".memo") and src(t.slice) == key for t in n.stmt.targets)]
            barrier = set()
            for rs in restores:
                barrier.add(rs.id)
                # a restore under `if <saved> is not None:` - the test stands for the restore (the saved value is set where the entry was removed)
                for t in cfg.nodes:
                    if t.kind == "test" and isinstance(t.stmt, ast.If) and t.true_succ is not None and cfg.dominates(t.true_succ, rs.id) and rs.stmt in list(ast.walk(t.stmt)) \
                            and isinstance(rs.stmt.value, ast.Name) and rs.stmt.value.id in {x.id for x in ast.walk(t.stmt.test) if isinstance(x, ast.Name)}:
                        barrier.add(t.id)
            desc = []
            for n in cfg.nodes:
                if n.stmt is None or n.kind not in ("stmt", "test", "for"):
                    continue
                for part in cfg._own_parts(n):
                    for c in calls_in(part):
                        if isinstance(c.func, ast.Attribute) and is_self_attr(c.func) and c.func.attr in descending:
                            desc.append((n, c))
            if not desc:
                raise AnalysisError(f"DAO-WINDOW: {f.short} removes a memo entry but no descending call was recognised")
            r.check(bool(restores), f"{f.short}#restored", site(f, rn.stmt), src(rn.stmt), "the removed entry is put back", f"the memo entry for {key} is removed and never restored")
            for i, (n, c) in enumerate(sorted(desc, key=lambda nc: (nc[1].lineno, nc[1].col_offset))):
                p = cfg.path_avoiding(rn.id, n.id, barrier) if restores else [rn.id, n.id]
                r.check(p is None, f"{f.short}#{c.func.attr}[{i}]-after-restore", site(f, c), src(c)[:100], "runs with the object back in the memo",
                        f"{c.func.attr}() converts related objects on a path {cfg.describe(p) if p else ''} on which the memo entry for {key} is still removed: "
                        f"a related object that refers back gets a second DAO for it, and the round trip returns copies instead of one shared object")
    return r


def dao_fresh(prog: Program) -> RuleResult:
    """A converter of collections builds the collection of the other side; it never hands back the collection it was given
    (for an empty one that is easily missed: there is nothing to convert).  Returning the argument is accepted for None only."""
    r = RuleResult("DAO-FRESH", "a converted collection is a new object, whatever its size", floor=1)
    mod = prog.module(DAO)
    n = 0
    for f in sorted([f for f in prog.functions.values() if f.module is mod and f.cls is not None], key=lambda x: x.qual):
        params = f.params[1:]
        conv = None
        for lp in [x for x in walk_local(f.node) if isinstance(x, ast.For)]:
            if isinstance(lp.iter, ast.Name) and lp.iter.id in params and any(call_name(c) in ("from_dao", "to_dao") for c in calls_in(lp)):
                conv = lp
        if conv is None:
            continue
        n += 1
        p = conv.iter.id
        cfg = CFG(f.node)
        bad = None
        for nd in cfg.nodes:
            if nd.kind != "stmt" or not isinstance(nd.stmt, ast.Return) or nd.stmt.value is None:
                continue
            v = nd.stmt.value
            heads = [v.elts[0]] if isinstance(v, ast.Tuple) and v.elts else [v]
            if not any(isinstance(h, ast.Name) and h.id == p for h in heads):
                continue
            # reassigned before?  (p = list(p) ...) - then it is not the argument any more
            kills = {k.id for k in cfg.nodes if k.kind == "stmt" and isinstance(k.stmt, ast.Assign) and any(isinstance(t, ast.Name) and t.id == p for t in k.stmt.targets)}
            if cfg.path_avoiding(cfg.entry, nd.id, kills) is None:
                continue
            guarded = False
            for t in cfg.nodes:
                if t.kind == "test" and isinstance(t.stmt, ast.If) and t.true_succ is not None and cfg.dominates(t.true_succ, nd.id):
                    tt = t.stmt.test
                    if isinstance(tt, ast.Compare) and len(tt.ops) == 1 and isinstance(tt.ops[0], ast.Is) and isinstance(tt.left, ast.Name) and tt.left.id == p \
                            and isinstance(tt.comparators[0], ast.Constant) and tt.comparators[0].value is None:
                        guarded = True
                # the same guard written the other way round: the return sits behind the false side of `p is not None`
                false_side = [t.false_succ] if getattr(t, "false_succ", None) is not None else ([x for x in getattr(t, "succ", []) if x != t.true_succ] if isinstance(getattr(t, "stmt", None), ast.If) and not t.stmt.orelse and isinstance(t.stmt.body[-1], (ast.Return, ast.Raise)) else [])
                if t.kind == "test" and isinstance(t.stmt, ast.If) and false_side and all(cfg.dominates(x, nd.id) for x in false_side):
                    tt = t.stmt.test
                    if isinstance(tt, ast.Compare) and len(tt.ops) == 1 and isinstance(tt.ops[0], ast.IsNot) and isinstance(tt.left, ast.Name) and tt.left.id == p \
                            and isinstance(tt.comparators[0], ast.Constant) and tt.comparators[0].value is None:
                        guarded = True
            if not guarded:
                bad = bad or nd
        r.check(bad is None, f"{f.short}#returns-new-collection", site(f, bad.stmt) if bad else site(f), src(bad.stmt) if bad else f"converter of `{p}`",
                "the argument itself is returned for None only",
                f"`{p}` itself is returned on a path that is not limited to None: the reconstructed object's (empty) collection is the DAO's own instrumented list - appending to the "
                "object's field changes the DAO, and two reconstructions share one list")
    if n < 1:
        raise AnalysisError("DAO-FRESH: no collection converter found in dao.py")
    return r


def dao_args(prog: Program) -> RuleResult:
    """from_dao passes to the constructor what it finds under the constructor's parameter names.  Every parameter counts: positional,
    keyword-only (dataclass fields declared with kw_only=True, such as a back reference to the owning container) - a name that is missing
    from the list is silently left at its default.  Table of the introspection APIs: inspect.signature(f).parameters lists all kinds;
    inspect.getfullargspec(f).args and f.__code__.co_varnames[:co_argcount] leave the keyword-only ones out (getfullargspec has them in
    .kwonlyargs)."""
    r = RuleResult("DAO-ARGS", "the constructor argument names used by from_dao include keyword-only parameters", floor=1)
    dao = prog.cls(DAO + ".DataAccessObject")
    f = prog.lookup(dao.qual, "_argument_names")
    if f is None:
        raise AnalysisError("DAO-ARGS: DataAccessObject._argument_names vanished")
    attrs = {x.attr for x in walk_local(f.node) if isinstance(x, ast.Attribute)}
    calls = {call_name(c) for c in calls_in(f.node)}
    why = None
    if "signature" in calls and "parameters" in attrs:
        if "kind" in attrs:
            why = "the parameters are filtered by kind"
    elif "getfullargspec" in calls or "getargspec" in calls:
        if not ({"args", "kwonlyargs"} <= attrs):
            why = "getfullargspec(...).args is used without .kwonlyargs"
    elif "co_varnames" in attrs:
        if "co_kwonlyargcount" not in attrs:
            why = "co_varnames[:co_argcount] is used without the keyword-only part"
    else:
        raise AnalysisError("DAO-ARGS: cannot tell how _argument_names lists the constructor's parameters")
    r.check(why is None, "DataAccessObject._argument_names#keyword-only-included", site(f), src(f.node.body[-1])[:100], "all parameters of the constructor are listed",
            f"{why}: a keyword-only constructor parameter (WorldEntity.world: field(kw_only=True)) is missing from the names, its column / relationship is skipped and the "
            "reconstructed object gets the default (every body's .world is None after the round trip)")
    return r


def dao_kwargs(prog: Program) -> RuleResult:
    """from_dao hands the constructor one argument for every column / relationship that carries a constructor parameter's name. Whether
    an argument is handed over is decided by the mapper's metadata (the name, the kind of column, the direction of the relationship) and
    never by the value found: None, 0, '' and an empty collection are values like any other - a skipped None leaves a parameter without
    default unset (the TypeError of the constructor is swallowed by the assign fall-back and the attribute never exists). Decision table
    of the two collectors with the loop over the mapper's entries taken generically."""
    from ..dtable import explore, Sym, App, term

    r = RuleResult("DAO-KWARGS", "whether from_dao hands a constructor argument over depends on the mapper's metadata, never on the value", floor=2)
    dao = prog.cls(DAO + ".DataAccessObject")
    n = 0
    for name in ("_collect_scalar_kwargs", "_collect_relationship_kwargs"):
        f = prog.lookup(dao.qual, name)
        if f is None:
            continue
        n += 1
        paths = explore(prog, f, [Sym(p) for p in f.params], self_type=dao.qual, max_paths=2000, generic_loops=True)
        if len(paths) < 3:
            raise AnalysisError(f"DAO-KWARGS: only {len(paths)} paths through {f.short}")
        skipped = None
        unrelated = None
        stored = 0
        for val, out, calls in paths:
            if out[0] != "return":
                continue
            sets = [x for x in calls if isinstance(x, App) and x.fn == "setitem" and len(x.args) == 3 and "elem(" in term(x.args[1])]
            value_atoms = [k for k in val if any("getattr(self, elem(" in str(part) for part in k[1:])]
            if not sets and value_atoms and skipped is None:
                skipped = ", ".join(f"{' '.join(str(p) for p in k[1:])} = {val[k]}" for k in value_atoms)[:160]
            for x in sets:
                stored += 1
                if "getattr(self, elem(" not in term(x.args[2]) and unrelated is None:
                    unrelated = term(x)[:140]
        if stored == 0:
            raise AnalysisError(f"DAO-KWARGS: no path of {f.short} stores an argument")
        r.check(skipped is None, f"{f.short}#value-never-decides", site(f), f"{len(paths)} paths", "no path skips the argument because of the value found",
                f"{f.short} leaves the argument out on a path decided by the value ({skipped}): an optional field that is None (or a falsy value) is not handed to the "
                "constructor - a parameter without default stays unset, the swallowed TypeError turns into attribute assignment and the attribute is missing from the "
                "reconstructed object (an alternatively mapped object then fails in create_from_dao)")
        r.check(unrelated is None, f"{f.short}#argument-is-the-stored-value", site(f), "", "what is handed over derives from the attribute of the same name",
                f"{unrelated} does not derive from the DAO's attribute of that name")
    if n < 2:
        raise AnalysisError("DAO-KWARGS: the scalar / relationship collectors of from_dao vanished (_collect_scalar_kwargs, _collect_relationship_kwargs)")
    return r


def dao_partition(prog: Program) -> RuleResult:
    """A DAO that inherits from an alternatively mapped DAO fills the parent's relationships from the mapping instance and all the others
    from the object. "All the others" is the complement: every relationship of the child's mapper that is not one of the parent's - also
    those an intermediate class declares (the child's mapper lists them, SQLAlchemy says their owner is the intermediate mapper). The second
    part is derived from `child.relationships` by one criterion only: not being among the parent's."""
    r = RuleResult("DAO-PARTITION", "the relationships of an inherited DAO are split into the parent's and the complement", floor=1)
    dao = prog.cls(DAO + ".DataAccessObject")
    f = prog.lookup(dao.qual, "partition_parent_child_relationships")
    if f is None or len(f.params) < 3:
        raise AnalysisError("DAO-PARTITION: DataAccessObject.partition_parent_child_relationships(self, parent, child) vanished")
    parent, child = f.params[1], f.params[2]
    single = {}
    for x in walk_local(f.node):
        if isinstance(x, ast.Assign) and len(x.targets) == 1 and isinstance(x.targets[0], ast.Name):
            single.setdefault(x.targets[0].id, []).append(x.value)

    def expand(e, depth=0):
        """the expression with single-assignment locals replaced (as a list of all expressions it is built from)"""
        out = [e]
        if depth > 4:
            return out
        for y in ast.walk(e):
            if isinstance(y, ast.Name) and len(single.get(y.id, [])) == 1:
                out += expand(single[y.id][0], depth + 1)
        return out

    rets = [x.value for x in walk_local(f.node) if isinstance(x, ast.Return) and isinstance(x.value, ast.Tuple) and len(x.value.elts) == 2]
    if not rets:
        raise AnalysisError("DAO-PARTITION: partition_parent_child_relationships does not return a pair")
    first, second = rets[0].elts
    from_parent = lambda e: any(src(z) == f"{parent}.relationships" for y in expand(e) for z in ast.walk(y))
    from_child = lambda e: any(src(z) == f"{child}.relationships" for y in expand(e) for z in ast.walk(y))
    r.check(from_parent(first) and not from_child(first), "partition#parent-part", site(f), src(first), "the first part is the parent's relationships",
            "the first part is not the parent mapper's relationships")
    # the conditions that select the second part
    conds = []
    for y in expand(second):
        for z in ast.walk(y):
            if isinstance(z, (ast.ListComp, ast.GeneratorExp, ast.SetComp)):
                conds += [i for g in z.generators for i in g.ifs]
            if isinstance(z, ast.Call) and call_name(z) == "filter" and z.args:
                fn = z.args[0]
                conds.append(fn.body if isinstance(fn, ast.Lambda) else fn)
    def complement(c) -> bool:
        if isinstance(c, ast.UnaryOp) and isinstance(c.op, ast.Not) and isinstance(c.operand, ast.Compare) and len(c.operand.ops) == 1 and isinstance(c.operand.ops[0], ast.In):
            return from_parent(c.operand.comparators[0])
        return isinstance(c, ast.Compare) and len(c.ops) == 1 and isinstance(c.ops[0], ast.NotIn) and from_parent(c.comparators[0])
    ok = from_child(second) and bool(conds) and all(complement(c) for c in conds)
    bad = next((c for c in conds if not complement(c)), None)
    r.check(ok, "partition#child-part-is-the-complement", site(f, bad) if bad is not None else site(f), src(bad)[:80] if bad is not None else src(second)[:80],
            "the second part is every relationship of the child's mapper that is not among the parent's",
            f"the second part is selected by {src(bad)[:60] if bad is not None else 'something else than the complement'}: a relationship that an intermediate class declares (Car.engine "
            "for SportsCar(Car(Vehicle)) with Vehicle alternatively mapped) is in neither part, to_dao leaves it unset and the round trip gives None / []")
    return r


def dao_container(prog: Program) -> RuleResult:
    """'Collections with the same elements in the same order' and 'equal field values': the kind of collection a field declares has to survive
    the round trip. The reader rebuilds a collection as `type(<the DAO's collection>)(...)`, so the kind is whatever the generated
    relationship gives the DAO - and the generator has to derive that from the field's declared container (as it does for collections of
    builtins, stored as JSON). A generator that declares every collection relationship a List turns a Set[...] field into a list."""
    r = RuleResult("DAO-CONTAINER", "the declared container type of a collection of mapped objects survives the round trip", floor=1)
    wt = prog.cls("wrapped_table.WrappedTable")
    f = prog.lookup(wt.qual, "create_one_to_many_relationship")
    if f is None:
        raise AnalysisError("DAO-CONTAINER: WrappedTable.create_one_to_many_relationship vanished")
    consults = any(isinstance(x, ast.Attribute) and x.attr in ("container_type", "collection_class") for x in walk_local(f.node)) or any(
        isinstance(x, ast.Constant) and isinstance(x.value, str) and "collection_class" in x.value for x in walk_local(f.node))
    r.check(consults, "WrappedTable.create_one_to_many_relationship#container-type", site(f), "", "the relationship is declared with the field's own container type",
            "every collection relationship is generated as Mapped[List[...]] whatever the field declares: the DAO holds a list, from_dao rebuilds `type(value)(...)` = a list, and a "
            "field declared Set[Tag] comes back as a list (not equal to the set it was)")
    return r


def dao_init_in_place(prog: Program) -> RuleResult:
    """from_dao allocates the object first and memoises it, so that whatever is reconstructed meanwhile can refer to it; the constructor then
    runs *on that object*. A constructor may publish `self` (a container that sets item.container = self in __post_init__): run on a second
    instance whose state is copied over, it publishes the twin, and the reconstructed graph has two objects where the original has one."""
    r = RuleResult("DAO-INIT", "from_dao runs the constructor on the memoised instance itself", floor=1)
    dao = prog.cls(DAO + ".DataAccessObject")
    f = prog.lookup(dao.qual, "_call_initializer_or_assign")
    if f is None or len(f.params) < 2:
        raise AnalysisError("DAO-INIT: DataAccessObject._call_initializer_or_assign(self, result, init_args) vanished")
    res = f.params[1]
    inits = [c for c in calls_in(f.node) if isinstance(c.func, ast.Attribute) and c.func.attr == "__init__" and (
        (isinstance(c.func.value, ast.Name) and c.func.value.id == res) or (c.args and isinstance(c.args[0], ast.Name) and c.args[0].id == res))]
    twins = [c for c in calls_in(f.node) if (isinstance(c.func, ast.Call) and call_name(c.func) in ("type", "original_class") )
             or (isinstance(c.func, ast.Attribute) and c.func.attr == "__class__") or call_name(c) in ("copy", "deepcopy", "replace")]
    r.check(bool(inits) and not twins, "DataAccessObject._call_initializer_or_assign#on-the-memoised-instance", site(f, (twins or inits or [f.node])[0]), src((twins or inits)[0])[:80] if (twins or inits) else "",
            "result.__init__(**init_args) on the allocated object, no second instance",
            f"{src(twins[0])[:60] if twins else 'the constructor is not called on the allocated object'}: the constructor runs on another instance than the memoised one - a constructor that "
            "publishes self (ContainerGeneration.__post_init__: item.container = self) hands out the twin, and the items of the reconstructed container point to a second container")
    return r


def dao_alt_ancestor(prog: Program) -> RuleResult:
    """Writer and reader look for the alternatively mapped ancestor of a DAO class in the same place. to_dao scans the MRO (a grandparent may be
    the alternatively mapped one); a reader that only looks at the immediate base class takes nothing from the mapping two levels up, and the
    constructor arguments the mapping renames come back as their defaults."""
    r = RuleResult("DAO-ALT-ANCESTOR", "writer and reader find the alternatively mapped ancestor along the whole MRO", floor=2)
    dao = prog.cls(DAO + ".DataAccessObject")
    sides = {"writer": prog.lookup(dao.qual, "to_dao"), "reader": prog.lookup(dao.qual, "_build_base_kwargs_for_alternative_parent")}
    how = {}
    for side, f in sides.items():
        if f is None:
            raise AnalysisError(f"DAO-ALT-ANCESTOR: the {side} side vanished")
        attrs = {x.attr for x in walk_local(f.node) if isinstance(x, ast.Attribute)}
        how[side] = "mro" if "__mro__" in attrs or any(call_name(c) == "mro" for c in calls_in(f.node)) else "bases" if "__bases__" in attrs or "__base__" in attrs else "?"
    for side, f in sides.items():
        r.check(how[side] == "mro" or how["writer"] != "mro", f"from_dao/to_dao#{side}-scans-the-mro", site(f), how[side], "the alternatively mapped ancestor is looked for along the MRO",
                f"the {side} looks at {('the immediate base class only' if how[side] == 'bases' else 'something else than the MRO')} while the writer scans the MRO: for SportsCar(Car(Vehicle)) with Vehicle "
                "alternatively mapped by a mapping that renames a field, the value stored through the mapping is not handed to the constructor and the default comes back")
    # ... and both take the *nearest* one: with two alternatively mapped ancestors (SensorMapping <- CameraMapping above StereoCamera) the object
    # passes through the mapping of the nearest - the one whose DAO it inherits its columns from
    for side, f in sides.items():
        if how[side] != "mro":
            continue
        far = None
        for x in walk_local(f.node):
            if isinstance(x, ast.Call) and isinstance(x.func, ast.Attribute) and x.func.attr == "pop" and not x.args:
                far = far or x
            if isinstance(x, ast.Subscript) and isinstance(x.slice, ast.UnaryOp) and isinstance(x.slice.op, ast.USub) and isinstance(x.slice.operand, ast.Constant) and x.slice.operand.value == 1:
                far = far or x
            if isinstance(x, ast.Call) and isinstance(x.func, ast.Name) and x.func.id == "reversed" and x.args and "__mro__" in src(x.args[0]):
                far = far or x
        scans = [x for x in walk_local(f.node) if isinstance(x, (ast.For, ast.comprehension)) and "__mro__" in src(x.iter)]
        loops = [x for x in scans if isinstance(x, ast.For)]
        # a loop that records a match has to stop at it
        overwrites = None
        for lp in loops:
            stores = [y for y in ast.walk(lp) if isinstance(y, ast.Assign) and any(isinstance(t, ast.Name) for t in y.targets) and any(isinstance(z, ast.Name) and z.id == getattr(lp.target, "id", None) for z in ast.walk(y.value))]
            stops = [y for y in ast.walk(lp) if isinstance(y, (ast.Break, ast.Return))]
            if stores and not stops:
                overwrites = overwrites or stores[0]
        bad = far or overwrites
        r.check(bad is None, f"from_dao/to_dao#{side}-takes-the-nearest", site(f, bad) if bad is not None else site(f), src(bad)[:70] if bad is not None else f"{len(scans)} scan(s) of the MRO",
                "the first alternatively mapped ancestor along the MRO is taken",
                f"the {side} takes the last match of its MRO scan (`{src(bad)[:50] if bad is not None else ''}`): below two alternatively mapped ancestors the object is mapped through the root mapping "
                "while its DAO inherits the columns of the nearer one - to_dao reads a column the object does not have")
    # ... and what that ancestor's table stores is the storage of its *mapping*: a constructor argument the mapping keeps under its own name
    # (in another form) is read through the mapping for the classes below as well, never as the raw column
    reader = sides["reader"]
    takes = [x for x in walk_local(reader.node) if isinstance(x, ast.Assign) and any(isinstance(t, ast.Subscript) for t in x.targets) and isinstance(x.value, ast.Call) and call_name(x.value) == "getattr"
             and "base" in src(x.value.args[0])]
    par = parents_of(reader.node)
    ok = bool(takes)
    why = "the reader no longer takes arguments from the object the parent mapping rebuilt"
    for x in takes:
        cur, guards = x, []
        while cur in par:
            up = par[cur]
            if isinstance(up, ast.If) and any(cur is st or cur in ast.walk(st) for st in up.body):
                guards.append(up.test)
            cur = up
        for g in guards:
            for h in [y for y in ast.walk(g) if isinstance(y, ast.UnaryOp) and isinstance(y.op, ast.Not) and isinstance(y.operand, ast.Call) and call_name(y.operand) == "hasattr"]:
                # `not hasattr(self, argument)` alone lets the raw column win: it has to stand in a disjunction with "stored by the parent"
                ors = [b for b in ast.walk(g) if isinstance(b, ast.BoolOp) and isinstance(b.op, ast.Or) and h in b.values]
                if not any(any(isinstance(v, ast.Compare) and isinstance(v.ops[0], ast.In) for v in b.values) for b in ors):
                    ok, why = False, f"`{src(h)}` alone decides that the DAO's own attribute is used"
    fd = prog.lookup(dao.qual, "from_dao")
    merges = [x for x in walk_local(fd.node) if isinstance(x, ast.Dict) and len(x.keys) >= 2 and all(k is None for k in x.keys)]
    for m_ in merges:
        names_ = [src(v) for v in m_.values]
        if any("base" in n_ for n_ in names_) and "base" not in names_[-1]:
            ok, why = False, f"`{src(m_)}` lets the DAO's raw columns override what came through the mapping"
    r.check(ok, "from_dao#parent-storage-read-through-the-mapping", site(reader), "", "arguments the alternatively mapped parent stores are taken from the object its mapping rebuilt",
            f"{why}: for SubThing(Thing) below a ThingMapping that keeps `name` in another form under the same name, the stored form comes back as the name")
    return r


def _opt_truth(prog):
    # the conversion states are passed down optionally; `state or State()` must only ever replace None
    from .opttruth import opt_truth

    return opt_truth(prog, ["dao.FromDAOState", "dao.ToDAOState"], 3)


def _shared_default(prog):
    # a conversion state as a default argument would be shared by all conversions
    from .shareddefault import shared_default

    return shared_default(prog, ["ormatic.dao"], 30)


def _exact_dao(prog):
    # 'same concrete classes': an object of a class without a DAO of its own must not be stored as an instance of its mapped base
    from .c07 import sql_exact_dao

    return sql_exact_dao(prog)


def run(prog: Program, tier: str) -> List[RuleResult]:
    return [guard(lambda: idkey(prog)), guard(lambda: dao_order(prog)), guard(lambda: dao_direction(prog)), guard(lambda: dao_collect(prog)), guard(lambda: dao_window(prog)), guard(lambda: dao_value_truth(prog)), guard(lambda: dao_fresh(prog)), guard(lambda: _opt_truth(prog)), guard(lambda: _shared_default(prog)), guard(lambda: dao_args(prog)), guard(lambda: dao_kwargs(prog)), guard(lambda: dao_partition(prog)), guard(lambda: _exact_dao(prog)), guard(lambda: dao_container(prog)), guard(lambda: dao_init_in_place(prog)), guard(lambda: dao_alt_ancestor(prog))]
