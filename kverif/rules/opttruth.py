"""OPT-TRUTH - "was one given?" is asked with `is None`, or the class asked about has no truth value of its own.

`state = state or FromDAOState()` and `if self._quantification_constraint_:` are fine as long as instances of the class are always
truthy.  The moment the class (or a subclass) defines `__len__` or `__bool__` - the number of memoised objects, the width of a range -
an *empty / zero* object is taken for *no* object: the caller's state is replaced by a private one, the constraint is not enforced.
"""
from __future__ import annotations

import ast
from typing import List

from ..model import Program, AnalysisError, walk_local
from ..report import RuleResult
from ..astutil import src, site


def _truthy_positions(fn_node):
    for x in walk_local(fn_node):
        if isinstance(x, (ast.If, ast.While, ast.IfExp, ast.Assert)):
            yield x.test
        if isinstance(x, ast.comprehension):
            yield from x.ifs
        if isinstance(x, ast.BoolOp):
            yield from x.values[:-1] if True else ()
            if isinstance(x.op, ast.And):
                yield x.values[-1]
        if isinstance(x, ast.UnaryOp) and isinstance(x.op, ast.Not):
            yield x.operand


def opt_truth(prog: Program, class_suffixes: List[str], floor: int) -> RuleResult:
    r = RuleResult("OPT-TRUTH", "an object that is tested for presence by its truth has no truth value of its own", floor=floor)
    n = 0
    for sfx in class_suffixes:
        base = prog.cls(sfx)
        family = [base] + [c for c in prog.subclasses(base.qual, strict=True)]
        names = {c.name for c in family}
        # who gives instances a truth value?
        definers = []
        for c in family:
            for q in c.mro:
                k = prog.classes.get(q)
                if k is None:
                    continue
                for m in ("__len__", "__bool__"):
                    if m in k.methods and (k.name, m) not in definers:
                        definers.append((k.name, m))
        # expressions of that type: annotated parameters and annotated fields read through self
        typed_fields = set()
        for c in prog.classes.values():
            for an, fi in c.attrs.items():
                t = src(fi.annotation) if getattr(fi, "annotation", None) is not None else ""
                if any(nm in t.replace('"', " ").replace("'", " ").replace("[", " ").replace("]", " ").replace(",", " ").split() for nm in names):
                    typed_fields.add(an)
        for f in sorted(prog.functions.values(), key=lambda x: x.qual):
            if f.name in ("__repr__", "__str__"):
                continue  # presentation, not behaviour
            a = f.node.args
            typed_params = set()
            for p in a.posonlyargs + a.args + a.kwonlyargs:
                if p.annotation is not None:
                    t = src(p.annotation).replace('"', " ").replace("'", " ").replace("[", " ").replace("]", " ").replace(",", " ").split()
                    if any(nm in t for nm in names):
                        typed_params.add(p.arg)
            if not typed_params and not typed_fields:
                continue
            selfn = f.params[0] if (f.cls is not None and f.params) else None

            def of_type(e) -> bool:
                if isinstance(e, ast.Name):
                    return e.id in typed_params
                if isinstance(e, ast.Attribute) and isinstance(e.value, ast.Name) and selfn and e.value.id == selfn:
                    return e.attr in typed_fields
                return False

            tests = [t for t in _truthy_positions(f.node) if of_type(t)]
            # presence asked by identity is right whatever the class defines
            for k_, cmp_ in enumerate(sorted([x for x in walk_local(f.node) if isinstance(x, ast.Compare) and len(x.ops) == 1 and isinstance(x.ops[0], (ast.Is, ast.IsNot)) and of_type(x.left)
                                             and isinstance(x.comparators[0], ast.Constant) and x.comparators[0].value is None], key=lambda z: (z.lineno, z.col_offset))):
                n += 1
                r.ok(f"{f.short}#presence-by-identity[{k_}]:{base.name}", site(f, cmp_), src(cmp_), "asked with `is None`")
            for k_, t in enumerate(sorted(tests, key=lambda z: (z.lineno, z.col_offset))):
                n += 1
                r.check(not definers, f"{f.short}#presence-test[{k_}]:{base.name}", site(f, t), src(t),
                        f"instances of {base.name} are always truthy: the test can only mean 'one was given'",
                        f"`{src(t)}` is tested for its truth to find out whether a {base.name} was given, but {', '.join(f'{c}.{m}' for c, m in definers)} gives instances a truth value of "
                        f"their own: an empty / zero instance counts as 'none given' (a caller's fresh state is replaced by a private one; a constraint of width 0 is not enforced)")
    if n < floor:
        raise AnalysisError(f"OPT-TRUTH: only {n} presence tests found for {class_suffixes}")
    return r
