"""C10 - queries are lazy: building evaluates nothing, consuming pulls only what it needs.

LAZY-BUILD  on the construction closure, values that carry user data (domains, literals, comparator
            operands, predicate / match / call arguments, index keys) are only stored, wrapped
            lazily or probed for their type - never consumed, indexed, compared, truth-tested or
            dereferenced
LAZY-EVAL   on the evaluation closure, result streams and domains are only consumed by streaming
            constructs - never materialised (list/sorted/len/..., eager comprehensions,
            star-unpacking, itertools.product)
The exact prefix length consumed is not decided.
"""
from __future__ import annotations

import ast
from typing import Dict, List, Optional, Set, Tuple

from ..model import Program, AnalysisError, FuncInfo, ClassInfo, walk_local, dotted
from ..report import RuleResult, guard
from ..astutil import src, site, calls_in, call_name, is_self_attr, is_super_call
from ..callgraph import closure, resolve_call, Ctx
from .c03 import eval_closure

EXPLANATION = (
    "Two taint analyses over phase closures of the call graph. LAZY-BUILD: starting from the public construction API (seed "
    "table: which parameter of which builder carries user data, as RAW value or as a BOX of raw values such as *args/**kwargs) "
    "the taint is propagated through calls, dataclass construction and field reads; every use of a RAW value is classified - "
    "allowed: storing, passing on, isinstance/type/id/is/hasattr('__iter__'), wrapping in filter/map/generator expressions; "
    "forbidden: list/tuple/set/sorted/len/next/bool, eager comprehension or for-loop, subscripting, truth tests (if/not/and/or), "
    "==/in, attribute access. LAZY-EVAL: in every function of the evaluation closure, values known to be streams (child "
    "evaluations, generator helpers, domains, filter/map/generator expressions over streams, and containers of streams) may "
    "only flow into streaming constructs; eager sinks are reported, including a callee that feeds its parameter to "
    "itertools.product. A universal quantifier (it must see every value) and the() (it must see whether a second solution "
    "exists) are exempt by name with that reason. Changes of this kind leave every final result unchanged, which is why no "
    "result assertion can see them."
)
ASSUMPTIONS = [
    "seed table of user-data parameters of the public builders (kverif/rules/c10.py SEEDS), confirmed by reading entity.py, match.py, predicate.py, symbolic.py",
    "generator functions and generator expressions do not run until iterated; filter/map are lazy",
    "how long a prefix is consumed per result is not decided",
]

RAW, BOX = "raw", "box"
SCALAR = "raw-scalar"  # a user value known not to be iterable (is_iterable(x) was false)
LAZY = "lazy"  # a lazy stream over user data (generator expression / filter / map / a repo wrapper holding one): storing is fine, iterating pulls

# (function suffix, parameter) -> kind
SEEDS: Dict[Tuple[str, str], str] = {
    ("entity.let", "domain"): RAW,
    ("entity.in_", "item"): RAW, ("entity.in_", "container"): RAW,
    ("entity.contains", "item"): RAW, ("entity.contains", "container"): RAW,
    ("entity.flatten", "var"): RAW,
    ("entity.not_", "operand"): RAW,
    ("entity.and_", "conditions"): BOX, ("entity.or_", "conditions"): BOX,
    ("entity.entity", "properties"): BOX, ("entity.set_of", "properties"): BOX,
    ("entity.for_all", "condition"): RAW, ("entity.exists", "condition"): RAW,
    ("match.entity_matching", "domain"): RAW, ("match.entity_selection", "domain"): RAW,
    ("match.entity_matching", "type_"): RAW, ("match.entity_selection", "type_"): RAW,
    ("match.Match.__call__", "kwargs"): BOX,
    ("symbolic.Literal.__init__", "data"): RAW,
    ("symbolic.CanBehaveLikeAVariable.__eq__", "other"): RAW, ("symbolic.CanBehaveLikeAVariable.__ne__", "other"): RAW,
    ("symbolic.CanBehaveLikeAVariable.__lt__", "other"): RAW, ("symbolic.CanBehaveLikeAVariable.__le__", "other"): RAW,
    ("symbolic.CanBehaveLikeAVariable.__gt__", "other"): RAW, ("symbolic.CanBehaveLikeAVariable.__ge__", "other"): RAW,
    ("symbolic.CanBehaveLikeAVariable.__getitem__", "key"): RAW,
    ("symbolic.CanBehaveLikeAVariable.__call__", "args"): BOX, ("symbolic.CanBehaveLikeAVariable.__call__", "kwargs"): BOX,
    ("symbolic.SymbolicExpression.__and__", "other"): RAW, ("symbolic.SymbolicExpression.__or__", "other"): RAW,
    ("predicate.symbolic_function.<locals>.wrapper", "args"): BOX, ("predicate.symbolic_function.<locals>.wrapper", "kwargs"): BOX,
    ("predicate.Predicate.__new__", "args"): BOX, ("predicate.Predicate.__new__", "kwargs"): BOX,
}
# public dataclass constructors that take user data directly: (class suffix, field) -> kind; their __post_init__ (and the properties it
# reads, e.g. _name_ for the expression node) belong to the construction closure
FIELD_SEEDS = {("conclusion.Conclusion", "value"): RAW}
# builders that take krrood objects only: no user data enters through their parameters, but what they run is construction
ENTRIES = ["quantify_entity.an", "quantify_entity.the", "rule.refinement", "rule.alternative", "rule.next_rule", "entity.inference",
           "match.match", "match.match_any", "match.match_all", "match.select", "match.select_any", "match.select_all"]
# one named field, one reason
FIELD_EXEMPT = {
    ("match.Match", "type_"): "a Match that holds a literal object as type_ is created with its variable already set (entity_matching / "
                              "entity_selection), and only matches without a variable are ever resolved (AttributeAssignment.is_an_unresolved_match): "
                              "the truth tests on type_ in the resolving code see a class or None",
}
PROBES = {"isinstance", "type", "id", "callable", "issubclass", "repr"}
LAZY_WRAPPERS = {"filter", "map", "iter", "zip", "enumerate", "chain", "islice"}
CONSUMERS = {"list", "tuple", "set", "frozenset", "sorted", "len", "next", "sum", "min", "max", "any", "all", "bool", "dict", "hash", "str", "reversed"}


class BuildTaint:
    def __init__(self, prog: Program):
        self.prog = prog
        self.params: Dict[str, Dict[str, str]] = {}
        self.fields: Dict[Tuple[str, str], str] = {}  # (owner class qual, field name) -> kind
        self.sinks: Dict[Tuple[str, str], Tuple[FuncInfo, ast.AST, str]] = {}
        self.work: List[FuncInfo] = []
        self.analysed = 0
        self.reached: Set[str] = set()  # functions the construction closure reaches
        self.stream_fields: Set[Tuple[str, str]] = set()  # (owner class, field) holding a wrapper around a user stream
        self.wrapper_stores: Dict[str, FuncInfo] = {}  # methods of stream wrappers that store their argument

    def seed(self):
        for (fs, p), k in SEEDS.items():
            f = self.prog.functions.get(next((q for q in self.prog.functions if q.endswith("." + fs)), ""), None)
            if f is None:
                raise AnalysisError(f"LAZY-BUILD: seed builder {fs} vanished")
            allp = f.params + ([f.node.args.vararg.arg] if f.node.args.vararg else []) + ([f.node.args.kwarg.arg] if f.node.args.kwarg else [])
            if p not in allp:
                raise AnalysisError(f"LAZY-BUILD: builder {fs} has no parameter {p}")
            self.taint_param(f, p, k)
        for (cs, fld), k in FIELD_SEEDS.items():
            cq = next((q for q in self.prog.classes if q.endswith("." + cs)), None)
            if cq is None or self.prog.lookup_attr(cq, fld) is None:
                raise AnalysisError(f"LAZY-BUILD: seed field {cs}.{fld} vanished")
            self.add_field(cq, fld, k)
            for sc in self.prog.subclasses(cq):
                for mname in ("__post_init__",):
                    m = self.prog.lookup(sc.qual, mname)
                    if m is not None and m not in self.work:
                        self.work.append(m)
        for fs in ENTRIES:
            f = self.prog.functions.get(next((q for q in self.prog.functions if q.endswith("." + fs)), ""), None)
            if f is None:
                raise AnalysisError(f"LAZY-BUILD: builder {fs} vanished")
            if f not in self.work:
                self.work.append(f)

    def taint_param(self, f: FuncInfo, p: str, kind: str):
        cur = self.params.setdefault(f.qual, {})
        rank = {None: 0, LAZY: 1, BOX: 2, SCALAR: 3, RAW: 4}
        if rank.get(cur.get(p), 0) >= rank.get(kind, 0):
            return
        cur[p] = kind
        if f not in self.work:
            self.work.append(f)

    def run(self):
        self.seed()
        n = 0
        while self.work and n < 2000:
            f = self.work.pop()
            n += 1
            nf = dict(self.fields)
            self.analyse(f)
            if self.fields != nf:
                # a new tainted field: re-analyse methods that read it
                names = {n for _, n in self.fields}
                for g in self.prog.functions.values():
                    if ".entity_query_language." in g.qual and g.cls is not None and g.qual in self.reached and any(isinstance(x, ast.Attribute) and x.attr in names for x in walk_local(g.node)):
                        if g not in self.work:
                            self.work.append(g)
        self.analysed = n

    # ---- per function ---------------------------------------------------------------------
    def field_kind(self, cls_qual: Optional[str], name: str) -> Optional[str]:
        if cls_qual is None:
            return None
        fi = self.prog.lookup_attr(cls_qual, name)
        if fi is not None and (fi.owner, name) in self.fields:
            return self.fields[(fi.owner, name)]
        for c in self.prog.subclasses(cls_qual):
            if (c.qual, name) in self.fields:
                return self.fields[(c.qual, name)]
        return None

    def static_type(self, f: FuncInfo, e: ast.expr) -> Optional[str]:
        """repo class an expression denotes (self, self.field by annotation)"""
        if isinstance(e, ast.Name) and f.cls is not None and f.params and e.id == f.params[0]:
            return f.cls.qual
        if isinstance(e, ast.Name):
            # a local bound once to a constructor call, or a parameter annotated with a repo class
            cons = [x.value for x in walk_local(f.node) if isinstance(x, ast.Assign) and any(isinstance(t, ast.Name) and t.id == e.id for t in x.targets)]
            if len(cons) == 1 and isinstance(cons[0], ast.Call):
                q = f.module.resolve(cons[0].func)
                if q in self.prog.classes:
                    return q
            if not cons:
                for a in f.node.args.args + f.node.args.kwonlyargs:
                    if a.arg == e.id and a.annotation is not None:
                        ann = a.annotation
                        if isinstance(ann, ast.Constant) and isinstance(ann.value, str):
                            try:
                                ann = ast.parse(ann.value, mode="eval").body
                            except SyntaxError:
                                return None
                        q = f.module.resolve(ann) if isinstance(ann, (ast.Name, ast.Attribute)) else None
                        if q in self.prog.classes:
                            return q
            return None
        if isinstance(e, ast.Attribute):
            b = self.static_type(f, e.value)
            if b:
                t = self.prog.field_type(b, e.attr)
                return t if t in self.prog.classes else None
        return None

    def wraps_user_stream(self, f: FuncInfo, e: ast.expr) -> bool:
        """e is a field known to hold a repo wrapper (an iterable class) into which the construction code put a user stream:
        the field was the receiver of a wrapper method that stored a tainted argument (self._domain_.set_iterable(domain)), or
        was assigned such a value. HashedIterable is also used for sets of variables, so this is decided per field, not per class."""
        if isinstance(e, ast.Attribute):
            t = self.static_type(f, e.value)
            if t is not None:
                fi = self.prog.lookup_attr(t, e.attr)
                owner = fi.owner if fi is not None else t
                return (owner, e.attr) in self.stream_fields
        return False

    def note_wrapper_store(self, f: FuncInfo, c: ast.Call, ks, kws):
        """self.<field>.<method>(tainted ...) where the method stores its argument in the wrapper: <field> holds a user stream"""
        fn = c.func
        if not (isinstance(fn, ast.Attribute) and isinstance(fn.value, ast.Attribute)):
            return
        if not any(k in (RAW, BOX, SCALAR, LAZY) for k in list(ks) + list(kws.values())):
            return
        recv = fn.value
        t = self.static_type(f, recv.value)
        wt = self.static_type(f, recv)
        if t is None or wt is None or self.prog.lookup(wt, "__iter__") is None:
            return
        m = self.prog.lookup(wt, fn.attr)
        if m is None:
            return
        stores = any(isinstance(x, (ast.Assign, ast.AnnAssign)) and any(is_self_attr(tt) for tt in (x.targets if isinstance(x, ast.Assign) else [x.target]))
                     for x in walk_local(m.node))
        if stores:
            self.wrapper_stores[m.qual] = m
            fi = self.prog.lookup_attr(t, recv.attr)
            key = (fi.owner if fi is not None else t, recv.attr)
            if key not in self.stream_fields:
                self.stream_fields.add(key)
                self.requeue_readers(recv.attr)

    def requeue_readers(self, name: str):
        for g in self.prog.functions.values():
            if g.qual in self.reached and g not in self.work and any(isinstance(x, ast.Attribute) and x.attr == name for x in walk_local(g.node)):
                self.work.append(g)

    def draining_member(self, wt: str, name: str) -> Optional[str]:
        """the wrapper's member `name` (method or property, not a generator) iterates the wrapper or a field of it"""
        m = self.prog.lookup(wt, name)
        if m is None or m.is_generator:
            return None
        for x in walk_local(m.node):
            it = None
            if isinstance(x, ast.For):
                it = x.iter
            elif isinstance(x, (ast.ListComp, ast.SetComp, ast.DictComp)):
                it = x.generators[0].iter
            elif isinstance(x, ast.Call) and isinstance(x.func, ast.Name) and x.func.id in CONSUMERS and x.args and x.func.id not in ("bool", "hash", "str", "len"):
                it = x.args[0]
            if it is not None and ((isinstance(it, ast.Name) and it.id == "self") or (is_self_attr(it) and it.attr in ("iterable",))):
                return f"{m.short} iterates {src(it)}"
        return None

    def follow_property(self, f: FuncInfo, e: ast.Attribute):
        """a read of a property runs its getter now: the getter belongs to the construction closure"""
        t = self.static_type(f, e.value)
        getters = []
        if t is not None:
            for c in [self.prog.classes[t]] + list(self.prog.subclasses(t, strict=True)):
                g = self.prog.lookup(c.qual, e.attr)
                if g is not None and g.is_property:
                    getters.append(g)
        elif not e.attr.startswith("__"):
            # receiver of unknown static type: resolve by name over the package (as the call graph does for methods)
            for g in self.prog.functions.values():
                if g.name == e.attr and g.cls is not None and g.is_property and ".entity_query_language." in g.qual:
                    getters.append(g)
        for g in getters:
            if g.qual not in self.reached and g not in self.work and not g.is_generator:
                self.work.append(g)

    def analyse(self, f: FuncInfo):
        self.reached.add(f.qual)
        self._cur = f
        env: Dict[str, str] = dict(self.params.get(f.qual, {}))
        self.block(f, f.node.body, env)

    def kind(self, f: FuncInfo, e: ast.expr, env) -> Optional[str]:
        if isinstance(e, ast.Name):
            k = env.get(e.id) or None
            return RAW if k == SCALAR else k
        if isinstance(e, ast.Starred):
            return self.kind(f, e.value, env)
        if isinstance(e, ast.Attribute):
            key = src(e)
            if key in env:
                return env[key] or None
            b = self.kind(f, e.value, env)
            if b == RAW:
                # krrood's protocol attributes (_name_) exist on expressions only: such a read is not a touch of user data
                if not (e.attr.startswith("_") and e.attr.endswith("_")):
                    self.sink(f, e, f"attribute .{e.attr} of a user value is read")
                return None
            if b == BOX and e.attr in ("items", "values", "keys"):
                return BOX
            if b == BOX and e.attr in ("start", "stop", "step"):
                return RAW  # the bounds of a builtin slice: reading them runs nothing, what is read is user data again
            if not isinstance(e.ctx, ast.Store):
                self.follow_property(f, e)
                if self.wraps_user_stream(f, e.value):
                    wt = self.static_type(f, e.value)
                    m = self.prog.lookup(wt, e.attr) if wt else None
                    if m is not None and m.is_property:
                        d = self.draining_member(wt, e.attr)
                        if d:
                            self.sink(f, e, f"a lazily wrapped user iterable is drained ({d})")
                fk = self.field_kind(self.static_type(f, e.value), e.attr)
                return RAW if fk == SCALAR else fk
            return None
        if isinstance(e, ast.Subscript):
            b = self.kind(f, e.value, env)
            if b == RAW:
                self.sink(f, e, "a user value is indexed")
                return None
            if b == BOX:
                return RAW
            if self.wraps_user_stream(f, e.value):
                d = self.draining_member(self.static_type(f, e.value), "__getitem__")
                if d:
                    self.sink(f, e, f"a lazily wrapped user iterable is searched ({d})")
            return None
        if isinstance(e, (ast.List, ast.Tuple, ast.Set)):
            ks = [self.kind(f, x, env) for x in e.elts]
            return BOX if any(k in (RAW, BOX) for k in ks) else None
        if isinstance(e, ast.Dict):
            ks = [self.kind(f, v, env) for v in e.values]
            return BOX if any(k in (RAW, BOX) for k in ks) else None
        if isinstance(e, ast.IfExp):
            self.truth(f, e.test, env)
            # the same refinements as for an if statement
            e1, e2 = dict(env), dict(env)
            pos, neg = self.refinements(f, e.test)
            for k in pos:
                e1[k] = ""
            for k in neg:
                e2[k] = ""
            pt = self.plain_container_test(e.test)
            if pt is not None and env.get(pt) in (RAW, SCALAR):
                e1[pt] = BOX
            bs = self.builtin_scalar_test(e.test)
            if bs is not None and env.get(bs[0]) in (RAW, SCALAR):
                (e1 if bs[1] else e2)[bs[0]] = ""
            it = self.iterable_test(e.test)
            dead_body = dead_else = False
            if it is not None:
                name, positive = it
                if env.get(name) == SCALAR:
                    dead_body, dead_else = positive, not positive
                elif env.get(name) == RAW:
                    (e2 if positive else e1)[name] = SCALAR
            a = None if dead_body else self.kind(f, e.body, e1)
            b = None if dead_else else self.kind(f, e.orelse, e2)
            return a or b
        if isinstance(e, ast.BoolOp):
            ks = []
            for i, v in enumerate(e.values):
                k = self.kind(f, v, env)
                ks.append(k)
                if i < len(e.values) - 1:
                    self.truth(f, v, env, evaluated=k)
            return next((k for k in ks if k), None)
        if isinstance(e, ast.UnaryOp):
            if isinstance(e.op, ast.Not):
                self.truth(f, e.operand, env)
                return None
            return self.kind(f, e.operand, env)
        if isinstance(e, ast.Compare):
            ops = e.ops
            vals = [e.left] + e.comparators
            ks = [self.kind(f, v, env) for v in vals]
            for op, a, b in zip(ops, ks, ks[1:]):
                if isinstance(op, (ast.Is, ast.IsNot)):
                    continue
                if RAW in (a, b):
                    self.sink(f, e, "a user value is compared (== / in / <) while the query is built")
            return None
        if isinstance(e, ast.BinOp):
            a, b = self.kind(f, e.left, env), self.kind(f, e.right, env)
            if RAW in (a, b):
                self.sink(f, e, "an operator is applied to a user value")
            return BOX if BOX in (a, b) else None
        if isinstance(e, ast.GeneratorExp):
            env2 = dict(env)
            lazy = False
            for g in e.generators:
                k = self.kind(f, g.iter, env2)
                lazy = lazy or k in (RAW, LAZY, BOX, SCALAR) or self.wraps_user_stream(f, g.iter)
                self.bind(g.target, RAW if k in (RAW, BOX) else None, env2)
            return LAZY if lazy else None  # lazy: the body runs at evaluation time
        if isinstance(e, (ast.ListComp, ast.SetComp, ast.DictComp)):
            env2 = dict(env)
            out = None
            for g in e.generators:
                k = self.kind(f, g.iter, env2)
                if k == RAW:
                    self.sink(f, e, "a user iterable is iterated eagerly (comprehension)")
                elif k == LAZY or self.wraps_user_stream(f, g.iter):
                    self.sink(f, e, "a lazily wrapped user iterable is drained (comprehension)")
                self.bind(g.target, RAW if k in (RAW, BOX) else None, env2)
                for c in g.ifs:
                    self.truth(f, c, env2)
            elt = e.value if isinstance(e, ast.DictComp) else e.elt
            k = self.kind(f, elt, env2)
            if isinstance(e, ast.DictComp):
                self.kind(f, e.key, env2)
            return BOX if k in (RAW, BOX) else None
        if isinstance(e, ast.Lambda):
            return None
        if isinstance(e, ast.JoinedStr):
            for v in e.values:
                if isinstance(v, ast.FormattedValue) and self.kind(f, v.value, env) == RAW:
                    self.sink(f, e, "a user value is formatted (__str__/__format__)")
            return None
        if isinstance(e, ast.Call):
            return self.call(f, e, env)
        return None

    def refinements(self, f, test) -> Tuple[Set[str], Set[str]]:
        """(names known to be krrood objects when the test is true, ... when it is false)"""
        pos, neg = set(), set()
        t = test
        negate = False
        while isinstance(t, ast.UnaryOp) and isinstance(t.op, ast.Not):
            negate = not negate
            t = t.operand
        if isinstance(t, ast.Call) and isinstance(t.func, ast.Name) and t.func.id == "isinstance" and len(t.args) == 2:
            types = t.args[1].elts if isinstance(t.args[1], ast.Tuple) else [t.args[1]]
            qs = [f.module.resolve(x) for x in types]
            if all(q in self.prog.classes or q == "ext:builtins.type" for q in qs):
                (neg if negate else pos).add(src(t.args[0]))
        elif isinstance(t, ast.BoolOp) and isinstance(t.op, ast.And) and not negate:
            for v in t.values:
                p2, _ = self.refinements(f, v)
                pos |= p2
        elif isinstance(t, ast.BoolOp) and isinstance(t.op, ast.Or) and negate:
            pass
        return pos, neg

    @staticmethod
    def plain_container_test(test) -> Optional[str]:
        if isinstance(test, ast.Compare) and len(test.ops) == 1 and isinstance(test.left, ast.Call) and isinstance(test.left.func, ast.Name) and test.left.func.id == "type" \
                and len(test.left.args) == 1 and isinstance(test.left.args[0], ast.Name) and isinstance(test.ops[0], (ast.In, ast.Is, ast.Eq)):
            rhs = test.comparators[0]
            names = [x.id for x in (rhs.elts if isinstance(rhs, (ast.Tuple, ast.List, ast.Set)) else [rhs]) if isinstance(x, ast.Name)]
            # an exact builtin slice is a box of its three bounds (which may be user objects)
            if names and all(n in ("list", "tuple", "dict", "set", "frozenset", "slice") for n in names):
                return test.left.args[0].id
        return None

    @staticmethod
    def builtin_scalar_test(test) -> Optional[Tuple[str, bool]]:
        """type(x) in (int, str, ...) / type(x) not in (...): (x, polarity). An exact builtin scalar runs no user code when it is
        formatted, compared or hashed."""
        if isinstance(test, ast.Compare) and len(test.ops) == 1 and isinstance(test.left, ast.Call) and isinstance(test.left.func, ast.Name) and test.left.func.id == "type" \
                and len(test.left.args) == 1 and isinstance(test.left.args[0], ast.Name) and isinstance(test.ops[0], (ast.In, ast.NotIn, ast.Is, ast.IsNot)):
            rhs = test.comparators[0]
            elts = rhs.elts if isinstance(rhs, (ast.Tuple, ast.List, ast.Set)) else [rhs]
            names = [x.id for x in elts if isinstance(x, ast.Name)]
            if names and len(names) == len(elts) and all(n in ("int", "str", "float", "bool", "bytes", "complex") for n in names):
                return test.left.args[0].id, isinstance(test.ops[0], (ast.In, ast.Is))
        return None

    @staticmethod
    def iterable_test(test) -> Optional[Tuple[str, bool]]:
        t, positive = test, True
        while isinstance(t, ast.UnaryOp) and isinstance(t.op, ast.Not):
            positive = not positive
            t = t.operand
        if isinstance(t, ast.Call) and isinstance(t.func, ast.Name) and t.func.id == "is_iterable" and len(t.args) == 1 and isinstance(t.args[0], ast.Name):
            return t.args[0].id, positive
        return None

    def truth(self, f, e, env, evaluated=None):
        k = evaluated if evaluated is not None else self.kind(f, e, env)
        if k == RAW:
            self.sink(f, e, "the truth value of a user value is taken (__bool__/__len__)")

    def call(self, f: FuncInfo, c: ast.Call, env) -> Optional[str]:
        name = call_name(c)
        args = list(c.args)
        def keep(a):
            k = self.kind(f, a, env)
            if isinstance(a, ast.Name) and env.get(a.id) == SCALAR:
                return SCALAR
            if isinstance(a, ast.Attribute) and k == RAW and self.field_kind(self.static_type(f, a.value), a.attr) == SCALAR:
                return SCALAR
            return k

        ks = [keep(a) for a in args]
        kws = {k.arg: keep(k.value) for k in c.keywords}
        fn = c.func
        self.note_wrapper_store(f, c, ks, kws)
        if isinstance(fn, ast.Attribute) and self.wraps_user_stream(f, fn.value):
            d = self.draining_member(self.static_type(f, fn.value), fn.attr)
            if d:
                self.sink(f, c, f"a lazily wrapped user iterable is drained ({d})")
        if isinstance(fn, ast.Name) and fn.id in PROBES:
            return None
        if isinstance(fn, ast.Name) and fn.id == "hasattr":
            return None
        if isinstance(fn, ast.Name) and fn.id in LAZY_WRAPPERS:
            return LAZY if any(k in (RAW, LAZY) for k in ks) or any(self.wraps_user_stream(f, a) for a in args) else None
        if isinstance(fn, ast.Name) and fn.id in CONSUMERS and args and isinstance(args[0], ast.GeneratorExp):
            # a generator expression handed to a consumer runs now: analyse it as an eager comprehension
            ge = args[0]
            self.kind(f, ast.ListComp(elt=ge.elt, generators=ge.generators), env)
            return None
        if isinstance(fn, ast.Name) and fn.id in CONSUMERS:
            if ks and ks[0] in (RAW, SCALAR):
                self.sink(f, c, f"{fn.id}() consumes / touches a user value")
                return None
            if fn.id not in ("bool", "hash", "str") and ((ks and ks[0] == LAZY) or (args and self.wraps_user_stream(f, args[0]))):
                self.sink(f, c, f"{fn.id}() pulls from a lazily wrapped user iterable")
                return None
            return BOX if ks and ks[0] == BOX else None
        if isinstance(fn, ast.Attribute):
            bk = self.kind(f, fn.value, env)
            if bk == RAW and not (fn.attr.startswith("__") and fn.attr.endswith("__")):
                return None  # already reported by the attribute read
        targets = resolve_call(self.prog, Ctx(f, f.cls.qual if f.cls is not None else None), c)
        if is_super_call(c) and f.cls is not None:
            t = self.prog.lookup_super(f.cls.qual, f.cls.qual, c.func.attr)
            targets = [t] if t is not None else []
        if not any(isinstance(t, FuncInfo) for t in targets) and isinstance(fn, ast.Attribute) and not is_super_call(c):
            rt = self.static_type(f, fn.value)
            if rt is not None:
                targets = [m for m in (self.prog.lookup(sc.qual, fn.attr) for sc in self.prog.subclasses(rt)) if m is not None]
                targets = list({t.qual: t for t in targets}.values())
            elif self.kind(f, fn.value, env) is None and not fn.attr.startswith("__") and not (fn.attr.startswith("_") and fn.attr.endswith("__")):
                # receiver of unknown static type: resolve by name over the package (as the call graph does)
                targets = [g for g in self.prog.functions.values() if g.name == fn.attr and g.cls is not None and ".entity_query_language." in g.qual]
        res = None
        for t in targets:
            if not isinstance(t, FuncInfo):
                continue
            if t.qual not in self.reached and t not in self.work and ".entity_query_language." in t.qual and not t.is_generator:
                self.work.append(t)  # part of the construction closure: it may read tainted fields
            params = t.params[1:] if (t.cls is not None and not t.is_staticmethod and t.name not in ("__new__",)) else t.params
            if t.name == "__new__":
                params = t.params[1:]
            pos = 0
            for a, k in zip(args, ks):
                if isinstance(a, ast.Starred):
                    if k in (RAW, BOX) and t.node.args.vararg:
                        self.taint_param(t, t.node.args.vararg.arg, BOX)
                    continue
                if k in (RAW, BOX, SCALAR):
                    if pos < len(params):
                        self.taint_param(t, params[pos], k)
                    elif t.node.args.vararg:
                        self.taint_param(t, t.node.args.vararg.arg, BOX)
                elif k == LAZY and pos < len(params):
                    # a lazily produced user stream handed to a helper: the helper must leave it lazy as well
                    self.taint_param(t, params[pos], LAZY)
                pos += 1
            for kn, k in kws.items():
                if k in (RAW, BOX, SCALAR):
                    if kn is None:
                        if t.node.args.kwarg:
                            self.taint_param(t, t.node.args.kwarg.arg, BOX)
                    elif kn in t.params:
                        self.taint_param(t, kn, k)
                    elif t.node.args.kwarg:
                        self.taint_param(t, t.node.args.kwarg.arg, BOX)
            if t.cls is None and not t.is_generator:
                # helper returning (a container of) its argument keeps the taint
                for r in [n for n in walk_local(t.node) if isinstance(n, ast.Return) and n.value is not None]:
                    for pn in t.params:
                        if any(isinstance(x, ast.Name) and x.id == pn for x in ast.walk(r.value)) and self.params.get(t.qual, {}).get(pn):
                            res = BOX if not (isinstance(r.value, ast.Name)) else self.params[t.qual][pn]
        # dataclass construction: fields receive the arguments
        q = f.module.resolve(fn) if isinstance(fn, (ast.Name, ast.Attribute)) else None
        if q in self.prog.classes:
            ci = self.prog.classes[q]
            if "__init__" not in [m for cq in self.prog.mro(q) if cq in self.prog.classes for m in self.prog.classes[cq].methods]:
                flds = [n for n, fi in self.prog.fields(q).items() if not fi.is_classvar and fi.in_init]
                kw_only = [n for n, fi in self.prog.fields(q).items() if fi.field_kw("kw_only") is not None]
                pos_flds = [n for n in flds if n not in kw_only]
                for i, k in enumerate(ks):
                    if k in (RAW, BOX, SCALAR) and i < len(pos_flds):
                        self.add_field(q, pos_flds[i], k)
                for kn, k in kws.items():
                    if k in (RAW, BOX, SCALAR) and kn:
                        self.add_field(q, kn, k)
                for m in ("__post_init__",):
                    t = self.prog.lookup(q, m)
                    if t is not None and t not in self.work:
                        self.work.append(t)
            return None
        return res

    def add_field(self, cls_qual: str, name: str, kind: str):
        fi = self.prog.lookup_attr(cls_qual, name)
        key = (fi.owner if fi is not None else cls_qual, name)
        if any(key[0].endswith("." + c) and key[1] == n for c, n in FIELD_EXEMPT):
            return
        rank = {None: 0, LAZY: 1, BOX: 2, SCALAR: 3, RAW: 4}
        if rank.get(self.fields.get(key), 0) < rank.get(kind, 0):
            self.fields[key] = kind

    def bind(self, t, k, env):
        if isinstance(t, ast.Name):
            if k:
                env[t.id] = k
            elif t.id in env and not k:
                pass
        elif isinstance(t, (ast.Tuple, ast.List)):
            for x in t.elts:
                self.bind(x, k, env)
        elif isinstance(t, ast.Attribute) and isinstance(t.value, ast.Name) and t.value.id == "self" and k and self._cur.cls is not None:
            self.add_field(self._cur.cls.qual, t.attr, k)
            if k == LAZY:
                fi = self.prog.lookup_attr(self._cur.cls.qual, t.attr)
                key = (fi.owner if fi is not None else self._cur.cls.qual, t.attr)
                if key not in self.stream_fields:
                    self.stream_fields.add(key)
                    self.requeue_readers(t.attr)
        elif isinstance(t, ast.Subscript) and k and isinstance(t.value, ast.Attribute) and isinstance(t.value.value, ast.Name) and t.value.value.id == "self" and self._cur.cls is not None:
            self.add_field(self._cur.cls.qual, t.value.attr, BOX)
        elif isinstance(t, ast.Subscript) and k and isinstance(t.value, ast.Name):
            env[t.value.id] = BOX

    def block(self, f, stmts, env):
        for s in stmts:
            if isinstance(s, ast.Assign):
                k = self.kind(f, s.value, env)
                for t in s.targets:
                    if isinstance(t, ast.Name) and not k:
                        env[t.id] = ""  # reassigned to a clean value
                    self.bind(t, k, env)
            elif isinstance(s, ast.AnnAssign) and s.value is not None:
                self.bind(s.target, self.kind(f, s.value, env), env)
            elif isinstance(s, ast.AugAssign):
                self.kind(f, s.value, env)
            elif isinstance(s, ast.Expr):
                self.kind(f, s.value, env)
            elif isinstance(s, ast.Return):
                if s.value is not None:
                    self.kind(f, s.value, env)
            elif isinstance(s, ast.If):
                self.truth(f, s.test, env)
                pos, neg = self.refinements(f, s.test)
                e1 = dict(env)
                for k in pos:
                    e1[k] = ""
                e2 = dict(env)
                for k in neg:
                    e2[k] = ""
                # type(x) in (list, tuple) / type(x) is list: x is a builtin container (its own len/indexing run no user code)
                pt = self.plain_container_test(s.test)
                if pt is not None and env.get(pt) in (RAW, SCALAR):
                    e1[pt] = BOX
                bs = self.builtin_scalar_test(s.test)
                if bs is not None and env.get(bs[0]) in (RAW, SCALAR):
                    (e1 if bs[1] else e2)[bs[0]] = ""
                # is_iterable(x): on the false side x is a non-iterable user value; a known scalar kills the true side
                it = self.iterable_test(s.test)
                dead_body = dead_else = False
                if it is not None:
                    name, positive = it
                    if env.get(name) == SCALAR:
                        dead_body, dead_else = positive, not positive
                    elif env.get(name) == RAW:
                        (e2 if positive else e1)[name] = SCALAR
                if not dead_body:
                    self.block(f, s.body, e1)
                else:
                    e1 = None
                if not dead_else:
                    self.block(f, s.orelse, e2)
                else:
                    e2 = None
                if e1 is None or e2 is None:
                    live = e1 if e1 is not None else e2
                    env.clear()
                    env.update(live or {})
                    continue
                ends1 = bool(s.body) and isinstance(s.body[-1], (ast.Return, ast.Raise, ast.Continue, ast.Break))
                # names the positive branch re-assigns to something clean are clean afterwards when the test was `not isinstance`
                rank = {"": 0, None: 0, LAZY: 1, BOX: 2, SCALAR: 3, RAW: 4}
                for k in set(e1) | set(e2):
                    a, b = e1.get(k), e2.get(k)
                    if ends1:
                        env[k] = b if b is not None else env.get(k)
                    else:
                        env[k] = a if rank.get(a, 0) >= rank.get(b, 0) else b
                for k in list(env):
                    if env[k] is None:
                        env.pop(k)
            elif isinstance(s, ast.While):
                self.truth(f, s.test, env)
                self.block(f, s.body, env)
            elif isinstance(s, ast.For):
                k = self.kind(f, s.iter, env)
                if k == RAW:
                    self.sink(f, s.iter, "a user iterable is iterated while the query is built")
                elif k == LAZY or self.wraps_user_stream(f, s.iter):
                    self.sink(f, s.iter, "a lazily wrapped user iterable is iterated while the query is built")
                self.bind(s.target, RAW if k in (RAW, BOX) else None, env)
                self.block(f, s.body, env)
                self.block(f, s.body, env)
                self.block(f, s.orelse, env)
            elif isinstance(s, ast.Try):
                self.block(f, s.body, env)
                for h in s.handlers:
                    self.block(f, h.body, env)
                self.block(f, s.orelse, env)
                self.block(f, s.finalbody, env)
            elif isinstance(s, ast.With):
                for i in s.items:
                    self.kind(f, i.context_expr, env)
                self.block(f, s.body, env)
            elif isinstance(s, ast.Raise) and s.exc is not None:
                self.kind(f, s.exc, env)

    def sink(self, f: FuncInfo, node: ast.AST, why: str):
        key = (f.short, why.split(" (")[0])
        self.sinks.setdefault(key, (f, node, why))


def lazy_build(prog: Program) -> RuleResult:
    r = RuleResult("LAZY-BUILD", "construction never consumes, probes beyond its type, or dereferences user data", floor=10)
    bt = BuildTaint(prog)
    bt.run()
    fns = sorted(bt.params)
    if len(fns) < 15:
        raise AnalysisError(f"LAZY-BUILD: taint reached only {len(fns)} functions")
    by_func: Dict[str, List] = {}
    for (fs, why), (f, node, w) in bt.sinks.items():
        by_func.setdefault(fs, []).append((f, node, w))
    for q in fns:
        f = prog.functions[q]
        hits = by_func.get(f.short, [])
        if not hits:
            r.ok(f"{f.short}#user-data-untouched", site(f), f"tainted parameters {bt.params[q]}", "user data is only stored, wrapped lazily or type-probed")
    for fs, hits in sorted(by_func.items()):
        f = hits[0][0]
        detail = "; ".join(sorted({f"{w} [{src(n)[:50]}]" for _, n, w in hits}))
        r.fail(f"{fs}#touches-user-data", site(f, hits[0][1]), src(hits[0][1])[:120],
               f"while the query is being built: {detail}")
    r.note(f"taint reached {len(fns)} functions and fields {sorted(c.split('.')[-1] + '.' + n for c, n in bt.fields)}")
    return r


def stream_lazy(prog: Program) -> RuleResult:
    """shared by C10 (building a query consumes nothing) and C20 (a query that was only built pins nothing)"""
    r = RuleResult("STREAM-LAZY", "a user stream handed to a lazy wrapper is stored, not pulled from", floor=1)
    bt = BuildTaint(prog)
    bt.run()
    if not bt.wrapper_stores:
        raise AnalysisError("STREAM-LAZY: no method through which a user stream enters a lazy wrapper was found (HashedIterable.set_iterable is the confirmed instance)")
    # The methods through which a user stream is put into a lazy wrapper (HashedIterable.set_iterable ...) are analysed once more with their
    # argument taken for what it may be in the worst case: a one-shot, lazily produced stream.  (The main pass keeps one kind per field and a
    # scalar domain out-ranks a lazy one there.)  Storing it, or wrapping it in a generator whose *first* iterable it is, keeps it lazy;
    # list(...), make_list(...), sorted(...) of it - also as the first iterable of a generator expression, which is evaluated when the
    # expression is created - pulls everything while the query is still being built and keeps strong references to all of it.
    eager_helpers = _eager_params(prog)
    # ... and the functions in front of them: one that hands a parameter of its own on to such a method (Variable._update_domain_ ->
    # HashedIterable.set_iterable) is judged on that parameter alike - `domain = iter(tuple(domain))` before the hand-over reads the instances
    # of a domain-less variable when let(...) runs, not when the query is evaluated
    targets = {q: (m, set(m.params[1:] if m.cls is not None else m.params)) for q, m in bt.wrapper_stores.items()}
    for _ in range(2):
        names = {m.name for m, _p in targets.values()}
        for f in sorted(prog.functions.values(), key=lambda x: x.qual):
            if f.qual in targets or ".entity_query_language." not in f.qual:
                continue
            own = set(f.params[1:] if f.cls is not None else f.params)
            fed = set()
            for c_ in calls_in(f.node):
                if call_name(c_) in names and isinstance(c_.func, ast.Attribute):
                    fed |= {a_.id for a_ in c_.args if isinstance(a_, ast.Name) and a_.id in own}
            if fed:
                targets[f.qual] = (f, fed)
    for q, (m, params) in sorted(targets.items()):
        # positions that run later: lambda bodies, and everything of a generator expression except its first iterable
        later = set()
        for x in ast.walk(m.node):
            if isinstance(x, ast.Lambda):
                later |= {id(y) for y in ast.walk(x.body)}
            if isinstance(x, ast.GeneratorExp):
                later |= {id(y) for y in ast.walk(x.elt)}
                for gi, g in enumerate(x.generators):
                    if gi > 0:
                        later |= {id(y) for y in ast.walk(g.iter)}
                    for c_ in g.ifs:
                        later |= {id(y) for y in ast.walk(c_)}
        new = []
        for c_ in [c_ for c_ in calls_in(m.node) if id(c_) not in later]:
            hit = None
            if isinstance(c_.func, ast.Name) and c_.func.id in EAGER and c_.args and isinstance(c_.args[0], ast.Name) and c_.args[0].id in params:
                hit = f"{c_.func.id}() pulls everything from the stream"
            tq = m.module.resolve(c_.func) if isinstance(c_.func, (ast.Name, ast.Attribute)) else None
            if tq in eager_helpers:
                tf = prog.functions[tq]
                for i_, a_ in enumerate(c_.args):
                    if isinstance(a_, ast.Name) and a_.id in params and i_ < len(tf.params) and tf.params[i_] in eager_helpers[tq]:
                        hit = f"{tf.name}() materialises its argument"
            if hit:
                new.append((m, c_, hit))
        for lp in [x for x in walk_local(m.node) if isinstance(x, ast.For) and isinstance(x.iter, ast.Name) and x.iter.id in params]:
            new.append((m, lp.iter, "a loop runs over the stream"))
        for x in [x for x in walk_local(m.node) if isinstance(x, (ast.ListComp, ast.SetComp, ast.DictComp)) and isinstance(x.generators[0].iter, ast.Name) and x.generators[0].iter.id in params]:
            new.append((m, x, "a comprehension runs over the stream"))
        r.check(not new, f"{m.short}#stream-stays-lazy", site(m, new[0][1]) if new else site(m), src(new[0][1])[:100] if new else "stores / wraps its argument lazily",
                "a lazily produced stream handed to the wrapper is not pulled from",
                "while the query is being built: " + "; ".join(sorted({f"{w} [{src(n)[:50]}]" for _, n, w in new})) +
                " - the whole domain is read (and held by strong references) as soon as let(...) runs: a one-shot generator is consumed before the first result is asked for, and the "
                "instances a domain-less variable ranges over are pinned by a query that was only built")
    return r


# ---- evaluation side -------------------------------------------------------------------------------
EAGER = {"list", "tuple", "set", "frozenset", "sorted", "len", "max", "min", "sum", "dict", "reversed"}
EXEMPT = {
    "ForAll": "a universal quantifier has to see every value of its variable before it can answer",
    "The.evaluate": "the() must look for a second solution before it may return the first",
}


def _eager_params(prog: Program) -> Dict[str, Set[str]]:
    """module-level helpers that materialise a parameter (itertools.product(*p...), list(p), ...)"""
    out: Dict[str, Set[str]] = {}
    for f in prog.functions.values():
        if f.cls is not None or ".entity_query_language." not in f.qual:
            continue
        for c in calls_in(f.node):
            nm = dotted(c.func) or ""
            if nm.endswith("product") or (isinstance(c.func, ast.Name) and c.func.id in EAGER):
                for a in c.args:
                    for x in ast.walk(a):
                        if isinstance(x, ast.Name) and x.id in f.params:
                            out.setdefault(f.qual, set()).add(x.id)
    return out


def _stream_scan(prog: Program, f, eager_params: Dict[str, Set[str]]):
    """(node, why) for eager consumption of streams in one function"""
    hits = []
    streams: Set[str] = set()
    holders: Set[str] = set()
    mod = getattr(f, "module", None)

    def is_gen_call(e) -> bool:
        if not isinstance(e, ast.Call):
            return False
        if call_name(e) == "_evaluate__" or call_name(e) == "get_instances_of_type":
            return True
        if isinstance(e.func, ast.Attribute) and isinstance(e.func.value, ast.Name) and e.func.value.id == "self" and getattr(f, "cls", None) is not None:
            t = prog.lookup(f.cls.qual, e.func.attr)
            return t is not None and t.is_generator
        if isinstance(e.func, ast.Name) and mod is not None:
            q = mod.resolve(e.func)
            t = prog.functions.get(q)
            return t is not None and t.is_generator
        return False

    def is_stream(e) -> bool:
        if isinstance(e, ast.Name):
            return e.id in streams
        if isinstance(e, ast.Attribute) and isinstance(e.value, ast.Name) and e.value.id == "self" and e.attr in ("_domain_", "iterable"):
            return True
        if is_gen_call(e):
            return True
        if isinstance(e, ast.Call) and isinstance(e.func, ast.Name) and e.func.id in ("filter", "map", "iter", "chain", "islice", "zip") and any(is_stream(a) for a in e.args):
            return True
        if isinstance(e, ast.GeneratorExp):
            return any(is_stream(g.iter) for g in e.generators) or is_stream(e.elt)
        if isinstance(e, ast.IfExp):
            return is_stream(e.body) or is_stream(e.orelse)
        return False

    def holds_streams(e) -> bool:
        if isinstance(e, ast.Name):
            return e.id in holders
        if isinstance(e, (ast.DictComp,)):
            return is_stream(e.value)
        if isinstance(e, (ast.ListComp, ast.SetComp)):
            return is_stream(e.elt)
        if isinstance(e, (ast.List, ast.Tuple, ast.Dict)):
            return any(is_stream(x) for x in (e.values if isinstance(e, ast.Dict) else e.elts))
        if isinstance(e, ast.Call) and isinstance(e.func, ast.Attribute) and e.func.attr in ("values", "items") and holds_streams(e.func.value):
            return True
        return False

    for _ in range(2):
        for n in walk_local(f.node):
            if isinstance(n, ast.Assign) and len(n.targets) == 1 and isinstance(n.targets[0], ast.Name):
                if is_stream(n.value):
                    streams.add(n.targets[0].id)
                if holds_streams(n.value):
                    holders.add(n.targets[0].id)
    for n in walk_local(f.node):
        if isinstance(n, ast.Call):
            nm = dotted(n.func) or ""
            if isinstance(n.func, ast.Name) and n.func.id in EAGER and n.args and is_stream(n.args[0]):
                hits.append((n, f"{n.func.id}() materialises a result stream / domain"))
            if nm.endswith("product") and any(isinstance(a, ast.Starred) and (holds_streams(a.value) or is_stream(a.value)) for a in n.args):
                hits.append((n, "itertools.product exhausts every stream before its first tuple"))
            if any(isinstance(a, ast.Starred) and is_stream(a.value) for a in n.args):
                hits.append((n, "a stream is star-unpacked"))
            if isinstance(n.func, ast.Attribute) and n.func.attr in ("update", "extend", "join", "fromkeys", "difference_update", "intersection_update", "union", "issubset", "issuperset") and any(is_stream(a) for a in n.args):
                hits.append((n, f".{n.func.attr}() drains a result stream / domain"))
            # callee that materialises the parameter we hand a stream / holder of streams to
            if mod is not None and isinstance(n.func, ast.Name):
                q = mod.resolve(n.func)
                if q in eager_params:
                    t = prog.functions[q]
                    for p, a in zip(t.params, n.args):
                        if p in eager_params[q] and (is_stream(a) or holds_streams(a)):
                            hits.append((n, f"{t.name}() materialises the streams it is given"))
        if isinstance(n, (ast.ListComp, ast.SetComp, ast.DictComp)):
            for g in n.generators:
                if is_stream(g.iter):
                    hits.append((n, "an eager comprehension drains a result stream / domain"))
        # (a,) = stream / a, b = stream / [a] = stream: unpacking asks for one element more than there are targets (to check the arity),
        # which runs the producer to its end when the number fits; a starred target takes everything
        if isinstance(n, ast.Assign) and any(isinstance(t, (ast.Tuple, ast.List)) for t in n.targets) and is_stream(n.value):
            hits.append((n, "unpacking a result stream drains it (the arity check pulls until the producer ends)"))
        # a generator that loops over a stream and puts what it makes of each element into a local collection that it yields from later
        # hands its first result on only after it has pulled further elements: the consumer's k-th result costs more than a prefix
        if isinstance(n, ast.For) and is_stream(n.iter) and getattr(f, "is_generator", False):
            kept = set()
            for x in ast.walk(n):
                if isinstance(x, ast.Call) and isinstance(x.func, ast.Attribute) and x.func.attr in ("append", "add", "insert", "appendleft") and isinstance(x.func.value, ast.Name):
                    kept.add(x.func.value.id)
            for x in walk_local(f.node):
                src_ = x.value if isinstance(x, ast.YieldFrom) else None
                if src_ is None and isinstance(x, ast.For) and any(isinstance(y, (ast.Yield, ast.YieldFrom)) for y in ast.walk(x)):
                    src_ = x.iter
                if isinstance(src_, ast.Name) and src_.id in kept:
                    hits.append((n, f"what is made of the elements of a stream is kept in `{src_.id}` and handed on later: the first result waits for further elements"))
    return hits


def lazy_eval(prog: Program) -> RuleResult:
    r = RuleResult("LAZY-EVAL", "result streams and domains are consumed by streaming constructs only", floor=20)
    ev = [f for f in eval_closure(prog) if ".entity_query_language." in f.qual]
    ep = _eager_params(prog)
    for f in sorted(ev, key=lambda x: x.qual):
        hits = _stream_scan(prog, f, ep)
        exempt = next((why for k, why in EXEMPT.items() if f.short == k or f.short.startswith(k + ".")), None)
        if hits and exempt:
            r.ok(f"{f.short}#exempt", site(f, hits[0][0]), src(hits[0][0])[:100], f"eager by necessity: {exempt}")
            continue
        if hits:
            n, why = hits[0]
            r.fail(f"{f.short}#eager-sink", site(f, n), src(n)[:120],
                   f"{why}: obtaining the first result pulls the whole stream (every result assertion still passes, streaming use and expensive predicates break)")
        else:
            r.ok(f"{f.short}#streams", site(f), "", "streams are only iterated lazily")
    # a domain mapping turns one value into a stream of values: it must not materialise the value it maps (flatten over a generator-
    # valued attribute is a lazily produced domain like any other)
    dm = prog.cls("symbolic.DomainMapping")
    n_maps = 0
    for c in sorted(prog.subclasses(dm.qual), key=lambda x: x.qual):
        m = c.methods.get("_apply_mapping_")
        if m is None or len(m.params) < 2:
            continue
        n_maps += 1
        vparam = m.params[1]
        bad = None
        for call in calls_in(m.node):
            eager = isinstance(call.func, ast.Name) and call.func.id in EAGER
            if not eager and isinstance(call.func, ast.Name):
                q = m.module.resolve(call.func)
                eager = q in ep
            if eager and any(isinstance(x, ast.Name) and x.id == vparam for a in call.args for x in ast.walk(a)):
                bad = bad or call
        for n in walk_local(m.node):
            if isinstance(n, (ast.ListComp, ast.SetComp, ast.DictComp)) and any(isinstance(x, ast.Name) and x.id == vparam for g in n.generators for x in ast.walk(g.iter)):
                bad = bad or n
        r.check(bad is None, f"{c.name}._apply_mapping_#streams-the-mapped-value", site(m, bad) if bad is not None else site(m), src(bad)[:100] if bad is not None else "",
                "the mapped value is only read, indexed, called or iterated lazily",
                f"{src(bad)[:80] if bad is not None else ''} materialises the value being mapped: flatten() over a generator-valued attribute (or a generator handed to flatten) is drained "
                f"completely before its first element is produced")
    if n_maps < 3:
        raise AnalysisError("LAZY-EVAL: fewer than three domain mappings found (Attribute, Index, Call, Flatten are the confirmed instances)")
    # the universal quantifier needs every value of the quantified expression only while a candidate is left: once its candidate set is
    # empty the answer is decided, and the next value must not be pulled (the test has to sit at the end of the loop body - at the head
    # the for statement has already advanced the domain)
    from ..cfg import CFG

    fa = prog.cls("symbolic.ForAll")
    fe = prog.lookup(fa.qual, "_evaluate__")
    cfg = CFG(fe.node)
    outer = [n for n in cfg.nodes if n.kind == "for" and not n.loops and any(call_name(c) == "_evaluate__" for c in calls_in(n.stmt.iter))]
    if len(outer) != 1:
        raise AnalysisError("LAZY-EVAL: ForAll._evaluate__ no longer has one loop over the values of the quantified expression")
    h = outer[0]
    inits = {n.stmt.targets[0].id for n in cfg.nodes if isinstance(n.stmt, ast.Assign) and len(n.stmt.targets) == 1 and isinstance(n.stmt.targets[0], ast.Name)
             and isinstance(n.stmt.value, ast.Constant) and n.stmt.value.value is None and not n.loops}
    body = {n.id for n in cfg.nodes if h.id in n.loops}
    cands = set()
    for n in cfg.nodes:
        if n.id in body and isinstance(n.stmt, ast.Assign):
            for t in n.stmt.targets:
                for x in ast.walk(t):
                    if isinstance(x, ast.Name) and x.id in inits:
                        cands.add(x.id)
    if not cands:
        raise AnalysisError("LAZY-EVAL: ForAll._evaluate__ has no candidate set initialised to None and narrowed in the loop")
    for cand in sorted(cands):
        shrink = [n for n in cfg.nodes if n.id in body and isinstance(n.stmt, ast.Assign) and any(isinstance(x, ast.Name) and x.id == cand for t in n.stmt.targets for x in ast.walk(t))
                  and not (isinstance(n.stmt.value, (ast.List, ast.Tuple)) and not n.stmt.value.elts)]
        # tests of emptiness whose taken branch leaves the loop
        stops = set()
        for t in cfg.nodes:
            if t.id in body and t.kind == "test" and isinstance(t.stmt, ast.If):
                tt = t.stmt.test
                if isinstance(tt, ast.UnaryOp) and isinstance(tt.op, ast.Not) and isinstance(tt.operand, ast.Name) and tt.operand.id == cand and any(isinstance(x, ast.Break) for b in t.stmt.body for x in ast.walk(b)):
                    stops.add(t.id)
                if isinstance(tt, ast.Compare) and isinstance(tt.left, ast.Call) and call_name(tt.left) == "len" and src(tt.left.args[0]) == cand and any(isinstance(x, ast.Break) for b in t.stmt.body for x in ast.walk(b)):
                    stops.add(t.id)
        bad = None
        for sn in shrink:
            p = cfg.path_avoiding(sn.id, h.id, stops)
            if p is not None:
                bad = bad or (sn, p)
        r.check(bad is None, f"ForAll._evaluate__#stops-when-decided:{cand}", site(fe, bad[0].stmt) if bad else site(fe), f"{len(shrink)} narrowing assignments, {len(stops)} emptiness tests that break",
                "after every narrowing of the candidate set an emptiness test that leaves the loop is passed before the next value is taken",
                f"after {src(bad[0].stmt)[:60] if bad else ''} control returns to the loop head along {cfg.describe(bad[1]) if bad else ''} without testing whether a candidate is left: "
                f"the next value of the quantified expression is pulled from its (possibly one-shot, possibly expensive) domain although it cannot change the answer")
    # the public entry streams its results
    rq = prog.cls("symbolic.ResultQuantifier")
    e = prog.method(rq.qual, "evaluate", inherited=False)
    r.check(e.is_generator, "ResultQuantifier.evaluate#generator", site(e), "", "results are handed out one by one", "evaluate() is not a generator: all results are computed before the first is returned")
    # positive control
    ctl = ast.parse("def g(self, sources):\n    vals = self._child_._evaluate__(sources)\n    return sorted(vals, key=id)\n").body[0]

    class _F:
        node = ctl
        module = e.module
        cls = rq
    r.control_ok = bool(_stream_scan(prog, _F, ep))
    return r


def run(prog: Program, tier: str) -> List[RuleResult]:
    return [guard(lambda: lazy_build(prog)), guard(lambda: lazy_eval(prog)), guard(lambda: stream_lazy(prog))]
