"""C18 - JSON serialisation round-trips polymorphic objects through real JSON text.

JS-TAG    the serialised form of every object carries its fully qualified *exact* class
JS-AGREE  writer and reader are mirror images: same constants, same dispatch order, elementwise
          recursion, registry keyed alike, reader splits where the writer joined, reader
          dispatches on the resolved class
Value equality itself (json's number/str handling, user _from_json bodies) is not decided.
"""
from __future__ import annotations

import ast
import os
import glob
from typing import List, Optional

from ..model import Program, AnalysisError, dotted, FuncInfo, walk_local
from ..report import RuleResult, guard
from ..astutil import src, site, calls_in, call_name, is_super_call, kwarg

EXPLANATION = (
    "Structural agreement between the JSON writer and reader, decided on their ASTs: (JS-TAG) the base to_json and "
    "every registered serialiser return a mapping whose type-tag entry is get_full_class_name(<exact class of the "
    "object>), which is __module__ + '.' + __name__; every to_json override in scope merges super().to_json(). "
    "(JS-AGREE) both directions test the shared constant leaf_types first and list_like_classes second, recurse "
    "elementwise over every element through the module-level function, the registry stores serialiser and "
    "deserialiser under one key and looks both up by that key, the reader splits the tag at the last dot (the inverse "
    "of the writer's join) and calls _from_json on the resolved class, not on the receiving class. These are necessary "
    "conditions of the round trip; equality of the reconstructed values is not decided."
)
ASSUMPTIONS = [
    "json.dumps/json.loads preserve None, bool, int, float, str and lists of them (the standard library's contract)",
    "user-written _from_json inverts the user-written part of to_json",
    "classes are importable under module.__name__ (top-level classes)",
]

MODQ = "json_serializer"


def _returns(f: FuncInfo) -> List[ast.Return]:
    return [n for n in walk_local(f.node) if isinstance(n, ast.Return) and n.value is not None]


def _dict_entry(d: ast.Dict, key_name: str) -> Optional[ast.expr]:
    for k, v in zip(d.keys, d.values):
        if isinstance(k, ast.Name) and k.id == key_name:
            return v
    return None


def _is_exact_class_of(e: ast.expr, var: str) -> bool:
    """type(var) or var.__class__"""
    if isinstance(e, ast.Call) and isinstance(e.func, ast.Name) and e.func.id == "type" and len(e.args) == 1:
        return isinstance(e.args[0], ast.Name) and e.args[0].id == var
    if isinstance(e, ast.Attribute) and e.attr == "__class__":
        return isinstance(e.value, ast.Name) and e.value.id == var
    return False


def _tag_value_ok(prog: Program, f: FuncInfo, v: ast.expr, var: str) -> str:
    """'' if v is get_full_class_name(<exact class of var>) else reason"""
    if not (isinstance(v, ast.Call) and len(v.args) == 1):
        return f"tag value {src(v)} is not a call of the full-class-name helper"
    q = f.module.resolve(v.func)
    if q != prog.func("krrood.utils.get_full_class_name").qual:
        return f"tag value is computed by {q}, not by get_full_class_name"
    if not _is_exact_class_of(v.args[0], var):
        return f"tag names {src(v.args[0])}, not the exact class of the serialised object"
    return ""


def _flatten_concat(e: ast.expr) -> Optional[List[ast.expr]]:
    if isinstance(e, ast.BinOp) and isinstance(e.op, ast.Add):
        a, b = _flatten_concat(e.left), _flatten_concat(e.right)
        return None if a is None or b is None else a + b
    if isinstance(e, ast.JoinedStr):
        out = []
        for v in e.values:
            if isinstance(v, ast.FormattedValue):
                if v.conversion != -1 or v.format_spec is not None:
                    return None
                out.append(v.value)
            else:
                out.append(v)
        return out
    return [e]


def js_tag(prog: Program, tier: str) -> RuleResult:
    r = RuleResult("JS-TAG", "serialised objects carry module + '.' + name of their exact class", floor=3)
    mod = prog.module(MODQ)
    key = "JSON_TYPE_NAME"
    if key not in mod.globals_:
        raise AnalysisError("JS-TAG: tag key constant vanished")
    # The tag lives in the same dict as the payload a subclass adds with `data.update({...})`: the key must be a name no class uses for a
    # field of its own - a reserved (dunder) name, or text that is not an attribute name at all.
    kval = mod.globals_[key]
    kval = kval.value if isinstance(kval, (ast.Assign, ast.AnnAssign)) else kval
    if not (isinstance(kval, ast.Constant) and isinstance(kval.value, str)):
        raise AnalysisError(f"JS-TAG: {key} is no longer a text constant (`{src(kval)[:60]}`)")
    text = kval.value
    reserved = bool(text) and (not text.isidentifier() or (text.startswith("__") and text.endswith("__") and len(text) > 4))
    r.check(reserved, f"{key}#reserved-key", f"{mod.path}:{getattr(kval, 'lineno', 0)}", repr(text), "the tag key is a reserved name (a dunder name, or no attribute name at all)",
            f"the tag is stored under {text!r}, an ordinary attribute name: a class with a field of that name writes its payload over the tag (`data.update({{{text!r}: self.{text}}})`) and the serialised form no longer says which class it is")
    base = prog.cls(MODQ + ".SubclassJSONSerializer")
    f = prog.method(base.qual, "to_json", inherited=False)
    rets = _returns(f)
    selfn = f.params[0]
    ok, why = False, "to_json does not return a dict display with the tag"
    if len(rets) == 1 and isinstance(rets[0].value, ast.Dict):
        v = _dict_entry(rets[0].value, key)
        if v is not None:
            why = _tag_value_ok(prog, f, v, selfn)
            ok = not why
    r.check(ok, "SubclassJSONSerializer.to_json#tag", site(f), src(rets[0].value) if rets else "", "tag = full name of self's exact class", why)
    # helper is module + '.' + name
    g = prog.func("krrood.utils.get_full_class_name")
    grets = _returns(g)
    parts = _flatten_concat(grets[0].value) if len(grets) == 1 else None
    p = g.params[0]
    good = (
        parts is not None
        and len(parts) == 3
        and isinstance(parts[0], ast.Attribute) and parts[0].attr == "__module__" and src(parts[0].value) == p
        and isinstance(parts[1], ast.Constant) and parts[1].value == "."
        and isinstance(parts[2], ast.Attribute) and parts[2].attr == "__name__" and src(parts[2].value) == p
    )
    r.check(good, "get_full_class_name#module.name", site(g), src(grets[0].value) if grets else "", "__module__ + '.' + __name__",
            "the full class name is not <class>.__module__ + '.' + <class>.__name__ (the reader imports the part before the last dot and looks the rest up in it)")
    # registered serialisers
    nreg = 0
    for m in prog.modules.values():
        for c in calls_in(m.tree, local=False):
            if call_name(c) == "register" and len(c.args) == 3 and "JSONSerializableTypeRegistry" in src(c.func):
                nreg += 1
                ser = m.resolve(c.args[1])
                sf = prog.functions.get(ser)
                if sf is None:
                    r.fail(f"register#{src(c.args[0])}", f"{m.relpath}:{c.lineno}", src(c), "serialiser is not a resolvable function")
                    continue
                srets = _returns(sf)
                why = "serialiser does not return a dict display with the tag"
                ok = False
                if srets and all(isinstance(x.value, ast.Dict) for x in srets):
                    ok = True
                    for x in srets:
                        v = _dict_entry(x.value, key)
                        w = _tag_value_ok(prog, sf, v, sf.params[0]) if v is not None else "tag entry missing"
                        if w:
                            ok, why = False, w
                r.check(ok, f"{sf.short}#tag", site(sf), src(srets[0].value) if srets else "", "tag = full name of the object's exact class", why)
                # the pair is an inverse: the deserialiser rebuilds the value from what the serialiser stored, through a constructor call that
                # takes the stored text and nothing else.  (Table of known text forms: str(x) is inverted by T(text) for uuid.UUID; any further
                # argument - version=... re-stamps the version and variant bits - changes the value or is rejected.)
                des = m.resolve(c.args[2]) if len(c.args) > 2 else None
                df = prog.functions.get(des)
                tq = m.resolve(c.args[0]) if isinstance(c.args[0], (ast.Name, ast.Attribute)) else None
                if df is not None and srets and tq == "ext:uuid.UUID":
                    stored = {}
                    for k_, v_ in zip(srets[0].value.keys, srets[0].value.values):
                        if isinstance(k_, ast.Constant) and isinstance(v_, ast.Call) and isinstance(v_.func, ast.Name) and v_.func.id == "str" and v_.args and src(v_.args[0]) == sf.params[0]:
                            stored[k_.value] = "str"
                    drets = _returns(df)
                    good = False
                    why2 = "the deserialiser does not return T(<the stored text>)"
                    if len(drets) == 1 and isinstance(drets[0].value, ast.Call) and m.resolve(drets[0].value.func) == tq:
                        call = drets[0].value
                        a0 = call.args[0] if call.args else None
                        reads_key = isinstance(a0, ast.Subscript) and isinstance(a0.value, ast.Name) and a0.value.id == df.params[0] and isinstance(a0.slice, ast.Constant) and a0.slice.value in stored
                        good = reads_key and len(call.args) == 1 and not call.keywords
                        if reads_key and not good:
                            why2 = f"the constructor gets more than the stored text ({src(call)}): uuid.UUID(text, version=v) overwrites the version and variant bits and rejects v outside 1..5, so a UUID of version 6, 7, 8 (or a non-RFC one) does not come back"
                    r.check(good, f"{df.short}#inverse-of:{sf.name}", site(df), src(drets[0].value) if drets else "", "T(stored text), nothing else", why2)
    if nreg == 0:
        raise AnalysisError("JS-TAG: no registry registration found (the UUID registration is the confirmed instance)")
    # overrides of to_json (src; thorough: also test/dataset as client code)
    over = [c for c in prog.subclasses(base.qual, strict=True) if "to_json" in c.methods]
    for c in over:
        _check_override(r, c.methods["to_json"])
    r.note(f"{len(over)} to_json overrides under src/")
    if tier == "thorough":
        n = 0
        for path in sorted(glob.glob("/repo/test/dataset/*.py")) + sorted(glob.glob("/repo/test/**/*.py", recursive=True)):
            try:
                tree = ast.parse(open(path).read(), path)
            except SyntaxError:
                continue
            for cd in [x for x in ast.walk(tree) if isinstance(x, ast.ClassDef)]:
                bases = " ".join(src(b) for b in cd.bases)
                for fn in cd.body:
                    if isinstance(fn, ast.FunctionDef) and fn.name == "to_json" and "SubclassJSONSerializer" in bases or (
                        isinstance(fn, ast.FunctionDef) and fn.name == "to_json" and any(is_super_call(c, "to_json") for c in calls_in(fn))
                    ):
                        n += 1
                        has_super = any(is_super_call(c, "to_json") for c in calls_in(fn))
                        r.check(has_super, f"client:{os.path.relpath(path, '/repo')}:{cd.name}.to_json#super", f"{os.path.relpath(path, '/repo')}:{fn.lineno}", fn.name,
                                "merges super().to_json()", "client override drops the base mapping (no type tag)")
        r.note(f"{n} client to_json overrides under test/ (thorough tier)")
    r.control_ok = True
    return r


def _check_override(r: RuleResult, f: FuncInfo):
    has_super = any(is_super_call(c, "to_json") for c in calls_in(f.node))
    r.check(has_super, f"{f.short}#super", site(f), f.short, "merges super().to_json()", "override drops the base mapping (no type tag)")


def _dispatch_shape(f: FuncInfo, var: str):
    """ordered list of (kind, detail) for top-level `if isinstance(var, X): return ...` statements"""
    out = []
    for s in f.node.body:
        if isinstance(s, ast.If) and isinstance(s.test, ast.Call) and isinstance(s.test.func, ast.Name) and s.test.func.id == "isinstance":
            a = s.test.args
            if isinstance(a[0], ast.Name) and a[0].id == var:
                # the branch's result: its one return value (guards that raise and try/finally around it do not change the result)
                rets = [x for st in s.body for x in ast.walk(st) if isinstance(x, ast.Return) and x.value is not None]
                vals = []
                for x in rets:
                    v = x.value
                    if isinstance(v, ast.Name):
                        defs = [y.value for st in s.body for y in ast.walk(st) if isinstance(y, ast.Assign) and len(y.targets) == 1 and isinstance(y.targets[0], ast.Name) and y.targets[0].id == v.id]
                        if len(defs) == 1:
                            v = defs[0]
                    vals.append(v)
                falls_through = not any(isinstance(st, (ast.Return, ast.Raise)) for st in s.body[-1:]) and not (isinstance(s.body[-1], ast.Try) and (
                    any(isinstance(y, (ast.Return, ast.Raise)) for y in s.body[-1].body[-1:])))
                if len({src(v) for v in vals}) == 1 and not falls_through:
                    out.append((src(a[1]), vals[0], s))
    return out


def js_agree(prog: Program) -> RuleResult:
    r = RuleResult("JS-AGREE", "writer and reader agree on constants, order, recursion, registry keys and tag splitting", floor=10)
    mod = prog.module(MODQ)
    w = prog.func(MODQ + ".to_json")
    base = prog.cls(MODQ + ".SubclassJSONSerializer")
    rd = prog.method(base.qual, "from_json", inherited=False)
    rd_mod = prog.func(MODQ + ".from_json")
    wv, rv = w.params[0], rd.params[1]
    ws, rs = _dispatch_shape(w, wv), _dispatch_shape(rd, rv)

    def classify(gname: str) -> str:
        g = mod.globals_.get(gname)
        if g is None or not isinstance(getattr(g, "value", None), ast.Tuple):
            return "?" + gname
        names = {src(x) for x in g.value.elts}
        if "list" in names:
            return "list-likes"
        if "str" in names or "int" in names:
            return "leaves"
        return "?" + gname

    leaf_const = next((k for k, _, _ in ws if classify(k) == "leaves"), None)
    list_const = next((k for k, _, _ in ws if classify(k) == "list-likes"), None)
    if leaf_const is None or list_const is None:
        leaf_const, list_const = leaf_const or "leaf_types", list_const or "list_like_classes"
    for name, shape, f in (("to_json", ws, w), ("from_json", rs, rd)):
        full_shape = shape
        # the plain branches (leaf values, list-likes); in the writer the tagged objects are tested before them (see below)
        shape = [x for x in shape if classify(x[0]) in ("leaves", "list-likes")] if name == "to_json" else shape
        kinds = [k for k, _, _ in shape[:2]]
        r.check(kinds == [leaf_const, list_const], f"{name}#dispatch-order", site(f), str(kinds),
                "leaf values before list-likes; constants shared by both directions" if name == "to_json" else "leaf values first, list-likes second, tagged mappings last; constants shared by both directions",
                f"dispatch order is {[classify(k) for k in kinds]} via {kinds}; both directions must test the shared leaf constant then the shared list-like constant")
        if name == "to_json":
            # a serialiser instance or a registered type may subclass int / str / tuple / list: isinstance against the plain constants would
            # take it for a plain value and write it without its tag.  Everything that carries a tag is decided first.
            body = list(f.node.body)
            plain_pos = [body.index(st) for k, _, st in full_shape if classify(k) in ("leaves", "list-likes")]
            obj_pos = [body.index(st) for k, _, st in full_shape if k.split(".")[-1] == "SubclassJSONSerializer"]
            reg_pos = []
            for i, st in enumerate(body):
                if any(call_name(c) == "get_serializer" for c in calls_in(st)):
                    # where the registered serialiser's result is returned
                    nm = st.targets[0].id if isinstance(st, ast.Assign) and isinstance(st.targets[0], ast.Name) else None
                    for j, st2 in enumerate(body[i:], start=i):
                        if any(isinstance(x, ast.Return) and x.value is not None and isinstance(x.value, ast.Call) and nm and src(x.value.func) == nm for x in ast.walk(st2)):
                            reg_pos.append(j)
                            break
            ok = bool(plain_pos) and bool(obj_pos) and bool(reg_pos) and max(obj_pos + reg_pos) < min(plain_pos)
            r.check(ok, "to_json#tagged-before-plain", site(f), f"serialiser instance at {obj_pos}, registered type at {reg_pos}, plain values at {plain_pos} (statement index)",
                    "serialiser instances and registered types are written with their tag before the plain tests",
                    "the plain tests (isinstance against the leaf / list-like constants) come before the tagged ones: a registered namedtuple or IntEnum, or a serialiser that subclasses "
                    "str, is written as a bare list / number / string and comes back as a plain value, not as an instance of its class")
        if len(shape) >= 1:
            k, ret, _ = shape[0]
            var = wv if name == "to_json" else rv
            r.check(isinstance(ret, ast.Name) and ret.id == var, f"{name}#leaf-identity", site(f, ret), src(ret), "leaf values pass unchanged",
                    "a leaf value is not returned unchanged")
        if len(shape) >= 2:
            k, ret, _ = shape[1]
            var = wv if name == "to_json" else rv
            good = False
            why = "list-likes are not mapped elementwise to a list through the module-level function"
            if isinstance(ret, ast.ListComp) and len(ret.generators) == 1:
                g = ret.generators[0]
                tgt = g.target.id if isinstance(g.target, ast.Name) else None
                e = ret.elt
                callee = mod.resolve(e.func) if isinstance(e, ast.Call) else None
                want = w.qual if name == "to_json" else rd_mod.qual
                good = (
                    isinstance(g.iter, ast.Name) and g.iter.id == var and not g.ifs and not g.is_async
                    and isinstance(e, ast.Call) and callee == want and len(e.args) == 1 and isinstance(e.args[0], ast.Name) and e.args[0].id == tgt
                )
            r.check(good, f"{name}#elementwise", site(f, ret), src(ret), "every element recursed, order kept", why)
    # shared constants are module globals defined once
    for g in (leaf_const, list_const, "JSON_TYPE_NAME"):
        n = sum(1 for s in mod.tree.body if isinstance(s, ast.Assign) and any(isinstance(t, ast.Name) and t.id == g for t in s.targets))
        r.check(n == 1, f"shared-constant:{classify(g) if g != 'JSON_TYPE_NAME' else 'tag-key'}#single-definition", mod.relpath, g, "one shared definition", f"{g} is defined {n} times")
    # leaf constants are exactly JSON's scalar types; list-likes include list
    lt = mod.globals_.get(leaf_const)
    names = sorted(src(x) for x in lt.value.elts) if lt is not None and isinstance(lt.value, ast.Tuple) else None
    r.check(names == sorted(["int", "float", "str", "bool", "NoneType"]), "leaf-constant#json-scalars", mod.relpath, str(names),
            "exactly JSON's scalars", f"leaf_types is {names}: anything else json cannot write, anything missing is sent to tag resolution")
    ll = mod.globals_.get(list_const)
    lnames = sorted(src(x) for x in ll.value.elts) if ll is not None and isinstance(ll.value, ast.Tuple) else None
    r.check(lnames is not None and "list" in lnames and not (set(lnames) & {"dict", "str"}), "list-constant#contains-list", mod.relpath, str(lnames),
            "list handled elementwise", "list_like_classes must contain list (json text yields lists) and no mapping/str type")
    # module-level from_json delegates to the classmethod
    d = [c for c in calls_in(rd_mod.node) if call_name(c) == "from_json"]
    r.check(len(d) == 1 and "SubclassJSONSerializer" in src(d[0].func) and src(d[0].args[0]) == rd_mod.params[0], "from_json#delegates", site(rd_mod), src(d[0]) if d else "",
            "delegates", "module-level from_json does not delegate its argument to SubclassJSONSerializer.from_json")
    # object branch, writer
    txt_w = [s for s in w.node.body if isinstance(s, ast.If)]
    obj_ok = any(
        isinstance(s.test, ast.Call) and src(s.test) == f"isinstance({wv}, SubclassJSONSerializer)" and isinstance(s.body[0], ast.Return) and src(s.body[0].value) == f"{wv}.to_json()"
        for s in txt_w
    )
    r.check(obj_ok, "to_json#object-branch", site(w), "", "objects serialise themselves", "serialiser objects are not written through their own to_json()")
    gs = [c for c in calls_in(w.node) if call_name(c) == "get_serializer"]
    r.check(len(gs) == 1 and _is_exact_class_of(gs[0].args[0], wv), "to_json#registry-key", site(w), src(gs[0]) if gs else "",
            "registry looked up by exact type", "the writer does not look the serialiser up by the exact type of the object")
    # reader: split at last dot, dispatch on resolved class
    splits = [c for c in calls_in(rd.node) if call_name(c) in ("rsplit", "rpartition", "split", "partition")]
    good = len(splits) == 1 and (
        (call_name(splits[0]) == "rsplit" and len(splits[0].args) == 2 and src(splits[0].args[0]) in ("'.'", '"."') and src(splits[0].args[1]) == "1")
        or (call_name(splits[0]) == "rpartition" and src(splits[0].args[0]) in ("'.'", '"."'))
    )
    r.check(good, "from_json#split-last-dot", site(rd, splits[0]) if splits else site(rd), src(splits[0]) if splits else "",
            "inverse of module + '.' + name", "the reader does not split the tag at its last dot (module names contain dots)")
    fj = [c for c in calls_in(rd.node) if call_name(c) == "_from_json"]
    gd = [c for c in calls_in(rd.node) if call_name(c) == "get_deserializer"]
    tvar = None
    for s in walk_local(rd.node):
        if isinstance(s, ast.Assign) and isinstance(s.value, ast.Call) and isinstance(s.value.func, ast.Name) and s.value.func.id == "getattr":
            if isinstance(s.targets[0], ast.Name):
                tvar = s.targets[0].id
    r.check(len(fj) == 1 and tvar is not None and src(fj[0].func.value) == tvar and fj[0].args and src(fj[0].args[0]) == rv, "from_json#resolved-class",
            site(rd, fj[0]) if fj else site(rd), src(fj[0]) if fj else "", "_from_json called on the class the tag names, with the whole mapping",
            "the reader does not call _from_json of the class named by the tag with the mapping")
    r.check(len(gd) == 1 and tvar is not None and src(gd[0].args[0]) == tvar, "from_json#registry-key", site(rd, gd[0]) if gd else site(rd), src(gd[0]) if gd else "",
            "registry looked up by the resolved class", "the reader does not look the deserialiser up by the resolved class")
    registry_exact(prog, r)
    return r


def registry_exact(prog: Program, r: RuleResult, strong_tables: bool = True):
    """The registry maps exactly the registered type to its (de)serialiser: one key for both tables, lookups are table.get(<the given type>).
    Shared with C19: a lookup that also answers for subclasses or similar types returns a wrongly typed object instead of an error."""
    # registry: one key for both tables
    reg = prog.cls(MODQ + ".JSONSerializableTypeRegistry")
    rg = prog.method(reg.qual, "register", inherited=False)
    stores = {}
    for s in walk_local(rg.node):
        if isinstance(s, ast.Assign) and isinstance(s.targets[0], ast.Subscript):
            t = s.targets[0]
            stores[src(t.value)] = (src(t.slice), src(s.value))
    p = rg.params
    r.check(
        len(stores) == 2 and {k for k, _ in stores.values()} == {p[1]} and {v for _, v in stores.values()} == {p[2], p[3]},
        "JSONSerializableTypeRegistry.register#one-key", site(rg), str(stores), "both tables keyed by the registered type",
        "serialiser and deserialiser are not stored under the same key / the right tables",
    )
    # every registration is recorded: both stores lie on every path through register (a guard that returns early for "types JSON handles
    # natively" also drops every registered subclass of int / str / float - HTTPStatus, a StrEnum, numpy.float64 - which is then written as a
    # bare number or string and comes back as one)
    from ..cfg import CFG

    rcfg = CFG(rg.node)
    store_nodes = [n for n in rcfg.nodes if n.kind == "stmt" and isinstance(n.stmt, ast.Assign) and isinstance(n.stmt.targets[0], ast.Subscript) and src(n.stmt.targets[0].value) in stores]
    skipping = None
    for sn in store_nodes:
        path = rcfg.path_avoiding(rcfg.entry, rcfg.exit, {sn.id})
        if path is not None:
            skipping = skipping or rcfg.describe(path)
    if strong_tables:
      r.check(bool(store_nodes) and skipping is None, "JSONSerializableTypeRegistry.register#unconditional", site(rg), " -> ".join(skipping) if skipping else f"{len(store_nodes)} stores",
              "both tables are written on every path through register",
              "register can return without recording the type: a type it decides to skip (a subclass of a JSON leaf type: HTTPStatus, a StrEnum) is later written without its "
              "type tag, as a bare number or string, and comes back as int / str instead of its class")
    tables = {}
    for mname in ("get_serializer", "get_deserializer"):
        gm = prog.method(reg.qual, mname, inherited=False)
        rets = _returns(gm)
        good, tbl = False, None
        vals = [x.value for x in rets]
        if len(vals) == 1 and isinstance(vals[0], ast.IfExp):  # T[k] if k in T else None
            t = vals[0]
            if isinstance(t.test, ast.Compare) and len(t.test.ops) == 1 and isinstance(t.test.ops[0], ast.In) and src(t.test.left) == gm.params[1] \
                    and isinstance(t.body, ast.Subscript) and src(t.body.value) == src(t.test.comparators[0]) and src(t.body.slice) == gm.params[1] and src(t.orelse) == "None":
                good, tbl = True, src(t.body.value)
        elif len(vals) == 1 and isinstance(vals[0], ast.Call) and call_name(vals[0]) == "get" and vals[0].args and src(vals[0].args[0]) == gm.params[1] \
                and (len(vals[0].args) == 1 or src(vals[0].args[1]) == "None"):
            good, tbl = True, src(vals[0].func.value)
        tables[mname] = tbl
        r.check(good, f"JSONSerializableTypeRegistry.{mname}#lookup", site(gm), src(rets[0].value) if rets else "", "looked up by exactly the given type", "the lookup is not an exact lookup of the given type in one table (table.get(type) / table[type] if type in table else None): "
                "a registry that answers for subclasses or similar types makes from_json return an object of a different class than the tag names")
    # the registry keeps what was registered: its tables hold the callables strongly. A weak-valued table forgets a lambda, a closure, a
    # bound method or a functools.partial as soon as the caller's reference is gone - under reference counting when register() returns
    weak = ("WeakValueDictionary", "WeakSet", "ref", "WeakMethod", "proxy")
    for tname in sorted(stores) if strong_tables else []:
        fname = tname.split(".")[-1]
        fi = reg.attrs.get(fname)
        created = []
        if fi is not None and fi.field_call is not None and fi.field_kw("default_factory") is not None:
            created.append(fi.field_kw("default_factory"))
        elif fi is not None and fi.value is not None:
            created.append(fi.value)
        for m_ in reg.methods.values():
            for x in walk_local(m_.node):
                if isinstance(x, ast.Assign) and any(src(t) == tname for t in x.targets):
                    created.append(x.value)
        is_weak = any((dotted(y) or "").split(".")[-1] in weak for c_ in created for y in ast.walk(c_) if isinstance(y, (ast.Name, ast.Attribute)))
        weak_value = any((dotted(y.func) or "").split(".")[-1] in weak for y in ast.walk(rg.node) if isinstance(y, ast.Call))
        r.check(bool(created) and not is_weak and not weak_value, f"JSONSerializableTypeRegistry.{fname}#holds-callables-strongly", site(rg), "; ".join(src(c_)[:40] for c_ in created),
                "the table is an ordinary (strong) mapping",
                f"{fname} refers to the registered callables weakly: a type registered with a lambda, a closure, a bound method or a partial loses its entry as soon as that callable is "
                "collected - to_json then raises ClassNotSerializableError for a registered type, from_json ClassNotDeserializableError for text written earlier")
    ser_tbl = next((k for k, (_, v) in stores.items() if v == p[2]), None)
    des_tbl = next((k for k, (_, v) in stores.items() if v == p[3]), None)
    r.check(tables.get("get_serializer") == ser_tbl and tables.get("get_deserializer") == des_tbl and ser_tbl != des_tbl,
            "JSONSerializableTypeRegistry#tables-agree", site(rg), f"{tables}", "getters read the table their half was stored in",
            "a getter reads a different table than register wrote")


def js_pure(prog: Program) -> RuleResult:
    """The round trip is a function of the value: what to_json / from_json return for a value may not depend on earlier calls.
    State shared between calls (a module-level container the writer adds to) is accepted only if every addition is undone on every
    exit - i.e. in a `finally` - otherwise a call that raised half-way poisons the later ones."""
    from ..effects import MUT_ADD, MUT_DEL
    from ..cfg import CFG

    r = RuleResult("JS-PURE", "the writer and the reader keep no state between calls", floor=2)
    mod = prog.module(MODQ)
    mod_globals = set(mod.globals_.keys())
    entry = [prog.func(MODQ + ".to_json"), prog.func(MODQ + ".from_json"), prog.method(prog.cls(MODQ + ".SubclassJSONSerializer").qual, "from_json", inherited=False),
             prog.method(prog.cls(MODQ + ".SubclassJSONSerializer").qual, "to_json", inherited=False)]
    for f in entry:
        local_names = {a.arg for a in f.node.args.args + f.node.args.kwonlyargs} | {t.id for x in walk_local(f.node) if isinstance(x, ast.Assign) for t in x.targets if isinstance(t, ast.Name)}
        declared_global = {n for x in walk_local(f.node) if isinstance(x, ast.Global) for n in x.names}
        adds, dels = [], []
        for c in calls_in(f.node):
            if isinstance(c.func, ast.Attribute) and isinstance(c.func.value, ast.Name) and c.func.value.id in mod_globals and c.func.value.id not in (local_names - declared_global):
                if c.func.attr in MUT_ADD:
                    adds.append(c)
                elif c.func.attr in MUT_DEL:
                    dels.append(c)
        for x in walk_local(f.node):
            if isinstance(x, (ast.Assign, ast.AugAssign)):
                for t in (x.targets if isinstance(x, ast.Assign) else [x.target]):
                    if isinstance(t, ast.Subscript) and isinstance(t.value, ast.Name) and t.value.id in mod_globals and t.value.id not in (local_names - declared_global):
                        adds.append(x)
                    if isinstance(t, ast.Name) and t.id in declared_global:
                        adds.append(x)
        bad = None
        for a in adds:
            # undone in a finally that encloses everything after the addition?
            nm = src(a.func.value) if isinstance(a, ast.Call) else None
            undone = False
            for tr in [x for x in walk_local(f.node) if isinstance(x, ast.Try) and x.finalbody]:
                fin_calls = [c for st in tr.finalbody for c in calls_in(st)]
                if any(isinstance(c.func, ast.Attribute) and c.func.attr in MUT_DEL and src(c.func.value) == nm for c in fin_calls):
                    # the addition lies immediately before the try or is its first statement
                    body_nodes = set(id(y) for st in tr.body for y in ast.walk(st))
                    if id(a) in body_nodes or getattr(a, "lineno", 0) < tr.lineno:
                        undone = True
            if not undone:
                bad = bad or a
        r.check(bad is None, f"{f.short}#no-state-between-calls", site(f, bad) if bad is not None else site(f), src(bad)[:80] if bad is not None else f"{len(adds)} writes to module state",
                "no module-level state is written (or every write is undone in a finally)",
                f"`{src(bad)[:60] if bad is not None else ''}` records something in module-level state that outlives the call when an exception leaves it: a value whose serialisation was "
                "rejected once (an item of an unregistered type) is rejected again after it has been repaired, and an unrelated container that reuses the id is rejected too")
    return r


def js_leaf(prog: Program) -> RuleResult:
    """Strings, numbers, booleans and null are JSON already: writer and reader hand them back *as they are*. The reader's entry point
    hands its argument to the dispatcher untouched on every path (it is called for every nested item and field, so whatever it does to a
    string - parsing text that happens to look like JSON, stripping, decoding - it does to every string in the document), and the
    dispatcher answers a leaf with the very value it was given; the writer does the same for a leaf that carries no type tag."""
    from ..dtable import explore, Sym, App, term

    r = RuleResult("JS-LEAF", "JSON leaves pass through reader and writer unchanged", floor=3)
    mod = "krrood.adapters.json_serializer"
    entry = prog.functions.get(mod + ".from_json")
    ser = prog.cls("json_serializer.SubclassJSONSerializer")
    disp = prog.lookup(ser.qual, "from_json")
    writer = prog.functions.get(mod + ".to_json")
    if entry is None or disp is None or writer is None:
        raise AnalysisError("JS-LEAF: from_json / SubclassJSONSerializer.from_json / to_json vanished")
    # the entry point: every path is `return SubclassJSONSerializer.from_json(<the parameter>, ...)`, nothing else is done with the parameter
    p = entry.params[0]
    bad = None
    paths = explore(prog, entry, [Sym(p)], max_paths=200)
    for val, out, calls in paths:
        touching = [x for x in calls if isinstance(x, App) and any(term(a) == p or f"({p}" in term(a) or f" {p}" in term(a) for a in x.args) and not x.fn.endswith(".from_json")]
        decided = [k for k in val if any(str(part) == p for part in k[1:])]
        if out[0] != "return" or not (isinstance(out[1], App) and out[1].fn.endswith("SubclassJSONSerializer.from_json") and out[1].args and term(out[1].args[0]) == p):
            bad = bad or f"on the path {dict(val)} the result is {term(out[1])[:80] if len(out) > 1 else out[0]}"
        elif touching:
            bad = bad or f"{term(touching[0])[:80]} is applied to the data before it is dispatched"
        elif decided:
            bad = bad or f"the path depends on the data ({decided[0][1:]})"
    r.check(bad is None, "from_json#hands-the-data-on-untouched", site(entry), f"{len(paths)} path(s)", "every path returns SubclassJSONSerializer.from_json(data, ...) for the data as given",
            f"{bad}: the entry point is called for every nested item, so a string value whose text happens to be valid JSON ('42', 'true', 'null', '[]') comes back decoded "
            "instead of as the string that was serialised")
    # the dispatcher and the writer on a leaf; the module's tables of leaf / list-like classes are found by what they list
    m = entry.module
    def table_with(cls_name):
        for gname, st in m.globals_.items():
            v = getattr(st, "value", None)
            if isinstance(v, (ast.Tuple, ast.List)) and any(isinstance(e, ast.Name) and e.id == cls_name for e in v.elts):
                return gname
        raise AnalysisError(f"JS-LEAF: no module-level table of classes listing {cls_name} found")
    leaf_c, list_c = table_with("str"), table_with("list")
    dp = disp.params[1]
    paths = explore(prog, disp, [Sym("cls"), Sym(dp)], preset={("isinstance", dp, leaf_c): True, ("isinstance", dp, list_c): False}, max_paths=200)
    ok = bool(paths) and all(o[0] == "return" and term(o[1]) == dp and not calls for _v, o, calls in paths)
    r.check(ok, "SubclassJSONSerializer.from_json#leaf-is-returned-as-it-is", site(disp), f"{len(paths)} path(s)", "a leaf is returned unchanged, nothing is called on it",
            "a JSON leaf is not handed back as it is by the reader")
    import builtins

    wp = writer.params[0]
    paths = explore(prog, writer, [Sym(wp)], preset={("isinstance", wp, leaf_c): True, ("isinstance", wp, list_c): False, ("isinstance", wp, "SubclassJSONSerializer"): False}, max_paths=200)
    plain = [o for _v, o, _c in paths if o[0] == "return" and term(o[1]) == wp]
    other = [o for v, o, _c in paths if not (o[0] == "return" and term(o[1]) == wp)
             and not (o[0] == "return" and isinstance(o[1], App) and any("get_serializer" in str(k[1]) for k in v) and o[1].fn.isidentifier()
                      and not hasattr(builtins, o[1].fn) and (m.name + "." + o[1].fn) not in prog.functions)]
    r.check(bool(plain) and not other, "to_json#untagged-leaf-is-returned-as-it-is", site(writer), f"{len(paths)} path(s)", "a leaf without registered serializer is returned unchanged",
            f"a JSON leaf that carries no type tag is not written as it is ({term(other[0][1])[:60] if other and len(other[0]) > 1 else ''})")
    return r


def _shared_default(prog):
    # the writer and reader keep nothing between calls, default arguments included
    from .shareddefault import shared_default

    return shared_default(prog, ["adapters.json_serializer"], 10)


def _sg_singleton(prog):
    # the registry of serialisers for foreign types is a singleton: what was registered (uuid at import time, the user's types) must be what
    # to_json / from_json find, whoever calls them
    from .c13 import sg_singleton

    return sg_singleton(prog)


def run(prog: Program, tier: str) -> List[RuleResult]:
    return [guard(lambda: js_tag(prog, tier)), guard(lambda: js_agree(prog)), guard(lambda: js_pure(prog)), guard(lambda: _shared_default(prog)), guard(lambda: js_leaf(prog)), guard(lambda: _sg_singleton(prog))]
