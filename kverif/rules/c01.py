"""C01 - EQL answers are exactly the satisfying assignments (sound and complete).

EP-THREAD  whenever a node evaluates several sub-expressions to build one result, each later
           evaluation receives bindings derived from the earlier result
EP-NEG     a result flagged false is a falsifying assignment (needed by the generic negation)
EP-FILTER  only true results of the conditions reach the evaluation of the selected variables
EP-UNIVERSAL  the universal quantifier evaluates its condition for every value the quantified expression produces
First-order correctness over arbitrary query shapes x data is not decided (it needs an oracle
evaluator - a different technique).
"""
from __future__ import annotations

import ast
from typing import Dict, List, Optional, Set

from ..model import Program, AnalysisError, ClassInfo
from ..report import RuleResult, guard
from ..astutil import src
from ..evalproto import summarize, Summary, Site, Emission

EXPLANATION = (
    "Provenance analysis of the evaluation protocol: for every concrete expression class the _evaluate__ found through its "
    "MRO is interpreted abstractly (self/super calls inlined) with values carrying may/must sets of origins - the incoming "
    "bindings and each child evaluation site - and truth flags carrying the site they were read from. EP-THREAD: a child "
    "evaluation nested in the iteration over another child's results must receive bindings that derive from that result, and "
    "an evaluation repeated over a collection of sub-expressions must receive what the previous one produced; otherwise two "
    "sub-expressions sharing a variable are enumerated independently and one row mixes values of different assignments. "
    "EP-NEG: for every operator that inherits the generic negation (Not flips each child result), an emission that can be "
    "flagged false must carry bindings derived from the operand evaluations that make it false - both operands for a "
    "disjunction, at least the deciding one for a conjunction. EP-FILTER: the stream of condition results that feeds the "
    "selected variables passes a truth filter. EP-UNIVERSAL: in ForAll._evaluate__ every path through one iteration of the loop "
    "over the quantified expression's results reaches a call that (through self calls) evaluates the condition - an iteration "
    "that can return to the loop head without it lets a row through whose condition was never checked for that value. "
    "These are necessary conditions of soundness and row consistency."
)
ASSUMPTIONS = [
    "a child's result bindings extend the bindings it was evaluated with (checked per class by the same rules)",
    "operator classes outside the public builders (rule-tree selectors) are not negatable by a user",
    "completeness/soundness of whole queries on data is not decided",
]

SE = "symbolic.SymbolicExpression"


def concrete_classes(prog: Program) -> List[ClassInfo]:
    se = prog.cls(SE)
    out = []
    for c in prog.subclasses(se.qual):
        if prog.is_abstract_class(c.qual) or "ABC" in [b.split(".")[-1] for b in c.bases]:
            continue
        if prog.lookup(c.qual, "_evaluate__") is None:
            continue
        out.append(c)
    return out


_cache: Dict[str, Summary] = {}


def summary_of(prog: Program, c: ClassInfo) -> Summary:
    # cached on the program object (ids of collected programs are reused within one self-test process)
    cache = prog.__dict__.setdefault("_c01_summaries", {})
    if c.qual not in cache:
        cache[c.qual] = summarize(prog, c.qual)
    return cache[c.qual]


def _definer(prog: Program, c: ClassInfo) -> str:
    """class whose code the summary's site lives in: findings are keyed by the defining function"""
    return prog.lookup(c.qual, "_evaluate__").cls.name


def ep_thread(prog: Program) -> RuleResult:
    r = RuleResult("EP-THREAD", "later child evaluations receive bindings derived from earlier ones", floor=10)
    seen = set()
    universal = prog.cls("symbolic.ForAll").qual
    for c in concrete_classes(prog):
        s = summary_of(prog, c)
        by_id = {st.id: st for st in s.sites}
        for st in s.sites:
            # (a) nested in the iteration over another site's results
            for outer in sorted(set(st.loops)):
                if outer == st.id or outer not in by_id:
                    continue
                key = f"{st.func}#{st.recv}<-{by_id[outer].recv}"
                if key in seen:
                    continue
                seen.add(key)
                ok = outer in st.arg0.may
                r.check(
                    ok, key, f"{st.module}:{st.lineno}", src(st.node),
                    f"evaluated with bindings derived from the result of {by_id[outer].recv}",
                    f"{st.recv} is evaluated inside the iteration over the results of {by_id[outer].recv} but with bindings {sorted(st.arg0.may)} that do not "
                    f"derive from them: variables shared by the two sub-expressions are enumerated independently",
                )
            # (b) repeated over a collection of sub-expressions
            if st.over_collection and not st.recv.startswith("self"):
                key = f"{st.func}#{st.recv} in {st.over_collection}"
                if key in seen:
                    continue
                seen.add(key)
                combined = any(st.id in e.bindings.may for e in s.emissions)
                ok = (st.id in st.arg0.may) or not combined
                r.check(
                    ok, key, f"{st.module}:{st.lineno}", src(st.node),
                    "each evaluation starts from what the previous one produced",
                    f"every element of {st.over_collection} is evaluated from the same bindings {sorted(st.arg0.may)} and the results are combined into one row: "
                    f"expressions over a shared unbound variable are enumerated independently (cross product) and a row mixes values of different assignments",
                )
    # (c) helpers that thread the bindings through a recursion of their own (the arguments of a call, one after the other): the
    # bindings handed to the next step derive from the result at hand on *every* path - `known or var_val.bindings` hands the third
    # argument the bindings from before the second, so sums_to(9, x.a, x.b) is computed from the a of one x and the b of another
    from ..model import walk_local
    from ..astutil import call_name, site

    n_rec = 0
    for f in sorted(prog.functions.values(), key=lambda x: x.qual):
        if ".entity_query_language." not in f.qual or f.cls is None:
            continue
        for lp in [x for x in walk_local(f.node) if isinstance(x, ast.For) and isinstance(x.target, ast.Name) and isinstance(x.iter, ast.Call) and call_name(x.iter) == "_evaluate__" and x.iter.args]:
            src_param = x_id(lp.iter.args[0])
            if src_param not in f.params:
                continue
            pos = f.params.index(src_param) - 1
            for c in [c for b in lp.body for c in ast.walk(b) if isinstance(c, ast.Call) and isinstance(c.func, ast.Attribute) and c.func.attr == f.name and x_id(c.func.value) == f.params[0]]:
                arg = c.args[pos] if 0 <= pos < len(c.args) else next((k.value for k in c.keywords if k.arg == src_param), None)
                if arg is None:
                    continue
                n_rec += 1
                single = {}
                for y in walk_local(f.node):
                    if isinstance(y, ast.Assign) and len(y.targets) == 1 and isinstance(y.targets[0], ast.Name):
                        single.setdefault(y.targets[0].id, []).append(y.value)

                def must(e, depth=0):
                    if isinstance(e, ast.BoolOp):
                        return all(must(v, depth) for v in e.values)
                    if isinstance(e, ast.IfExp):
                        return must(e.body, depth) and must(e.orelse, depth)
                    if isinstance(e, ast.Dict):
                        return any(k is None and must(v, depth) for k, v in zip(e.keys, e.values))
                    if isinstance(e, ast.Name):
                        if e.id == lp.target.id:
                            return True
                        return depth < 3 and e.id in single and all(must(v, depth + 1) for v in single[e.id])
                    if isinstance(e, (ast.Attribute, ast.Subscript)):
                        return must(e.value, depth)
                    if isinstance(e, ast.Call):
                        return isinstance(e.func, ast.Attribute) and must(e.func.value, depth)
                    return False

                r.check(must(arg), f"{f.short}#next-step<-{lp.target.id}", site(f, c), src(arg)[:80], f"the next step receives bindings derived from {lp.target.id} on every path",
                        f"the recursion over the remaining sub-expressions is continued with `{src(arg)[:60]}`, which on some path is not derived from the result `{lp.target.id}` at hand: a later "
                        "argument does not see a variable an earlier one bound, the call is computed from values of two different assignments and the row reports only one of them")
    if n_rec < 1:
        raise AnalysisError("EP-THREAD: no helper threads bindings through a recursion over `_evaluate__` results (Variable._generate_child_vars_values_from_ is the confirmed instance)")
    return r


def x_id(e):
    return e.id if isinstance(e, ast.Name) else None


def negatable_operators(prog: Program) -> List[ClassInfo]:
    """operator classes that inherit the generic `_invert_` (Not(self)) and can be built by the public vocabulary"""
    lbo = prog.cls("symbolic.LogicalBinaryOperator").qual
    sel = prog.cls("conclusion_selector.ConclusionSelector").qual
    se = prog.cls(SE)
    generic = se.methods.get("_invert_")
    out = []
    for c in concrete_classes(prog):
        if not prog.is_subclass(c.qual, lbo) or prog.is_subclass(c.qual, sel):
            continue
        inv = prog.lookup(c.qual, "_invert_")
        if inv is generic or _returns_not_self(inv):
            out.append(c)
    return out


def _returns_not_self(inv) -> bool:
    """some branch of this negation wraps the operator itself in Not: the generic negation, with its demands on false results"""
    for n in ast.walk(inv.node):
        if isinstance(n, ast.Call) and isinstance(n.func, ast.Name) and n.func.id == "Not" and len(n.args) == 1 and isinstance(n.args[0], ast.Name) and n.args[0].id == "self":
            return True
    return False


def ep_neg(prog: Program) -> RuleResult:
    r = RuleResult("EP-NEG", "results flagged false carry the bindings of the operand evaluations that falsify them", floor=6)
    orq = prog.cls("symbolic.OR").qual
    ops = negatable_operators(prog)
    if len(ops) < 2:
        raise AnalysisError("EP-NEG: fewer than two operators inherit the generic negation (AND and the else-if form are the confirmed instances)")
    for c in ops:
        s = summary_of(prog, c)
        left = {st.id for st in s.sites if "self.left" in st.recv_roles}
        right = {st.id for st in s.sites if "self.right" in st.recv_roles}
        is_or = prog.is_subclass(c.qual, orq)
        for i, e in enumerate(s.emissions):
            fl = e.flag.flag if e.flag is not None else None
            if fl == ("const", False):
                continue  # always a true result
            key = f"{c.name}:{e.func}#emission-{_flag_label(fl, s)}"
            have_l, have_r = bool(e.bindings.must & left), bool(e.bindings.must & right)
            if is_or:
                ok = have_l and have_r
                need = "both operands (a disjunction is false only if both sides are false under the same bindings)"
            else:
                ok = have_l or have_r
                need = "the operand that decided it"
            r.check(
                ok, key, f"{e.module}:{e.lineno}", f"bindings from {sorted(e.bindings.must)}, flag from {_flag_label(fl, s)}",
                f"a false result carries bindings of {need}",
                f"{c.name} can emit a result flagged false whose bindings derive from {sorted(e.bindings.must)} only; it needs {need}. {c.name} inherits the generic "
                f"negation, which turns every false child result into a true one: not_(or_(x.a == 0, y.a == 0)) returns an x with x.a == 0",
            )
    _invert_shapes(prog, r)
    return r


# operator pairs that are exact complements on *every* pair of operands; < / >= and > / <= are not (partial orders: sets by
# inclusion, NaN, classes with partial comparisons: both not(a < b) and not(a >= b) can hold)
EXACT_COMPLEMENTS = {("eq", "ne"), ("ne", "eq"), ("contains", "not_contains"), ("not_contains", "contains"),
                     ("is_", "is_not"), ("is_not", "is_")}


class _Uninterpretable(Exception):
    pass


class _Bypass(Exception):
    pass


def _formula(prog: Program, c: ClassInfo, fn, e: ast.expr):
    """logical reading of an expression built inside a method of operator class c (self is the operator):
    ('atom', name) | ('not', f) | ('and', f, g) | ('or', f, g) | ('forall'|'exists', var, f) | ('cmp', op-expr-text, exact?)"""
    m = fn.module
    orq, andq = prog.cls("symbolic.OR").qual, prog.cls("symbolic.AND").qual
    notq = prog.cls("symbolic.Not").qual

    def alias(attr: str) -> str:
        g = prog.lookup(c.qual, attr)
        if g is not None and g.is_property and not g.is_setter:
            rets = [n for n in ast.walk(g.node) if isinstance(n, ast.Return) and n.value is not None]
            if len(rets) == 1 and isinstance(rets[0].value, ast.Attribute) and isinstance(rets[0].value.value, ast.Name) and rets[0].value.value.id == "self":
                return alias(rets[0].value.attr)
        return attr

    def go(x):
        if isinstance(x, ast.Attribute) and isinstance(x.value, ast.Name) and x.value.id == "self":
            return ("atom", alias(x.attr))
        if isinstance(x, ast.Name) and x.id == "self":
            return _meaning(prog, c)
        if isinstance(x, ast.Call):
            f = x.func
            if isinstance(f, ast.Attribute) and f.attr == "_invert_" and not x.args:
                return ("not", go(f.value))
            q = m.resolve(f) if isinstance(f, (ast.Name, ast.Attribute)) else None
            if q in prog.classes:
                args = [a for a in x.args] + [k.value for k in x.keywords]
                if prog.is_subclass(q, orq) and len(args) == 2:
                    return ("or", go(args[0]), go(args[1]))
                if prog.is_subclass(q, andq) and len(args) == 2:
                    return ("and", go(args[0]), go(args[1]))
                if prog.is_subclass(q, notq) and len(args) == 1:
                    if not (isinstance(args[0], ast.Name) and args[0].id == "self"):
                        # Not(x) flips x's results (the generic negation) even when x's class negates itself differently
                        raise _Bypass(src(x))
                    return ("not", go(args[0]))
                if prog.classes[q].name in ("ForAll", "Exists") and len(args) == 2:
                    return ("forall" if prog.classes[q].name == "ForAll" else "exists", go(args[0]), go(args[1]))
            if q in prog.functions:
                name = prog.functions[q].name
                if name in ("and_",) and x.args:
                    out = go(x.args[0])
                    for a in x.args[1:]:
                        out = ("and", out, go(a))
                    return out
                if name in ("or_", "optimize_or") and x.args:
                    out = go(x.args[0])
                    for a in x.args[1:]:
                        out = ("or", out, go(a))
                    return out
                if name == "not_" and len(x.args) == 1:
                    return ("not", go(x.args[0]))
        raise _Uninterpretable(src(x))

    return go(e)


def _meaning(prog: Program, c: ClassInfo):
    orq, andq = prog.cls("symbolic.OR").qual, prog.cls("symbolic.AND").qual
    if prog.is_subclass(c.qual, orq):
        return ("or", ("atom", "left"), ("atom", "right"))
    if prog.is_subclass(c.qual, andq):
        return ("and", ("atom", "left"), ("atom", "right"))
    if c.name == "ForAll":
        return ("forall", ("atom", "left"), ("atom", "right"))
    if c.name == "Exists":
        return ("exists", ("atom", "left"), ("atom", "right"))
    if c.name == "Not":
        return ("not", ("atom", "_child_"))
    return ("atom", "self")  # a leaf condition (comparison, predicate, variable)


def _atoms(f, acc):
    if f[0] == "atom":
        acc.add(f[1])
    else:
        for x in f[1:]:
            if isinstance(x, tuple):
                _atoms(x, acc)
    return acc


def _holds(f, val, ctx):
    """val: atom -> (truth under quantified value 0, under value 1); ctx: the value the enclosing quantifier is at"""
    k = f[0]
    if k == "atom":
        return val[f[1]][ctx]
    if k == "not":
        return not _holds(f[1], val, ctx)
    if k == "and":
        return _holds(f[1], val, ctx) and _holds(f[2], val, ctx)
    if k == "or":
        return _holds(f[1], val, ctx) or _holds(f[2], val, ctx)
    if k == "forall":
        return all(_holds(f[2], val, i) for i in (0, 1))
    if k == "exists":
        return any(_holds(f[2], val, i) for i in (0, 1))
    raise _Uninterpretable(str(f))


def _quantified_over(f):
    return [x[1] for x in _walk(f) if x[0] in ("forall", "exists")]


def _walk(f):
    yield f
    for x in f[1:]:
        if isinstance(x, tuple):
            yield from _walk(x)


def _equivalent(f, g) -> Optional[dict]:
    """None when f and g agree on every valuation over a two-element model; otherwise a distinguishing valuation"""
    import itertools

    names = sorted(_atoms(f, set()) | _atoms(g, set()))
    pairs = [(a, b) for a in (False, True) for b in (False, True)]
    for combo in itertools.product(pairs, repeat=len(names)):
        val = dict(zip(names, combo))
        if _holds(f, val, 0) != _holds(g, val, 0):
            return val
    if _quantified_over(f) != _quantified_over(g):
        return {"quantified expression": f"{_quantified_over(f)} vs {_quantified_over(g)}"}
    return None


def _comparator_flip(prog: Program, c: ClassInfo, inv, v) -> Optional[str]:
    """A comparator that negates itself by swapping its operation: every swapped pair must be an exact complement.
    Returns a complaint, '' when fine, None when the expression is not of this shape."""
    if not (isinstance(v, ast.Call) and inv.module.resolve(v.func) in prog.classes and prog.is_subclass(inv.module.resolve(v.func), prog.cls("symbolic.Comparator").qual)):
        return None
    op = v.args[2] if len(v.args) >= 3 else next((k.value for k in v.keywords if k.arg == "operation"), None)
    if op is None:
        raise _Uninterpretable(src(v))
    # the operation argument, through one local assignment
    if isinstance(op, ast.Name):
        defs = [x.value for x in ast.walk(inv.node) if isinstance(x, ast.Assign) and any(isinstance(t, ast.Name) and t.id == op.id for t in x.targets)]
        if len(defs) != 1:
            raise _Uninterpretable(src(v))
        op = defs[0]
    if isinstance(op, ast.Attribute) and isinstance(op.value, ast.Name) and op.value.id == "self":
        return f"keeps its operation ({src(op)}): the result is the comparison itself, not its negation"
    tname = None
    if isinstance(op, ast.Subscript) and isinstance(op.value, ast.Attribute):
        tname = op.value.attr
    elif isinstance(op, ast.Call) and isinstance(op.func, ast.Attribute) and op.func.attr == "get" and isinstance(op.func.value, ast.Attribute):
        tname = op.func.value.attr
    table = None
    for cq in prog.mro(c.qual):
        ci = prog.classes.get(cq)
        if ci is None or tname is None:
            continue
        for st in ci.node.body:
            tg = st.targets[0] if isinstance(st, ast.Assign) else getattr(st, "target", None)
            if isinstance(tg, ast.Name) and tg.id == tname and isinstance(getattr(st, "value", None), ast.Dict):
                table = table or st.value
    if table is None:
        raise _Uninterpretable(src(v))
    bad = []
    for k, val in zip(table.keys, table.values):
        a, b = src(k).split(".")[-1], src(val).split(".")[-1]
        if (a, b) not in EXACT_COMPLEMENTS:
            bad.append(f"{a} -> {b}")
    return ("swaps operations that are not complements on partially ordered values (sets, NaN): " + ", ".join(bad)) if bad else ""


def _invert_shapes(prog: Program, r: RuleResult):
    """operators with their own negation: what they return must be logically equivalent to their negation. The returned
    expression is read as a formula (AND/OR/Not and their builders, x._invert_(), ForAll/Exists) and compared with the negation
    of the operator's own meaning by truth table over a two-element model (which separates the quantifier duals)."""
    se = prog.cls(SE)
    generic = se.methods.get("_invert_")
    for c in concrete_classes(prog):
        inv = c.methods.get("_invert_")
        if inv is None or inv is generic:
            continue
        rets = [n for n in ast.walk(inv.node) if isinstance(n, ast.Return) and n.value is not None]
        raises = [n for n in ast.walk(inv.node) if isinstance(n, ast.Raise)]
        key = f"{c.name}._invert_#dual"
        where = f"{inv.module.relpath}:{inv.node.lineno}"
        if raises and not rets:
            r.ok(key, where, src(raises[0]), "negation is rejected")
            continue
        branches = []
        for ret in rets:
            todo = [ret.value]
            while todo:
                x = todo.pop()
                if isinstance(x, ast.IfExp):
                    todo += [x.body, x.orelse]
                else:
                    branches.append(x)
        for v in branches:
            try:
                flip = _comparator_flip(prog, c, inv, v)
                if flip is not None:
                    r.check(flip == "", key, where, src(v), "every swapped pair of operations is an exact complement",
                            f"{c.name} negates itself by swapping its operation, and {flip}: not_(a < b) holds for incomparable a, b while a >= b does not, so satisfying assignments are dropped")
                    continue
                got = _formula(prog, c, inv, v)
                want = ("not", _meaning(prog, c))
                diff = _equivalent(got, want)
            except _Bypass as ex:
                r.fail(key, where, src(v), f"{c.name} negates an operand by wrapping it in {ex} instead of asking the operand for its negation (_invert_): an operand that "
                       f"negates itself differently (a disjunction uses De Morgan because flipping its results is unsound) is negated wrongly")
                continue
            except _Uninterpretable as ex:
                raise AnalysisError(f"EP-NEG: cannot read the negation of {c.name} as a formula ({ex}); extend _formula")
            r.check(diff is None, key, where, src(v), "the returned expression is equivalent to the negation of the operator (truth table, two-element model)",
                    f"{c.name} negates itself as {src(v)}, which differs from its negation under {diff}")


def _flag_label(fl, s=None) -> str:
    if fl is None:
        return "none"
    if fl[0] == "elem":
        def role(sid):
            if s is None:
                return sid
            st = next((x for x in s.sites if x.id == sid), None)
            if st is None:
                return sid
            threaded = any(t.startswith("E") for t in st.arg0.must)
            return f"{'/'.join(sorted(st.recv_roles))}[{'threaded' if threaded else 'from-sources'}]"
        return "is_false-of-" + "+".join(sorted(role(x) for x in fl[1]))
    if fl[0] == "const":
        return f"const-{fl[1]}"
    return fl[0]


def ep_filter(prog: Program) -> RuleResult:
    r = RuleResult("EP-FILTER", "only true condition results reach the selected variables", floor=2)
    qod = prog.cls("symbolic.QueryObjectDescriptor")
    for c in [c for c in concrete_classes(prog) if prog.is_subclass(c.qual, qod.qual)]:
        s = summary_of(prog, c)
        child_sites = {st.id for st in s.sites if "self._child_" in st.recv_roles}
        var_sites = [st for st in s.sites if not (st.recv_roles & {"self._child_"})]
        # the stream over the child's results that encloses the selected-variable evaluation must be filtered on truth
        g = summarize(prog, c.qual, "get_constrained_values")
        ok = True
        n = 0
        for e in g.emissions:
            if e.bindings.elem_sites:
                n += 1
                guarded = any(gd[0] and gd[0][0] in ("elem", "not") and "is_true" in str(gd) for gd in e.guards)
                ok = ok and (e.bindings.filtered == "true" or guarded)
        r.check(ok and n >= 1 and bool(child_sites), f"{_definer(prog, c)}.get_constrained_values#truth-filter:{c.name}", c.loc, "",
                "results of the conditions are filtered on is_true before the selected variables are evaluated",
                "false results of the conditions reach the selected variables: values that violate the conditions are returned")
        used = all(any(cs in st.loops for cs in child_sites) or not child_sites for st in var_sites)
        r.check(bool(var_sites) and used, f"{_definer(prog, c)}.evaluate_selected_variables#inside-filtered-stream:{c.name}", c.loc, "",
                "selected variables are evaluated per (filtered) condition result", "selected variables are not evaluated per condition result")
    return r


def site_of(f) -> str:
    return f"{f.module.relpath}:{f.node.lineno}"


def _expanded_test(prog: Program, cq: str, f, test: ast.expr) -> List[ast.expr]:
    """the test together with the bodies of the node's own properties it reads (locals of the property inlined)"""
    out = [test]
    selfn = f.params[0] if f.params else "self"
    for x in ast.walk(test):
        if isinstance(x, ast.Attribute) and isinstance(x.value, ast.Name) and x.value.id == selfn:
            p = prog.lookup(cq, x.attr)
            if p is None or not getattr(p, "is_property", False) and not any(src(d).endswith("property") for d in p.node.decorator_list):
                continue
            body = [st for st in p.node.body if not (isinstance(st, ast.Expr) and isinstance(st.value, ast.Constant))]
            env = {}
            # `if T: return A` followed by `return B` is one value: A if T else B (guards folded from the end)
            folded = []
            for i, st in enumerate(body):
                if isinstance(st, ast.If) and not st.orelse and len(st.body) == 1 and isinstance(st.body[0], ast.Return) and st.body[0].value is not None \
                        and all(isinstance(x, (ast.If, ast.Return)) for x in body[i:]):
                    tail = body[i:]
                    val = tail[-1].value if isinstance(tail[-1], ast.Return) else None
                    if val is None:
                        break
                    okf = True
                    for g_ in reversed(tail[:-1]):
                        if isinstance(g_, ast.If) and not g_.orelse and len(g_.body) == 1 and isinstance(g_.body[0], ast.Return) and g_.body[0].value is not None:
                            val = ast.IfExp(test=g_.test, body=g_.body[0].value, orelse=val)
                        else:
                            okf = False
                    if okf:
                        folded = body[:i] + [ast.Return(value=val)]
                    break
            for st in (folded or body):
                if isinstance(st, ast.Assign) and len(st.targets) == 1 and isinstance(st.targets[0], ast.Name):
                    env[st.targets[0].id] = st.value
                elif isinstance(st, ast.Return) and st.value is not None:

                    class Sub(ast.NodeTransformer):
                        def visit_Name(self, n):
                            return env.get(n.id, n) if isinstance(n.ctx, ast.Load) else n

                    import copy
                    e = Sub().visit(copy.deepcopy(st.value))
                    # the property speaks about its own `self`
                    psel = p.params[0] if p.params else "self"
                    if psel != selfn:
                        for y in ast.walk(e):
                            if isinstance(y, ast.Name) and y.id == psel:
                                y.id = selfn
                    out.append(ast.fix_missing_locations(e))
    return out


def ep_union_pass(prog: Program) -> RuleResult:
    """The union form of or_ evaluates its right operand a second time on its own.  A false result of that pass says that the right operand is
    false for a binding - not that the disjunction is.  Whoever sits above (a conjunction passes falsity on, a negation flips it) would take
    it for a verdict of the disjunction."""
    r = RuleResult("EP-UNION-PASS", "the union form of or_ reports falsity only where both operands were evaluated", floor=1)
    un = prog.cls("symbolic.Union")
    s = summary_of(prog, un)
    left = {st.id for st in s.sites if "self.left" in st.recv_roles}
    right = {st.id for st in s.sites if "self.right" in st.recv_roles}
    bad = None
    n = 0
    for e in s.emissions:
        n += 1
        fl = e.flag.flag if e.flag is not None else None
        if fl == ("const", False):
            continue
        if any((str(g[2]).endswith(".is_true") and g[1] is True) or (str(g[2]).endswith(".is_false") and g[1] is False) for g in e.guards):
            continue
        if not (e.bindings.must & left and e.bindings.must & right):
            bad = bad or (e, fl)
    if n < 1:
        raise AnalysisError("EP-UNION-PASS: the union evaluation has no emission")
    # ... and the falsity of the disjunction is reported at all: some emission that is not restricted to true results carries bindings under
    # which both operands were evaluated. Whoever sits above needs it - a negation turns it into a row, an else-if tries its next branch.
    def true_only(e):
        fl_ = e.flag.flag if e.flag is not None else None
        return fl_ == ("const", False) or any((str(g[2]).endswith(".is_true") and g[1] is True) or (str(g[2]).endswith(".is_false") and g[1] is False) for g in e.guards) \
            or getattr(e.bindings, "filtered", None) == "true"
    verdicts = [e for e in s.emissions if not true_only(e) and e.bindings.must & left and e.bindings.must & right]
    # the pass that evaluates both operands is consumed by the union's own evaluation: a filter on true results around it removes the verdicts
    from ..model import walk_local, parents_of
    from ..astutil import call_name as _cn

    uev = prog.lookup(un.qual, "_evaluate__")
    par = parents_of(uev.node)
    passes = [c_ for c_ in walk_local(uev.node) if isinstance(c_, ast.Call) and _cn(c_) == "evaluate_left"]
    def filtered_true(c_):
        x = c_
        while x in par:
            p_ = par[x]
            if isinstance(p_, ast.Call) and isinstance(p_.func, ast.Name) and p_.func.id == "filter" and x in p_.args and "is_true" in src(p_.args[0]):
                return True
            if isinstance(p_, ast.comprehension) and p_.iter is x and any("is_true" in src(i) for i in p_.ifs):
                return True
            if isinstance(p_, ast.For) and p_.iter is x and any(isinstance(t_, ast.If) and "is_true" in src(t_.test) and not t_.orelse for t_ in p_.body) and len(p_.body) == 1:
                return True
            x = p_
        return False
    if passes and all(filtered_true(c_) for c_ in passes):
        verdicts = []
    r.check(bool(verdicts), "Union#reports-false-when-both-are-false", un.loc, f"{len(verdicts)} of {n} emissions can carry the falsity of the disjunction",
            "a pass that evaluated both operands hands its false results on",
            "every pass of the union evaluation hands on true results only: the disjunction never reports a binding as false, so not_(and_(or_(a(x), b(y)), c(x))) loses every row on "
            "which the disjunction is false, and or_(a(x), b(y), c(x, y)) never tries c")
    r.check(bad is None, "Union#false-means-both-false", un.loc, f"{n} emissions of the union evaluation",
            "a result is flagged false only with bindings under which both operands were evaluated",
            f"the union evaluation ({bad[0].func if bad else ''}) emits a result flagged false from {_flag_label(bad[1], s) if bad else ''} alone: "
            "not_(and_(or_(x.n > 3, y.n > 100), x.n > 0)) flips that into rows with x unbound (every x is returned)")
    return r


def ep_selected(prog: Program) -> RuleResult:
    """The values of the selected expressions are data.  The conditions decide which assignments are solutions (EP-FILTER); once an
    assignment passed them, the row is reported whatever the selected values are - 0, '', False and empty collections included.  So the
    stream of selected-variable results is never filtered on its truth flag between the place it is produced and the descriptor's output."""
    from ..callgraph import self_closure
    from ..astutil import calls_in, call_name, site
    from ..model import walk_local, parents_of

    r = RuleResult("EP-SELECTED", "results of the selected expressions are reported whatever their truth", floor=1)
    qod = prog.cls("symbolic.QueryObjectDescriptor")
    ev = prog.lookup(qod.qual, "_evaluate__")
    fs, _ = self_closure(prog, qod.qual, ev, False)
    fs = [f for f in fs if f.cls is not None and f.cls.qual == qod.qual]
    producers = {f.name for f in fs if "selected_variable" in f.name}
    if not producers:
        raise AnalysisError("EP-SELECTED: no method of QueryObjectDescriptor evaluates the selected variables")
    # A filter on the flag only matters if a selected value can be flagged false. It cannot when (a) the descriptor evaluates its selected
    # expressions with itself as their parent and (b) "do I stand as a condition" answers from that parent alone - true below a query only
    # for the query's condition (its _child_), the structural tree being consulted only for a node that has no parent in this evaluation.
    # Then the obligation is discharged by those two facts (EP-OPERAND keeps (b)); otherwise the stream must not be filtered.
    passes_self = False
    for f in fs:
        for c in calls_in(f.node):
            if isinstance(c.func, ast.Attribute) and c.func.attr == "_evaluate__" and "var" in src(c.func.value):
                pv = next((k.value for k in c.keywords if k.arg == "parent"), c.args[1] if len(c.args) > 1 else None)
                passes_self = pv is not None and src(pv) == f.params[0]
    se_ = prog.cls("symbolic.SymbolicExpression")
    sac = prog.lookup(se_.qual, "_stands_as_condition_")
    by_parent_alone = False
    if sac is not None:
        probe = ast.parse(f"{sac.params[0] if sac.params else 'self'}._stands_as_condition_", mode="eval").body
        exprs = _expanded_test(prog, se_.qual, sac, probe)
        roots = [x for e in exprs for x in ast.walk(e) if isinstance(x, ast.Compare) and "_conditions_root_" in src(x)]
        parentless = lambda e: isinstance(e, ast.Compare) and len(e.ops) == 1 and isinstance(e.ops[0], ast.Is) and "_eval_parent_" in src(e.left) and isinstance(e.comparators[0], ast.Constant) and e.comparators[0].value is None
        tree_guarded = all(any(isinstance(b, ast.BoolOp) and isinstance(b.op, ast.And) and any(v is rt for v in b.values) and any(parentless(v) for v in b.values[:b.values.index(rt)])
                               for e in exprs for b in ast.walk(e)) for rt in roots)
        qtests = [x for e in exprs for x in ast.walk(e) if isinstance(x, ast.Call) and isinstance(x.func, ast.Name) and x.func.id == "isinstance" and len(x.args) == 2 and "QueryObjectDescriptor" in src(x.args[1])]
        child_only = all(any(isinstance(b, ast.BoolOp) and isinstance(b.op, ast.And) and any(v is q for v in b.values) and any("_child_" in src(v) and " is " in src(v) for v in b.values)
                             for e in exprs for b in ast.walk(e)) for q in qtests)
        by_parent_alone = tree_guarded and child_only and bool(exprs)
    if passes_self and by_parent_alone:
        r.ok("QueryObjectDescriptor#selected-values-are-never-flagged-false", f"{sac.module.relpath}:{sac.node.lineno}", "",
             "selected expressions are evaluated with the descriptor as their parent and only the descriptor's condition stands as a condition below it: "
             "their results are flagged true whatever the value, a filter on the flag could not drop one")
        return r
    n = 0
    for f in sorted(fs, key=lambda x: x.qual):
        par = parents_of(f.node)
        for k_, c in enumerate(sorted([c for c in calls_in(f.node) if call_name(c) in producers or (isinstance(c.func, ast.Attribute) and c.func.attr == "_evaluate__" and "var" in src(c.func.value))],
                                      key=lambda z: (z.lineno, z.col_offset))):
            n += 1
            bad = None
            x = c
            var = None
            while x in par:
                p = par[x]
                if isinstance(p, ast.Call) and isinstance(p.func, ast.Name) and p.func.id == "filter" and x in p.args and any(t in src(p.args[0]) for t in ("is_true", "is_false")):
                    bad = p
                if isinstance(p, ast.comprehension) and p.iter is x and any(t in src(i) for i in p.ifs for t in ("is_true", "is_false")):
                    bad = p.ifs[0]
                if isinstance(p, ast.For) and p.iter is x and isinstance(p.target, ast.Name):
                    var = p.target.id
                    for t in [y for y in ast.walk(p) if isinstance(y, ast.If)]:
                        if any(isinstance(z, ast.Attribute) and z.attr in ("is_true", "is_false") and isinstance(z.value, ast.Name) and z.value.id == var for z in ast.walk(t.test)) \
                                and any(isinstance(z, (ast.Continue, ast.Break, ast.Return)) for b in t.body + t.orelse for z in ast.walk(b)):
                            bad = t.test
                x = p
            r.check(bad is None, f"{f.short}#selected-values-unfiltered[{k_}]", site(f, bad if bad is not None else c), src(c)[:80],
                    "the stream of selected values is passed on as it is",
                    f"the results of the selected expressions are filtered on their truth flag ({src(bad)[:60] if bad is not None else ''}): a solution whose selected value is falsy "
                    "(entity(y) over [0, 1, 2]; set_of([x, y], cond(x)) with y = 0) is dropped, the(...) and the count constraints see fewer solutions than there are")
    if n < 1:
        raise AnalysisError("EP-SELECTED: no evaluation of selected variables found")
    return r


def ep_operand(prog: Program) -> RuleResult:
    """Operand results are filtered on their truth flag by comparators; the flag of a value-producing node must therefore not
    depend on the truthiness of the value unless the node stands in condition position."""
    from ..cfg import CFG
    from ..model import walk_local

    r = RuleResult("EP-OPERAND", "a value-producing node flags its result false from the value's truth only in condition position", floor=2)
    cbv = prog.cls("symbolic.CanBehaveLikeAVariable").qual
    seen = set()
    const_false: Dict[str, list] = {}
    judged: Set[str] = set()
    for c in concrete_classes(prog):
        if not prog.is_subclass(c.qual, cbv):
            continue
        todo = [g for g in {prog.lookup(c.qual, "_evaluate__")} | {prog.lookup(c.qual, m) for m in ("_build_operation_result_and_update_truth_value_", "_process_output_and_update_values_")} if g is not None]
        # a flag computed by a method of the node (OperationResult(..., self.m(value), self)) is judged where it is computed
        for g in list(todo):
            for call in [x for x in ast.walk(g.node) if isinstance(x, ast.Call) and isinstance(x.func, ast.Name) and x.func.id == "OperationResult" and len(x.args) >= 2]:
                fl = call.args[1]
                if isinstance(fl, ast.Call) and isinstance(fl.func, ast.Attribute) and isinstance(fl.func.value, ast.Name) and fl.func.value.id == g.params[0]:
                    h = prog.lookup(c.qual, fl.func.attr)
                    if h is not None and h not in todo:
                        todo.append(h)
        for f in todo:
            if f is None or f.qual in seen:
                continue
            seen.add(f.qual)
            cfg = CFG(f.node)
            for n in cfg.nodes:
                if n.stmt is None:
                    continue
                sites_ = [(x, x.args[1]) for part in cfg._own_parts(n) for x in ast.walk(part) if isinstance(x, ast.Call) and isinstance(x.func, ast.Name) and x.func.id == "OperationResult" and len(x.args) >= 2]
                if isinstance(n.stmt, ast.Return) and n.stmt.value is not None and f.name not in ("_evaluate__", "_build_operation_result_and_update_truth_value_", "_process_output_and_update_values_") \
                        and not any(isinstance(x, ast.Call) and isinstance(x.func, ast.Name) and x.func.id == "OperationResult" for x in ast.walk(n.stmt.value)):
                    sites_.append((n.stmt.value, n.stmt.value))  # the helper's returned flag
                for call, flag in sites_:
                    if isinstance(flag, ast.Constant) and flag.value is False and isinstance(call, ast.Call):
                        const_false.setdefault(f.qual, []).append((f, call))
                    elif isinstance(call, ast.Call):
                        judged.add(f.qual)
                    if isinstance(flag, ast.Attribute) and isinstance(flag.value, ast.Name) and flag.value.id == f.params[0]:
                        # node state written only in condition position: as an operand the node would report whatever an earlier use left there
                        r.fail(f"{f.short}#sticky-flag", f"{f.module.relpath}:{call.lineno}", src(call)[:100],
                               f"the result is flagged with {src(flag)}, state of the shared node that is only updated where the node stands as a condition: a node used as a "
                               f"condition and then as an operand (f = x.flag; or_(f, f == False)) reaches the comparator with the stale flag and the row is dropped")
                        continue
                    # expressions the flag is computed from (through one local)
                    exprs = [flag]
                    if isinstance(flag, ast.Name):
                        exprs += [st.value for st in walk_local(f.node) if isinstance(st, ast.Assign) and src(st.targets[0]) == flag.id]
                    value_truth = [e for e in exprs for x in ast.walk(e) if isinstance(x, ast.Call) and isinstance(x.func, ast.Name) and x.func.id == "bool"]
                    if not value_truth:
                        continue
                    # every assignment of a value-truth to the flag must be control-dependent on a condition-position test
                    ok = True

                    def guard_exprs(st_):
                        """the conditions under which this assignment gives the flag the value's truth: dominating if-tests and the other
                        conjuncts of `flag = G and not bool(value)`; locals and the node's own properties are expanded"""
                        raw = [t.stmt.test for t in cfg.nodes if t.kind == "test" and isinstance(t.stmt, ast.If) and t.true_succ is not None and cfg.dominates(t.true_succ, st_.id)]
                        v_ = st_.stmt.value
                        if isinstance(v_, ast.BoolOp) and isinstance(v_.op, ast.And):
                            raw += [o for o in v_.values if "bool(" not in src(o)]
                        out_ = []
                        for g_ in raw:
                            todo_ = [g_]
                            # a local that holds the test (hoisted out of a loop)
                            if isinstance(g_, ast.Name):
                                defs_ = [x.value for x in walk_local(f.node) if isinstance(x, ast.Assign) and len(x.targets) == 1 and isinstance(x.targets[0], ast.Name) and x.targets[0].id == g_.id]
                                if len(defs_) == 1:
                                    todo_.append(defs_[0])
                            for y_ in todo_:
                                out_ += _expanded_test(prog, c.qual, f, y_)
                        return out_

                    for st in [m for m in cfg.nodes if isinstance(m.stmt, ast.Assign) and isinstance(flag, ast.Name) and src(m.stmt.targets[0]) == flag.id and "bool(" in src(m.stmt.value)]:
                        guarded = any("_parent_" in src(e) or "_conditions_root_" in src(e) for e in guard_exprs(st))
                        ok = ok and guarded
                    if not isinstance(flag, ast.Name):
                        ok = False
                    # ... and conversely the test must recognise *every* condition position: the operands of all logical operators
                    # (negation included) and the conditions root
                    lo = prog.cls("symbolic.LogicalOperator").qual
                    logical = [x for x in concrete_classes(prog) if prog.is_subclass(x.qual, lo)]
                    for st in [m for m in cfg.nodes if isinstance(m.stmt, ast.Assign) and isinstance(flag, ast.Name) and src(m.stmt.targets[0]) == flag.id and "bool(" in src(m.stmt.value)]:
                        gexprs = guard_exprs(st)
                        tests = [e for e in gexprs if "_parent_" in src(e)]
                        covered = set()
                        root_ok = False
                        qod = prog.cls("symbolic.QueryObjectDescriptor").qual
                        queries = [x for x in concrete_classes(prog) if prog.is_subclass(x.qual, qod)]
                        qcovered = set()
                        for t in [0]:
                            for e in gexprs:
                                root_ok = root_ok or "_conditions_root_" in src(e)
                                # (isinstance(<parent>, Q) and <parent>._child_ is self) - conjuncts of one `and`
                                for bo in [x for x in ast.walk(e) if isinstance(x, ast.BoolOp) and isinstance(x.op, ast.And)]:
                                    ident = any(isinstance(v, ast.Compare) and len(v.ops) == 1 and isinstance(v.ops[0], ast.Is) and "_child_" in src(v) and f.params[0] in (src(v.left), src(v.comparators[0])) for v in bo.values)
                                    for v in bo.values:
                                        if ident and isinstance(v, ast.Call) and isinstance(v.func, ast.Name) and v.func.id == "isinstance" and len(v.args) == 2:
                                            for k in (v.args[1].elts if isinstance(v.args[1], ast.Tuple) else [v.args[1]]):
                                                q = f.module.resolve(k)
                                                qcovered |= {x.name for x in queries if q and prog.is_subclass(x.qual, q)}
                                for cc in [x for x in ast.walk(e) if isinstance(x, ast.Call) and isinstance(x.func, ast.Name) and x.func.id == "isinstance" and len(x.args) == 2]:
                                    kinds = cc.args[1].elts if isinstance(cc.args[1], ast.Tuple) else [cc.args[1]]
                                    for k in kinds:
                                        q = f.module.resolve(k)
                                        covered |= {x.name for x in logical if q and prog.is_subclass(x.qual, q)}
                        missing = sorted({x.name for x in logical} - covered)
                        qmissing = sorted({x.name for x in queries} - qcovered)
                        r.check(not qmissing, f"{f.short}#nested-query-condition", f"{f.module.relpath}:{st.lineno}", src(tests[0])[:100] if tests else "",
                                f"the whole condition of a query ({', '.join(x.name for x in queries)}) counts as a condition position wherever the query stands",
                                f"a value that is the only condition of a nested query ({qmissing}) is not recognised as a condition: the conditions root is looked up from the root of the whole "
                                f"expression, i.e. the outermost query; x == an(entity(y, p(y))) keeps every y, whatever p returns")
                        r.check(not missing and root_ok, f"{f.short}#condition-positions-complete", f"{f.module.relpath}:{st.lineno}", src(tests[0])[:100] if tests else "",
                                f"all {len(logical)} logical operators and the conditions root count as condition positions",
                                f"a bound value standing as the operand of {missing or 'the conditions root'} is never flagged false: not_(p) for an already bound predicate result p "
                                f"always reports true-then-negated, so or_(p, not_(p)) loses every binding with p false")
                    r.check(ok, f"{f.short}#value-truth-as-flag", f"{f.module.relpath}:{call.lineno}", src(call)[:100],
                            "the value's truth decides the flag only where the node is a condition",
                            "the result is flagged false whenever the produced value is falsy, wherever the node stands: as an operand of a comparator (which keeps true operand "
                            "results only) a legitimate value such as 0, '' or an empty collection is dropped - and_(x >= 0, x < 3) over [0, 1, 2] loses 0")
    # a node that judges the truth of its value on one path does so on every path that emits a value of its own: the values a variable or
    # literal takes from its domain stand as a condition just like the bound ones (entity(x, x.n > 0, False))
    for q in sorted(judged & set(const_false)):
        f, call = const_false[q][0]
        binds_own = any(isinstance(k, ast.Attribute) and k.attr == "_id_" and isinstance(k.value, ast.Name) and k.value.id == f.params[0]
                        for d in ast.walk(call.args[0]) if isinstance(d, ast.Dict) for k in d.keys if k is not None)
        if binds_own:
            r.fail(f"{f.short}#every-own-value-judged", f"{f.module.relpath}:{call.lineno}", src(call)[:100],
                   "this emission binds a value of the node itself and flags it true unconditionally, while the node's other emissions judge the value's truth in condition position: "
                   "a literal or a variable that stands as a condition itself (entity(x, x.n > 0, False), entity(b, b) over [True, False]) holds for every value")
    for q in sorted(judged - set(const_false)):
        r.ok(f"{prog.functions[q].short}#every-own-value-judged", f"{prog.functions[q].module.relpath}:{prog.functions[q].node.lineno}", "", "no emission of an own value with a constant flag")
    # where a node stands is said by the expression that evaluates it (its parent of this evaluation). The structural tree of a *variable* is
    # whatever was written over it last - d = x.real makes the attribute the root of x's tree, used or not - so "I am the root of the
    # conditions" may only decide for a node that is evaluated without a parent
    se = prog.cls("symbolic.SymbolicExpression")
    sac = prog.lookup(se.qual, "_stands_as_condition_")
    if sac is not None:
        probe = ast.parse(f"{sac.params[0] if sac.params else 'self'}._stands_as_condition_", mode="eval").body
        exprs = _expanded_test(prog, se.qual, sac, probe)
        roots = [x for e in exprs for x in ast.walk(e) if isinstance(x, ast.Compare) and "_conditions_root_" in src(x)]
        if roots:
            def parentless(e) -> bool:
                return isinstance(e, ast.Compare) and len(e.ops) == 1 and isinstance(e.ops[0], ast.Is) and "_eval_parent_" in src(e.left) and isinstance(e.comparators[0], ast.Constant) and e.comparators[0].value is None
            guarded = all(any(isinstance(b, ast.BoolOp) and isinstance(b.op, ast.And) and any(v is rt for v in b.values) and any(parentless(v) for v in b.values[:b.values.index(rt)])
                              for e in exprs for b in ast.walk(e)) for rt in roots)
            r.check(guarded, "SymbolicExpression._stands_as_condition_#tree-only-without-evaluation-parent", site_of(sac), src(roots[0])[:80],
                    "the structural tree decides only for a node that is evaluated without a parent",
                    "`self is self._conditions_root_` is consulted although an expression is evaluating this node: an expression written over a variable after the query was built "
                    "(d = x.real, used nowhere) becomes the root of the variable's tree, the operand x of x == 0 is then taken for the whole condition, its falsy values are "
                    "dropped and the query returns nothing")
    return r


def ep_universal(prog: Program) -> RuleResult:
    from ..cfg import CFG
    from ..callgraph import self_closure
    from ..astutil import calls_in, call_name, site, is_self_attr
    from ..model import walk_local

    r = RuleResult("EP-UNIVERSAL", "the universal quantifier checks its condition for every value of the quantified expression", floor=1)
    c = prog.cls("symbolic.ForAll")
    f = prog.lookup(c.qual, "_evaluate__")
    if f is None:
        raise AnalysisError("EP-UNIVERSAL: ForAll._evaluate__ vanished")

    def is_child_eval(call: ast.Call, roles) -> bool:
        return call_name(call) == "_evaluate__" and isinstance(call.func, ast.Attribute) and is_self_attr(call.func.value) and call.func.value.attr in roles

    # methods of the class that evaluate the condition (directly, or through other self calls)
    cond_roles = ("condition", "right")
    var_roles = ("variable", "left")
    evaluators = set()
    for name in {m for q in prog.mro(c.qual) if q in prog.classes for m in prog.classes[q].methods}:
        m = prog.lookup(c.qual, name)
        if m is None or m is f:
            continue
        seen, _ = self_closure(prog, c.qual, m, False)
        if any(is_child_eval(x, cond_roles) for g in seen for x in calls_in(g.node)):
            evaluators.add(name)
    cfg = CFG(f.node)
    loops = [n for n in cfg.nodes if n.kind == "for" and any(is_child_eval(x, var_roles) for x in calls_in(n.stmt.iter))]
    if not loops:
        raise AnalysisError("EP-UNIVERSAL: ForAll._evaluate__ no longer iterates over the evaluation of its quantified expression")
    for h in loops:
        body = {n.id for n in cfg.nodes if h.id in n.loops}
        checking = set()
        for i in body:
            n = cfg.nodes[i]
            if n.stmt is None:
                continue
            for part in cfg._own_parts(n):
                for x in ast.walk(part):
                    if isinstance(x, ast.Call) and (is_child_eval(x, cond_roles) or (isinstance(x.func, ast.Attribute) and is_self_attr(x.func) and x.func.attr in evaluators)):
                        checking.add(i)
        # a nested loop over the remaining candidates that checks the condition in every iteration counts as a check itself
        # (no candidate left = nothing left to check)
        changed = True
        while changed:
            changed = False
            for n2 in cfg.nodes:
                if n2.kind != "for" or n2.id == h.id or n2.id not in body or n2.id in checking:
                    continue
                inner = {m.id for m in cfg.nodes if n2.id in m.loops}
                entries = [x for x in n2.succ if x in inner]
                escapes = False
                for s0 in entries:
                    if s0 in checking:
                        continue
                    seen2, st2 = {s0}, [s0]
                    while st2:
                        k = st2.pop()
                        for sx in cfg.nodes[k].succ:
                            if sx == n2.id:
                                escapes = True
                            elif sx in inner and sx not in checking and sx not in seen2:
                                seen2.add(sx)
                                st2.append(sx)
                if entries and not escapes:
                    checking.add(n2.id)
                    changed = True
        # a path loop head -> body -> loop head that avoids every checking node
        bad = None
        for s0 in [x for x in h.succ if x in body]:
            if s0 in checking:
                continue
            prev = {s0: None}
            stack = [s0]
            while stack and bad is None:
                n = stack.pop()
                for sx in cfg.nodes[n].succ:
                    if sx == h.id:
                        path = [sx]
                        k = n
                        while k is not None:
                            path.append(k)
                            k = prev[k]
                        bad = path[::-1]
                        break
                    if sx in body and sx not in checking and sx not in prev:
                        prev[sx] = n
                        stack.append(sx)
        r.check(
            bad is None, f"ForAll._evaluate__#every-value-checked", site(f, h.stmt), src(h.stmt.iter),
            f"every iteration passes a condition evaluation ({sorted(evaluators)} / direct) before the next value is taken",
            f"an iteration can return to the loop head along {cfg.describe([h.id] + (bad or []))} without evaluating the condition for that value: "
            f"rows whose condition fails for a skipped value are returned",
        )
    # a disjunction answers as soon as one side holds and leaves the variables of the other side unbound: such a result is no verdict for
    # *all* their values. The candidates for_all keeps are bindings of every free variable of the condition - a partial one is completed
    # (each value of the missing variables judged on its own) or not taken.
    fa_ = prog.cls("symbolic.ForAll")
    gc_ = prog.lookup(fa_.qual, "get_all_candidate_solutions")
    if gc_ is not None:
        from ..callgraph import self_closure as _sc

        fs_, _ = _sc(prog, fa_.qual, gc_, False)
        completes = any(isinstance(c_, ast.Call) and isinstance(c_.func, ast.Attribute) and c_.func.attr == "_evaluate__" and "condition" not in src(c_.func.value) for g_ in fs_ for c_ in ast.walk(g_.node))
        compares = any(isinstance(t_, ast.If) and "condition_unique_variable_ids" in src(t_.test) for t_ in ast.walk(gc_.node))
        r.check(completes and compares, "ForAll.get_all_candidate_solutions#partial-results-are-completed", f"{gc_.module.relpath}:{gc_.node.lineno}", "",
                "a result that leaves a free variable of the condition unbound is completed before it counts as a candidate",
                "a result of the condition that leaves a free variable unbound (the left-true result of or_(v.n > 1, z.m > 1) has no z) is kept as a candidate for all values of that variable: "
                "an(entity(z, for_all(v, or_(v.n > 1, z.m > 1)))) over v in {5, 0}, z in {5, 0} returns [5, 0, 5] instead of [5]")
    # the variables for_all judges its condition per value of are the *free* ones: a plain variable that an exists / for_all inside the
    # condition quantifies is not among them - carried along as a candidate binding it turns "for all a there is a b" into "there is a b for all a"
    from ..model import walk_local as _wl
    fa_ = prog.cls("symbolic.ForAll")
    ids_ = prog.lookup(fa_.qual, "condition_unique_variable_ids")
    if ids_ is None:
        raise AnalysisError("EP-UNIVERSAL: ForAll.condition_unique_variable_ids vanished")
    sets_ = {x.targets[0].id for x in _wl(ids_.node) if isinstance(x, ast.Assign) and len(x.targets) == 1 and isinstance(x.targets[0], ast.Name)
             and "QuantifiedConditional" in src(x.value) and "variable" in src(x.value)}
    excluded = any(isinstance(y, ast.Compare) and isinstance(y.ops[0], ast.NotIn) and isinstance(y.comparators[0], ast.Name) and y.comparators[0].id in sets_
                   for x in _wl(ids_.node) if isinstance(x, ast.comprehension) for t in x.ifs for y in ast.walk(t))
    excluded = excluded or any(isinstance(x, ast.Call) and isinstance(x.func, ast.Attribute) and x.func.attr in ("difference", "difference_update", "__sub__") and any(isinstance(a, ast.Name) and a.id in sets_ for a in x.args)
                               for x in _wl(ids_.node))
    r.check(excluded, "ForAll.condition_unique_variable_ids#quantified-below-are-not-free", f"{ids_.module.relpath}:{ids_.node.lineno}", f"quantified sets: {sorted(sets_)}",
            "variables quantified by an exists / for_all inside the condition are left out",
            "the variables a nested exists / for_all quantifies count as free variables of the condition: for_all(a, exists(b, a.v == b.v)) keeps the b found for the first a as a candidate and "
            "demands the same b for every a (no answer although every a has a partner)")
    return r


def ep_quant(prog: Program) -> RuleResult:
    """Quantifiers answer per binding of the *free* variables and report falsity.
    (a) every logical operator can emit a result flagged false: an enclosing else-if evaluates its other branch only for left
        results flagged false, so an operator that stays silent when it fails loses the bindings its sibling would accept;
    (b) the existential quantifier de-duplicates by the bindings of the free variables: a key built from the quantified expression
        alone drops a second free binding that shares the witness, and repeats a free binding for every further witness."""
    from ..model import walk_local
    from ..astutil import site, call_name, is_self_attr

    r = RuleResult("EP-QUANT", "quantifiers answer per binding of the free variables and report falsity", floor=5)
    lo = prog.cls("symbolic.LogicalOperator").qual
    for c in [x for x in concrete_classes(prog) if prog.is_subclass(x.qual, lo)]:
        s_ = summary_of(prog, c)
        flags = [(e.flag.flag if e.flag is not None else None) for e in s_.emissions]
        can_false = any(fl != ("const", False) for fl in flags)
        r.check(can_false, f"{c.name}#reports-falsity", c.loc, f"emission flags {[_flag_label(fl, s_) for fl in flags]}",
                "some emission can be flagged false",
                f"{c.name} only ever emits results flagged true: when it fails for a binding it is silent, and an enclosing else-if (or_ between conditions over the same "
                f"variables) never evaluates its other branch for that binding")
    ex = prog.cls("symbolic.Exists")
    f = prog.lookup(ex.qual, "_evaluate__")
    single = {}
    for x in walk_local(f.node):
        if isinstance(x, ast.Assign) and len(x.targets) == 1 and isinstance(x.targets[0], ast.Name):
            single.setdefault(x.targets[0].id, []).append(x.value)
    adds = [c_ for c_ in ast.walk(f.node) if isinstance(c_, ast.Call) and call_name(c_) == "add" and isinstance(c_.func, ast.Attribute) and isinstance(c_.func.value, ast.Name) and c_.args]
    keyed = None
    why = "no de-duplication key found"
    for a_ in adds:
        key = a_.args[0]
        if isinstance(key, ast.Name) and len(single.get(key.id, [])) == 1:
            key = single[key.id][0]
        # ids the key ranges over: the iterable of the innermost comprehension, through one local
        comps = [g for x in ast.walk(key) if isinstance(x, (ast.GeneratorExp, ast.ListComp)) for g in x.generators]
        if not comps:
            continue
        ids = comps[0].iter
        # the values looked up through map(<bindings>.get, ids) / map(lambda i: val[i], ids): the ids are the last argument
        if isinstance(ids, ast.Call) and isinstance(ids.func, ast.Name) and ids.func.id in ("map", "filter") and len(ids.args) >= 2:
            ids = ids.args[-1]
        coll = filt = None
        if isinstance(ids, ast.Name):
            # the list built by an explicit loop: ids = []; for v in COLL: if FILTER: ids.append(...)
            for lp in [x for x in walk_local(f.node) if isinstance(x, ast.For)]:
                apps = [c_ for c_ in ast.walk(lp) if isinstance(c_, ast.Call) and call_name(c_) == "append" and isinstance(c_.func, ast.Attribute) and isinstance(c_.func.value, ast.Name) and c_.func.value.id == ids.id]
                if apps:
                    coll = lp.iter
                    filt = [x.test for x in ast.walk(lp) if isinstance(x, ast.If) and any(a2 in list(ast.walk(x)) for a2 in apps)]
            if coll is None and len(single.get(ids.id, [])) == 1:
                ids = single[ids.id][0]
        if coll is None:
            srcs = [g for x in ast.walk(ids) if isinstance(x, (ast.GeneratorExp, ast.ListComp)) for g in x.generators]
            if not srcs:
                continue
            coll, filt = srcs[0].iter, srcs[0].ifs
        rooted_at_quantified = any(isinstance(x, ast.Attribute) and is_self_attr(x) and x.attr in ("variable", "left") for x in ast.walk(coll))
        excludes_quantified = any(isinstance(x, ast.Attribute) and is_self_attr(x) and x.attr in ("variable", "left") for t in filt for x in ast.walk(t)) and \
            any(isinstance(o, (ast.IsNot, ast.NotEq, ast.NotIn)) for t in filt for x in ast.walk(t) if isinstance(x, ast.Compare) for o in x.ops)
        if rooted_at_quantified:
            keyed, why = False, f"the key ranges over {src(coll)}: the variables of the quantified expression only"
        elif not excludes_quantified:
            keyed, why = False, f"the key ranges over {src(coll)} without excluding the quantified variable: one result per witness"
        else:
            keyed, why = True, f"key over {src(coll)} minus the quantified variable"
    r.check(keyed is True, "Exists._evaluate__#keyed-by-free-variables", site(f), why, "one result per binding of the free variables",
            f"{why}: exists(y, x.a == y.a) with x unbound drops a second x that matches the same y, and a bound x with two matching y is answered twice")
    # the result of a predicate / symbolic function call is a variable too (a Variable with child variables), and _all_variable_instances_
    # lists it: its value is the verdict itself (True for a witness, False for a failing value), so a key that includes it tells the two
    # apart and the binding is answered twice - once true, once false
    if keyed is True and coll is not None and any(isinstance(x, ast.Attribute) and x.attr == "_all_variable_instances_" for x in ast.walk(coll)):
        marks = ("_child_vars_", "_kwargs_", "_should_be_instantiated_", "_predicate_type_", "_is_inferred_")
        computed_out = any(isinstance(x, ast.Attribute) and x.attr in marks for t in (filt or []) for x in ast.walk(t))
        r.check(computed_out, "Exists._evaluate__#computed-variables-are-not-free", site(f), src(coll), "variables computed from their arguments (predicate and function calls) are left out of the key",
                "the key ranges over every variable instance of the condition, the result variables of predicate / symbolic function calls included: their value is the verdict itself, "
                "so a binding with a failing value and a witness gets two keys and is reported true and false - or_(exists(y, lt(x, y)), is_two(x)) yields 2 twice, "
                "not_(or_(exists(f, is_apple(f)), c)) reports a box that holds an apple")
    # one verdict per binding: a binding reported true (a witness was found) is not reported false when the pass ends.  A failing value of
    # the quantified expression may well be seen before the witness; what was noted for it has to go when the witness arrives.
    sat_names = {a_.func.value.id for a_ in adds}
    post = [lp for lp in f.node.body if isinstance(lp, ast.For) and any(isinstance(y, (ast.Yield, ast.YieldFrom)) for y in ast.walk(lp))]
    post = [lp for lp in post if not any(isinstance(c_, ast.Call) and call_name(c_) == "_evaluate__" for c_ in ast.walk(lp.iter))]
    verdict_ok = True
    why_v = "no emission after the pass"
    for lp in post:
        coll = next((x.id for x in ast.walk(lp.iter) if isinstance(x, ast.Name)), None)
        if coll is None:
            continue
        removed = any(isinstance(c_, ast.Call) and isinstance(c_.func, ast.Attribute) and isinstance(c_.func.value, ast.Name) and c_.func.value.id == coll and c_.func.attr in ("pop", "discard", "remove", "__delitem__")
                      for c_ in ast.walk(f.node)) or any(isinstance(d, ast.Delete) and any(isinstance(t, ast.Subscript) and isinstance(t.value, ast.Name) and t.value.id == coll for t in d.targets) for d in ast.walk(f.node))
        skipped = any(isinstance(cmp_, ast.Compare) and any(isinstance(o, (ast.In, ast.NotIn)) for o in cmp_.ops) and any(isinstance(cc, ast.Name) and cc.id in sat_names for cc in cmp_.comparators)
                      for cmp_ in ast.walk(lp))
        # the removal has to sit where the witness is recorded
        at_witness = False
        for a_ in adds:
            for t in [y for y in ast.walk(f.node) if isinstance(y, ast.If) and any(z is a_ for b in y.body for z in ast.walk(b))]:
                if any(isinstance(c_, ast.Call) and isinstance(c_.func, ast.Attribute) and isinstance(c_.func.value, ast.Name) and c_.func.value.id == coll and c_.func.attr in ("pop", "discard", "remove") for b in t.body for c_ in ast.walk(b)) \
                        or any(isinstance(d, ast.Delete) for b in t.body for d in ast.walk(b)):
                    at_witness = True
        ok_ = (removed and at_witness) or skipped
        verdict_ok = verdict_ok and ok_
        why_v = f"false results are emitted from `{coll}` after the pass; " + ("bindings with a witness are taken out of it / skipped" if ok_ else "nothing removes a binding from it when its witness arrives and the loop does not skip satisfied bindings")
    r.check(verdict_ok, "Exists._evaluate__#one-verdict-per-binding", site(f), why_v, "a binding is reported true or false, never both",
            f"{why_v}: when a failing value of the quantified expression is enumerated before a satisfying one, the binding is reported true and then false; under not_(and_(exists(...), c)) "
            "the false report is flipped into a row that violates the condition")
    # an empty quantified domain: the condition has no result at all, the loops above do not run - and "there is a value that ..." is false.
    # Some emission flagged false must lie outside every loop (it is then guarded by "nothing was seen").
    from ..cfg import CFG as _CFG

    cfg_ex = _CFG(f.node)
    outside = []
    for n_ in cfg_ex.nodes:
        if n_.stmt is None or n_.loops:
            continue
        for part in cfg_ex._own_parts(n_):
            for y in ast.walk(part):
                if isinstance(y, ast.Yield) and isinstance(y.value, ast.Call) and len(y.value.args) >= 2 and isinstance(y.value.args[1], ast.Constant) and y.value.args[1].value is True:
                    outside.append(n_)
    r.check(bool(outside), "Exists._evaluate__#empty-condition-is-false", site(f), f"{len(outside)} false emission(s) outside the loops",
            "when the condition has no result at all, one result flagged false is emitted for the incoming bindings",
            "every emission of Exists lies inside a loop over results of its condition: over an empty domain it emits nothing at all, and an enclosing else-if "
            "(or_(exists(y, ...), c) with y over []) never evaluates its other branch")
    # the quantified expression may be an attribute chain that enumerates on its way (shelf.boxes -> flatten -> box.parts): the nodes it is
    # computed from are bound per element and belong to the key, otherwise all boxes of a shelf share one answer
    id_lists = set()
    for a_ in adds:
        key = a_.args[0]
        if isinstance(key, ast.Name) and len(single.get(key.id, [])) == 1:
            key = single[key.id][0]
        for g in [g for x in ast.walk(key) if isinstance(x, (ast.GeneratorExp, ast.ListComp)) for g in x.generators]:
            it_ = g.iter
            if isinstance(it_, ast.Call) and isinstance(it_.func, ast.Name) and it_.func.id in ("map", "filter") and len(it_.args) >= 2:
                it_ = it_.args[-1]
            if isinstance(it_, ast.Name):
                id_lists.add(it_.id)
    walker_vars = set()
    for x in walk_local(f.node):
        if isinstance(x, ast.Assign) and len(x.targets) == 1 and isinstance(x.targets[0], ast.Name) and any(isinstance(y, (ast.Attribute, ast.Constant)) and (getattr(y, "attr", None) == "_child_" or getattr(y, "value", None) == "_child_") for y in ast.walk(x.value)) and \
                any(isinstance(y, ast.Attribute) and is_self_attr(y) and y.attr in ("variable", "left") for y in ast.walk(x.value)):
            walker_vars.add(x.targets[0].id)
    chain = False
    for x in walk_local(f.node):
        if isinstance(x, ast.Call) and isinstance(x.func, ast.Attribute) and isinstance(x.func.value, ast.Name) and x.func.value.id in id_lists and x.func.attr in ("append", "extend") and x.args:
            t = src(x.args[0])
            walks = any(isinstance(y, ast.Attribute) and y.attr in ("_descendants_", "_child_") for y in ast.walk(x.args[0]))
            if any(t.startswith(w + ".") or t == w for w in walker_vars) or (walks and ("self.variable" in t or "self.left" in t)):
                chain = True
        if isinstance(x, (ast.Assign, ast.AugAssign)) and any(isinstance(tg, ast.Name) and tg.id in id_lists for tg in (x.targets if isinstance(x, ast.Assign) else [x.target])):
            t = src(x.value)
            walks = any(isinstance(y, ast.Attribute) and y.attr in ("_descendants_", "_child_") for y in ast.walk(x.value))
            if walks and ("self.variable" in t or "self.left" in t):
                chain = True
    r.check(chain, "Exists._evaluate__#chain-below-quantified-is-free", site(f), f"id lists {sorted(id_lists)}, chain walkers {sorted(walker_vars)}",
            "the nodes the quantified expression is computed from are part of the key",
            "the key holds plain variables only: when the quantified expression is an attribute of a flattened element (boxes=match(Box)(parts=match_any([p]), label='right')) all "
            "elements of one collection share an answer, the first satisfying element wins and a later condition on another element loses the row")
    return r


def ep_empty(prog: Program) -> RuleResult:
    """Empty domains: a local that is None until the first iteration of a loop over child results assigns it must not be iterated,
    indexed or measured after the loop without a test for None - with an empty domain the loop body never runs."""
    from ..cfg import CFG
    from ..model import walk_local
    from ..astutil import site
    from .c03 import eval_closure

    r = RuleResult("EP-EMPTY", "evaluation code is defined for loops that run zero times (empty domains)", floor=1)
    n_cand = 0
    for f in sorted(eval_closure(prog), key=lambda x: x.qual):
        if ".entity_query_language." not in f.qual:
            continue
        cfg = CFG(f.node)
        none_init = {}
        for n in cfg.nodes:
            if isinstance(n.stmt, ast.Assign) and len(n.stmt.targets) == 1 and isinstance(n.stmt.targets[0], ast.Name) and isinstance(n.stmt.value, ast.Constant) and n.stmt.value.value is None and not n.loops:
                none_init[n.stmt.targets[0].id] = n
        for name, init in sorted(none_init.items()):
            assigns = [n for n in cfg.nodes if n is not init and isinstance(n.stmt, (ast.Assign, ast.AugAssign)) and any(isinstance(t, ast.Name) and t.id == name for t in (n.stmt.targets if isinstance(n.stmt, ast.Assign) else [n.stmt.target]))]
            if not assigns or not all(n.loops for n in assigns):
                continue  # also assigned outside loops: not the "set by the first iteration" idiom
            n_cand += 1
            bad = None
            for u in cfg.nodes:
                if u.stmt is None or u.loops or u.id not in cfg.reachable(init.id) or u is init:
                    continue
                uses = []
                for part in cfg._own_parts(u):
                    for x in ast.walk(part):
                        it = None
                        if isinstance(x, (ast.ListComp, ast.SetComp, ast.DictComp, ast.GeneratorExp)):
                            it = x.generators[0].iter
                        elif isinstance(x, ast.Subscript):
                            it = x.value
                        elif isinstance(x, ast.Call) and isinstance(x.func, ast.Name) and x.func.id in ("len", "list", "sorted", "iter", "next", "tuple", "set") and x.args:
                            it = x.args[0]
                        elif isinstance(x, ast.YieldFrom):
                            it = x.value
                        elif isinstance(x, ast.Attribute):
                            it = x.value
                        if isinstance(it, ast.Name) and it.id == name:
                            uses.append(x)
                if isinstance(u.stmt, ast.For) and isinstance(u.stmt.iter, ast.Name) and u.stmt.iter.id == name:
                    uses.append(u.stmt)
                if not uses:
                    continue
                guarded = False
                for t in cfg.nodes:
                    if t.kind == "test" and isinstance(t.stmt, ast.If) and cfg.dominates(t.id, u.id) and t.id != u.id:
                        tt = t.stmt.test
                        names = {x.id for x in ast.walk(tt) if isinstance(x, ast.Name)}
                        if name in names and (any(isinstance(x, ast.Constant) and x.value is None for x in ast.walk(tt)) or (isinstance(tt, ast.UnaryOp) and isinstance(tt.op, ast.Not)) or isinstance(tt, ast.Name)):
                            # the use must lie on the side that excludes None: either branch may end in a jump
                            body_jumps = bool(t.stmt.body) and isinstance(t.stmt.body[-1], (ast.Return, ast.Raise, ast.Continue, ast.Break))
                            in_body = t.true_succ is not None and cfg.dominates(t.true_succ, u.id)
                            guarded = guarded or body_jumps or in_body
                if not guarded:
                    bad = bad or (u, uses[0])
            r.check(bad is None, f"{f.short}#{name}-none-when-loop-is-empty", site(f, init.stmt), f"{name} = None ... assigned in {sorted({a.lineno for a in assigns})}",
                    "every use after the loop is guarded by a test for None",
                    f"{name} is still None when the loop over child results runs zero times (an empty domain), and line {bad[0].lineno if bad else '?'} uses it as a collection "
                    f"({src(bad[1])[:60] if bad else ''}): the evaluation raises TypeError instead of answering")
    if n_cand == 0:
        raise AnalysisError("EP-EMPTY: no set-by-the-first-iteration local found in the evaluation closure (ForAll's candidate set is the confirmed instance)")
    return r


def iter_text(prog: Program) -> RuleResult:
    """Whether two operands are compared as collections (and whether a value is a collection to match against) is decided by
    utils.is_iterable.  Text is no collection - and neither is a value of a *subclass* of a text type."""
    r = RuleResult("ITER-TEXT", "text values, of str / bytes or of a subclass, are never taken for collections", floor=1)
    # whether two operands are compared as collections is decided by utils.is_iterable: text is no collection - and neither is a value of a
    # *subclass* of a text type (a str-valued Enum member, class Tag(str), numpy.str_): the exclusion has to be an isinstance test, not a
    # lookup of the exact type ("listen" == "silent" as sets of characters otherwise)
    from ..model import walk_local as _wl
    isit = next((f_ for f_ in prog.functions.values() if f_.name == "is_iterable" and f_.cls is None and f_.module.name.endswith("entity_query_language.utils")), None)
    if isit is None:
        raise AnalysisError("ITER-TEXT: entity_query_language.utils.is_iterable vanished")
    exact = [x for x in _wl(isit.node) if isinstance(x, ast.Compare) and any(isinstance(y, ast.Call) and isinstance(y.func, ast.Name) and y.func.id == "type" for y in ast.walk(x))]
    inst = [x for x in _wl(isit.node) if isinstance(x, ast.Call) and isinstance(x.func, ast.Name) and x.func.id == "isinstance" and len(x.args) == 2 and "str" in src(x.args[1]) and "bytes" in src(x.args[1])]
    r.check(bool(inst) and not exact, "is_iterable#text-excluded-with-its-subclasses", f"{isit.module.relpath}:{isit.node.lineno}", src((exact or inst or [isit.node])[0])[:80], "str / bytes values are excluded by isinstance",
            f"`{src(exact[0])[:60] if exact else 'no isinstance test on (str, bytes)'}` tells text from collections by the exact type: a value of a str subclass counts as a collection and two such "
            "values are compared as sets of their characters - x.tag != y.tag drops pairs of anagrams, x.mode == NO holds for ON")
    return r


def cmp_apply(prog: Program) -> RuleResult:
    """The verdict of a comparison is the operator applied to the two operand values of *this* binding, computed once per binding:
    the decision table of Comparator.apply_operation, path by path. The result handed back, the truth recorded on the node and the
    value written into the bindings are that one application; its left argument is read from the left operand's binding and its
    right argument from the right operand's (a normalisation of both - collections compared as sets - is the only thing allowed in
    between). An answer taken from anywhere else (a memo keyed by identity, a shortcut on the identities of the operands, a
    constant) is the answer to another question."""
    from ..dtable import explore, Sym, App, term
    from ..astutil import site

    r = RuleResult("CMP-APPLY", "a comparison's verdict is its operator applied to the two operand values of the binding, once", floor=4)
    c = prog.cls("symbolic.Comparator")
    f = prog.lookup(c.qual, "apply_operation")
    if f is None or len(f.params) < 2:
        raise AnalysisError("CMP-APPLY: Comparator.apply_operation(self, operand_values) not found")
    ov = f.params[1]
    paths = explore(prog, f, [Sym("self"), Sym(ov)], self_type=c.qual, max_paths=400)
    if len(paths) < 4:
        raise AnalysisError(f"CMP-APPLY: only {len(paths)} paths through Comparator.apply_operation")
    left = f"getitem({ov}.bindings, self.left._id_)"
    right = f"getitem({ov}.bindings, self.right._id_)"
    bad = {}

    def note(key, what):
        bad.setdefault(key, what)

    for val, out, calls in paths:
        guard = ", ".join(f"{k[1]}{' ' + str(k[2]) if len(k) > 2 else ''}={v}" for k, v in val.items() if "operation(" not in str(k[1]))[:160]
        if out[0] != "return":
            continue  # a raise is loud
        res = out[1]
        if not (isinstance(res, App) and res.fn == "self.operation" and len(res.args) == 2 and not res.kwargs):
            note("verdict-is-the-application", f"on the path [{guard}] the result is {term(res)[:100]}, not self.operation(<left value>, <right value>)")
            continue
        a, b = term(res.args[0]), term(res.args[1])
        if not (left + ".value" in a and right not in a and right + ".value" in b and left not in b):
            note("arguments-from-the-binding", f"on the path [{guard}] the operator is applied to ({a[:70]}, {b[:70]}): the left argument must be read from the left operand's "
                                                f"binding and the right argument from the right operand's")
        if "set(" in a or "set(" in b:
            # the collections-as-sets reading is for collections of values: a mapping turned into a set keeps its keys only
            excluded = [k for k, v in val.items() if k[0] == "isinstance" and "Mapping" in str(k[2]) and v is False]
            if not (any(left in str(k[1]) for k in excluded) and any(right in str(k[1]) for k in excluded)):
                note("mappings-are-not-compared-by-their-keys", f"on the path [{guard}] both operands are turned into sets without excluding mappings")
        ncalls = [x for x in calls if isinstance(x, App) and x.fn == "self.operation"]
        if len(ncalls) != 1:
            note("applied-once", f"on the path [{guard}] the operator is applied {len(ncalls)} times")
        truth = val.get(("truth", term(res)))
        sets = [x for x in calls if isinstance(x, App) and x.fn == "setattr" and len(x.args) == 3 and x.args[1] == "_is_false_"]
        if truth is not None and not (sets and all(x.args[2] is (not truth) for x in sets)):
            note("truth-recorded", f"on the path [{guard}] the node's _is_false_ is not set to the negation of the verdict")
        writes = [x for x in calls if isinstance(x, App) and x.fn == "setitem" and len(x.args) == 3 and term(x.args[1]) == "self._id_"]
        if not (writes and all(term(res) in term(x.args[2]) for x in writes)):
            note("verdict-written-to-the-bindings", f"on the path [{guard}] the verdict is not written into the bindings under the comparator's own id")
    for key, good in [("verdict-is-the-application", "on every path the result is self.operation(left value, right value)"),
                      ("arguments-from-the-binding", "left argument from the left operand's binding, right argument from the right operand's"),
                      ("applied-once", "the operator is applied exactly once per binding"),
                      ("mappings-are-not-compared-by-their-keys", "operands are normalised to sets only where neither is a mapping"),
                      ("truth-recorded", "_is_false_ is the negation of the verdict"),
                      ("verdict-written-to-the-bindings", "the verdict is stored under the comparator's id")]:
        r.check(key not in bad, f"Comparator.apply_operation#{key}", site(f), f"{len(paths)} paths", good,
                (bad.get(key) or "") + ": the comparison answers from something other than the operand values of this assignment, so rows are reported that do not satisfy the "
                "condition, or satisfying rows are dropped")
    return r


def cond_fold(prog: Program) -> RuleResult:
    """and_(...), or_(...), entity(x, ...), refinement(...) take conditions that may be plain Python values (ConditionType allows bool):
    `False` is a condition like any other and becomes an operand.  Whoever folds the conditions given into an operator chain therefore
    never asks a *condition* for its truth - "has the chain started", "is there a condition at all" are questions about None / a length."""
    from ..model import walk_local
    from ..astutil import site

    r = RuleResult("COND-FOLD", "no condition given to a query constructor is tested for truth while the operator chain is built", floor=3)
    n = 0
    for f in sorted(prog.functions.values(), key=lambda x: x.qual):
        if f.cls is not None or not f.module.name.endswith(("entity_query_language.entity", "entity_query_language.symbolic", "entity_query_language.rule")):
            continue
        va = f.node.args.vararg
        if va is None:
            continue
        ann = src(va.annotation) if va.annotation is not None else ""
        if "Condition" not in ann and va.arg not in ("conditions", "properties"):
            continue
        n += 1
        # collections of conditions (the vararg, list(vararg), slices of it) and single conditions (their elements, locals taking one)
        colls, elems = {va.arg}, set()
        for _ in range(3):
            for x in walk_local(f.node):
                if isinstance(x, ast.Assign) and len(x.targets) == 1 and isinstance(x.targets[0], ast.Name):
                    t, v = x.targets[0].id, x.value
                    if isinstance(v, ast.Call) and isinstance(v.func, ast.Name) and v.func.id in ("list", "tuple", "reversed") and v.args and isinstance(v.args[0], ast.Name) and v.args[0].id in colls:
                        colls.add(t)
                    if isinstance(v, ast.Subscript) and isinstance(v.value, ast.Name) and v.value.id in colls:
                        (colls if isinstance(v.slice, ast.Slice) else elems).add(t)
                    branches = [v.body, v.orelse] if isinstance(v, ast.IfExp) else [v]
                    if any(isinstance(b, ast.Name) and b.id in elems for b in branches):
                        elems.add(t)
                    if any(isinstance(b, ast.Subscript) and isinstance(b.value, ast.Name) and b.value.id in colls and not isinstance(b.slice, ast.Slice) for b in branches):
                        elems.add(t)
                tg = x.target if isinstance(x, (ast.For, ast.comprehension)) else None
                if tg is not None and isinstance(tg, ast.Name) and isinstance(x.iter, ast.Name) and x.iter.id in colls:
                    elems.add(tg.id)

        def is_cond(e) -> bool:
            if isinstance(e, ast.Name):
                return e.id in elems
            if isinstance(e, ast.NamedExpr):
                return is_cond(e.value) or is_cond(e.target)
            return isinstance(e, ast.Subscript) and isinstance(e.value, ast.Name) and e.value.id in colls and not isinstance(e.slice, ast.Slice)

        bad = None
        for x in walk_local(f.node):
            tests = []
            if isinstance(x, (ast.If, ast.While, ast.IfExp, ast.Assert)):
                tests.append(x.test)
            if isinstance(x, ast.comprehension):
                tests += x.ifs
            if isinstance(x, ast.BoolOp):
                tests += x.values[:-1]
            if isinstance(x, ast.UnaryOp) and isinstance(x.op, ast.Not):
                tests.append(x.operand)
            if isinstance(x, ast.Call) and isinstance(x.func, ast.Name) and x.func.id in ("bool", "any", "all") and x.args:
                tests.append(x.args[0])
            if isinstance(x, ast.Call) and isinstance(x.func, ast.Name) and x.func.id == "filter" and len(x.args) == 2 and isinstance(x.args[0], ast.Constant) and x.args[0].value is None:
                tests.append(ast.Name(id=next(iter(elems), "")) if isinstance(x.args[1], ast.Name) and x.args[1].id in colls else x.args[1])
            for t in tests:
                todo = [t]
                while todo:
                    y = todo.pop()
                    if isinstance(y, ast.BoolOp):
                        todo += y.values
                    elif isinstance(y, ast.UnaryOp) and isinstance(y.op, ast.Not):
                        todo.append(y.operand)
                    elif is_cond(y) or (isinstance(y, ast.Name) and y.id in colls and isinstance(x, ast.Call)):
                        bad = bad or (x, y)
        r.check(bad is None, f"{f.short}#conditions-not-truth-tested", site(f, bad[0]) if bad else site(f), f"conditions: *{va.arg}; single: {sorted(elems)}",
                "the conditions are only counted, passed on and compared with None",
                f"`{src(bad[1]) if bad else ''}` is a condition the caller gave and is asked for its truth in `{src(bad[0])[:70] if bad else ''}`: a condition that is the plain value False "
                f"(a flag, the result of a symbolic function called with ground arguments) is dropped from the chain instead of making it unsatisfiable")
    if n < 3:
        raise AnalysisError(f"COND-FOLD: only {n} constructors taking *conditions found")
    # a condition may also be a predicate over concrete values (ConditionType lists Predicate): such an instance becomes a literal, and a
    # literal in condition position is judged by the truth of its value - which therefore has to be the predicate's verdict
    pred = prog.cls("predicate.Predicate")
    truth = prog.lookup(pred.qual, "__bool__")
    calls_self = truth is not None and truth.cls is not None and prog.is_subclass(pred.qual, truth.cls.qual) and any(
        isinstance(x, ast.Return) and x.value is not None and any(isinstance(c, ast.Call) and isinstance(c.func, ast.Name) and c.func.id == truth.params[0] for c in ast.walk(x.value))
        for x in walk_local(truth.node))
    r.check(calls_self, "Predicate#truth-is-the-verdict", site(truth) if truth is not None else pred.loc, "__bool__" if truth is not None else "no __bool__",
            "the truth value of a predicate instance is the result of calling it",
            "a Predicate instance has the default truth value of an object (always true): entity(x, HasType(obj, T)) with a concrete obj holds for every x whatever the predicate says")
    return r


def hv_ident(prog: Program) -> RuleResult:
    """Everything that caches, de-duplicates or binds values does it by the identifier of the HashedValue: the domain cache of a variable is a
    dictionary keyed by it.  Two distinct elements of a domain must therefore never share an identifier.  `id(value)` (and an identifier the
    library assigned itself, `_id_`) is injective over the objects that are alive; a *hash* is not (hash(-1) == hash(-2), n and n + 2**61 - 1
    collide): the second of two such numbers overwrites the first in the cache and is never delivered."""
    from ..model import walk_local
    from ..astutil import site, is_self_attr

    r = RuleResult("HV-IDENT", "the identifier of a hashed value is injective over distinct live values", floor=1)
    hv = prog.cls("hashed_data.HashedValue")
    n = 0
    for f in sorted(hv.methods.values(), key=lambda x: x.qual):
        stores = [x for x in walk_local(f.node) if isinstance(x, ast.Assign) and any(is_self_attr(t, "id_") for t in x.targets)]
        if not stores:
            continue
        bad = None
        for x in stores:
            n += 1
            v = x.value
            ok = (isinstance(v, ast.Call) and isinstance(v.func, ast.Name) and v.func.id == "id" and len(v.args) == 1) \
                or (isinstance(v, ast.Attribute) and v.attr in ("_id_", "id_")) or (isinstance(v, ast.Name) and v.id in f.params)
            if not ok:
                bad = bad or x
        r.check(bad is None, f"{f.short}#identifier-by-identity", site(f, bad) if bad is not None else site(f, stores[0]), src(bad if bad is not None else stores[0])[:90],
                "the identifier is id(value), an identifier the library assigned, or the one given",
                f"`{src(bad)[:80] if bad is not None else ''}` derives the identifier from something that is not injective (a hash, a value): two different elements of a domain can get the same "
                f"identifier, and the domain cache - keyed by it - keeps one of them (entity(x, x < 1) over [3, -1, 0, -2] misses -2)")
    if n < 1:
        raise AnalysisError("HV-IDENT: HashedValue no longer assigns id_")
    # ... and a value is taken for a wrapper to unwrap (its id_ adopted, its .value taken in its place) only when it *is* one: a user object
    # that happens to have fields named id_ and value is a value
    pi = hv.methods.get("__post_init__")
    if pi is not None:
        duck = None
        for t in [x for x in walk_local(pi.node) if isinstance(x, ast.If)]:
            adopts = any(isinstance(y, ast.Assign) and any(is_self_attr(tg, "value") for tg in y.targets) and isinstance(y.value, ast.Attribute) and y.value.attr == "value" for b in t.body for y in ast.walk(b))
            if not adopts:
                continue
            by_class = any(isinstance(c_, ast.Call) and isinstance(c_.func, ast.Name) and c_.func.id == "isinstance" and len(c_.args) == 2 and "HashedValue" in src(c_.args[1]) for c_ in ast.walk(t.test))
            if not by_class:
                duck = duck or t
        r.check(duck is None, f"{pi.short}#unwraps-hashed-values-only", site(pi, duck) if duck is not None else site(pi), src(duck.test)[:80] if duck is not None else "isinstance(..., HashedValue)",
                "a nested wrapper is recognised by its class",
                f"`{src(duck.test)[:70] if duck is not None else ''}` takes any object with such attributes for a wrapper: a domain element that has fields named `id_` and `value` is replaced by its `.value`, and "
                "two elements with equal `id_` become one")
    return r


def _pred_once(prog):
    # 'predicates ... as values': the value bound for a predicate over variables is its verdict (the instance called), also where it is
    # compared, tested for membership or selected
    from .c12 import pred_once

    return pred_once(prog)


def _ident_dedup(prog):
    # 'value-equal but distinct objects': nothing on the way from the domains to the results decides "seen already" with the user's __eq__
    from .c11 import ident_dedup

    return ident_dedup(prog)


def _ep_bound(prog):
    # a value that is bound already is used as it is, whatever it is: re-enumerating it (a falsy element of a flattened collection taken
    # for 'not bound') gives rows that are no consistent assignment
    from .c02 import ep_bound

    return ep_bound(prog)


def _domain_given(prog):
    from .c13 import domain_given

    return domain_given(prog)


def _live_iter(prog):
    # the domain of a domain-less variable is enumerated lazily from the registry: a sweep between two of its steps must not make it skip
    # a live instance (a satisfying assignment that is never reported)
    from .c03 import live_iter

    return live_iter(prog)


def _hv_truth(prog):
    # a solution / binding / argument whose value is falsy is a value like any other: bound values are asked for presence, not for truth
    from .hvtruth import hv_truth

    return hv_truth(prog)


def run(prog: Program, tier: str) -> List[RuleResult]:
    from .c03 import domain_cache

    _cache.clear()
    return [guard(lambda: ep_thread(prog)), guard(lambda: ep_neg(prog)), guard(lambda: ep_filter(prog)), guard(lambda: ep_selected(prog)), guard(lambda: ep_union_pass(prog)), guard(lambda: ep_operand(prog)), guard(lambda: domain_cache(prog)), guard(lambda: ep_universal(prog)), guard(lambda: ep_empty(prog)), guard(lambda: ep_quant(prog)), guard(lambda: _ep_bound(prog)), guard(lambda: cmp_apply(prog)), guard(lambda: _live_iter(prog)), guard(lambda: _hv_truth(prog)), guard(lambda: cond_fold(prog)), guard(lambda: _domain_given(prog)), guard(lambda: hv_ident(prog)), guard(lambda: _ident_dedup(prog)), guard(lambda: _pred_once(prog)), guard(lambda: iter_text(prog))]
