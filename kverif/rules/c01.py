"""C01 - EQL answers are exactly the satisfying assignments (sound and complete).

EP-THREAD  whenever a node evaluates several sub-expressions to build one result, each later
           evaluation receives bindings derived from the earlier result
EP-NEG     a result flagged false is a falsifying assignment (needed by the generic negation)
EP-FILTER  only true results of the conditions reach the evaluation of the selected variables
First-order correctness over arbitrary query shapes x data is not decided (it needs an oracle
evaluator - a different technique).
"""
from __future__ import annotations

import ast
from typing import Dict, List, Optional, Set

from ..model import Program, AnalysisError, ClassInfo
from ..report import RuleResult
from ..astutil import src
from ..evalproto import summarize, Summary, Site, Emission

EXPLANATION = (
    "Provenance analysis of the evaluation protocol: for every concrete expression class the _evaluate__ found through its "
    "MRO is interpreted abstractly (self/super calls inlined) with values carrying may/must sets of origins - the incoming "
    "bindings and each child evaluation site - and truth flags carrying the site they were read from. EP-THREAD: a child "
    "evaluation nested in the iteration over another child's results must receive bindings that derive from that result, and "
    "an evaluation repeated over a collection of sub-expressions must receive what the previous one produced; otherwise two "
    "sub-expressions sharing a variable are enumerated independently and one row mixes values of different assignments. "
    "EP-NEG: for every operator that inherits the generic negation (Not flips each child result), an emission that can be "
    "flagged false must carry bindings derived from the operand evaluations that make it false - both operands for a "
    "disjunction, at least the deciding one for a conjunction. EP-FILTER: the stream of condition results that feeds the "
    "selected variables passes a truth filter. These are necessary conditions of soundness and row consistency."
)
ASSUMPTIONS = [
    "a child's result bindings extend the bindings it was evaluated with (checked per class by the same rules)",
    "operator classes outside the public builders (rule-tree selectors) are not negatable by a user",
    "completeness/soundness of whole queries on data is not decided",
]

SE = "symbolic.SymbolicExpression"


def concrete_classes(prog: Program) -> List[ClassInfo]:
    se = prog.cls(SE)
    out = []
    for c in prog.subclasses(se.qual):
        if prog.is_abstract_class(c.qual) or "ABC" in [b.split(".")[-1] for b in c.bases]:
            continue
        if prog.lookup(c.qual, "_evaluate__") is None:
            continue
        out.append(c)
    return out


_cache: Dict[str, Summary] = {}


def summary_of(prog: Program, c: ClassInfo) -> Summary:
    key = f"{id(prog)}:{c.qual}"
    if key not in _cache:
        _cache[key] = summarize(prog, c.qual)
    return _cache[key]


def _definer(prog: Program, c: ClassInfo) -> str:
    """class whose code the summary's site lives in: findings are keyed by the defining function"""
    return prog.lookup(c.qual, "_evaluate__").cls.name


def ep_thread(prog: Program) -> RuleResult:
    r = RuleResult("EP-THREAD", "later child evaluations receive bindings derived from earlier ones", floor=10)
    seen = set()
    universal = prog.cls("symbolic.ForAll").qual
    for c in concrete_classes(prog):
        s = summary_of(prog, c)
        by_id = {st.id: st for st in s.sites}
        for st in s.sites:
            # (a) nested in the iteration over another site's results
            for outer in sorted(set(st.loops)):
                if outer == st.id or outer not in by_id:
                    continue
                key = f"{st.func}#{st.recv}<-{by_id[outer].recv}"
                if key in seen:
                    continue
                seen.add(key)
                ok = outer in st.arg0.may
                r.check(
                    ok, key, f"{st.module}:{st.lineno}", src(st.node),
                    f"evaluated with bindings derived from the result of {by_id[outer].recv}",
                    f"{st.recv} is evaluated inside the iteration over the results of {by_id[outer].recv} but with bindings {sorted(st.arg0.may)} that do not "
                    f"derive from them: variables shared by the two sub-expressions are enumerated independently",
                )
            # (b) repeated over a collection of sub-expressions
            if st.over_collection and not st.recv.startswith("self"):
                key = f"{st.func}#{st.recv} in {st.over_collection}"
                if key in seen:
                    continue
                seen.add(key)
                combined = any(st.id in e.bindings.may for e in s.emissions)
                ok = (st.id in st.arg0.may) or not combined
                r.check(
                    ok, key, f"{st.module}:{st.lineno}", src(st.node),
                    "each evaluation starts from what the previous one produced",
                    f"every element of {st.over_collection} is evaluated from the same bindings {sorted(st.arg0.may)} and the results are combined into one row: "
                    f"expressions over a shared unbound variable are enumerated independently (cross product) and a row mixes values of different assignments",
                )
    return r


def negatable_operators(prog: Program) -> List[ClassInfo]:
    """operator classes that inherit the generic `_invert_` (Not(self)) and can be built by the public vocabulary"""
    lbo = prog.cls("symbolic.LogicalBinaryOperator").qual
    sel = prog.cls("conclusion_selector.ConclusionSelector").qual
    se = prog.cls(SE)
    generic = se.methods.get("_invert_")
    out = []
    for c in concrete_classes(prog):
        if not prog.is_subclass(c.qual, lbo) or prog.is_subclass(c.qual, sel):
            continue
        inv = prog.lookup(c.qual, "_invert_")
        if inv is generic:
            out.append(c)
    return out


def ep_neg(prog: Program) -> RuleResult:
    r = RuleResult("EP-NEG", "results flagged false carry the bindings of the operand evaluations that falsify them", floor=6)
    orq = prog.cls("symbolic.OR").qual
    ops = negatable_operators(prog)
    if len(ops) < 2:
        raise AnalysisError("EP-NEG: fewer than two operators inherit the generic negation (AND and the else-if form are the confirmed instances)")
    for c in ops:
        s = summary_of(prog, c)
        left = {st.id for st in s.sites if "self.left" in st.recv_roles}
        right = {st.id for st in s.sites if "self.right" in st.recv_roles}
        is_or = prog.is_subclass(c.qual, orq)
        for i, e in enumerate(s.emissions):
            fl = e.flag.flag if e.flag is not None else None
            if fl == ("const", False):
                continue  # always a true result
            key = f"{c.name}:{e.func}#emission-{_flag_label(fl, s)}"
            have_l, have_r = bool(e.bindings.must & left), bool(e.bindings.must & right)
            if is_or:
                ok = have_l and have_r
                need = "both operands (a disjunction is false only if both sides are false under the same bindings)"
            else:
                ok = have_l or have_r
                need = "the operand that decided it"
            r.check(
                ok, key, f"{e.module}:{e.lineno}", f"bindings from {sorted(e.bindings.must)}, flag from {_flag_label(fl, s)}",
                f"a false result carries bindings of {need}",
                f"{c.name} can emit a result flagged false whose bindings derive from {sorted(e.bindings.must)} only; it needs {need}. {c.name} inherits the generic "
                f"negation, which turns every false child result into a true one: not_(or_(x.a == 0, y.a == 0)) returns an x with x.a == 0",
            )
    _invert_shapes(prog, r)
    return r


def _invert_shapes(prog: Program, r: RuleResult):
    """operators with their own negation: the dual must be built from the negated operands"""
    orq = prog.cls("symbolic.OR").qual
    se = prog.cls(SE)
    generic = se.methods.get("_invert_")
    for c in concrete_classes(prog):
        inv = c.methods.get("_invert_")
        if inv is None or inv is generic:
            continue
        rets = [n for n in ast.walk(inv.node) if isinstance(n, ast.Return) and n.value is not None]
        raises = [n for n in ast.walk(inv.node) if isinstance(n, ast.Raise)]
        key = f"{c.name}._invert_#dual"
        if raises and not rets:
            r.ok(key, f"{inv.module.relpath}:{inv.node.lineno}", src(raises[0]), "negation is rejected")
            continue
        v = rets[0].value if rets else None
        good = False
        want = ""
        if prog.is_subclass(c.qual, orq):
            want = "AND(self.left._invert_(), self.right._invert_())"
            good = v is not None and src(v) == want
        elif c.name == "ForAll":
            want = "Exists(self.variable, self.condition._invert_())"
            good = v is not None and src(v) == want
        elif c.name == "Exists":
            want = "ForAll(self.variable, self.condition._invert_())"
            good = v is not None and src(v) == want
        else:
            want = "a dual built from negated operands"
            good = v is not None and "_invert_()" in src(v)
        r.check(good, key, f"{inv.module.relpath}:{inv.node.lineno}", src(v) if v is not None else "", f"negated as {want}",
                f"{c.name} negates itself as {src(v) if v is not None else 'nothing'}; the sound dual is {want}")


def _flag_label(fl, s=None) -> str:
    if fl is None:
        return "none"
    if fl[0] == "elem":
        def role(sid):
            if s is None:
                return sid
            st = next((x for x in s.sites if x.id == sid), None)
            if st is None:
                return sid
            threaded = any(t.startswith("E") for t in st.arg0.must)
            return f"{'/'.join(sorted(st.recv_roles))}[{'threaded' if threaded else 'from-sources'}]"
        return "is_false-of-" + "+".join(sorted(role(x) for x in fl[1]))
    if fl[0] == "const":
        return f"const-{fl[1]}"
    return fl[0]


def ep_filter(prog: Program) -> RuleResult:
    r = RuleResult("EP-FILTER", "only true condition results reach the selected variables", floor=2)
    qod = prog.cls("symbolic.QueryObjectDescriptor")
    for c in [c for c in concrete_classes(prog) if prog.is_subclass(c.qual, qod.qual)]:
        s = summary_of(prog, c)
        child_sites = {st.id for st in s.sites if "self._child_" in st.recv_roles}
        var_sites = [st for st in s.sites if not (st.recv_roles & {"self._child_"})]
        # the stream over the child's results that encloses the selected-variable evaluation must be filtered on truth
        g = summarize(prog, c.qual, "get_constrained_values")
        ok = True
        n = 0
        for e in g.emissions:
            if e.bindings.elem_sites:
                n += 1
                guarded = any(gd[0] and gd[0][0] in ("elem", "not") and "is_true" in str(gd) for gd in e.guards)
                ok = ok and (e.bindings.filtered == "true" or guarded)
        r.check(ok and n >= 1 and bool(child_sites), f"{_definer(prog, c)}.get_constrained_values#truth-filter:{c.name}", c.loc, "",
                "results of the conditions are filtered on is_true before the selected variables are evaluated",
                "false results of the conditions reach the selected variables: values that violate the conditions are returned")
        used = all(any(cs in st.loops for cs in child_sites) or not child_sites for st in var_sites)
        r.check(bool(var_sites) and used, f"{_definer(prog, c)}.evaluate_selected_variables#inside-filtered-stream:{c.name}", c.loc, "",
                "selected variables are evaluated per (filtered) condition result", "selected variables are not evaluated per condition result")
    return r


def ep_operand(prog: Program) -> RuleResult:
    """Operand results are filtered on their truth flag by comparators; the flag of a value-producing node must therefore not
    depend on the truthiness of the value unless the node stands in condition position."""
    from ..cfg import CFG
    from ..model import walk_local

    r = RuleResult("EP-OPERAND", "a value-producing node flags its result false from the value's truth only in condition position", floor=2)
    cbv = prog.cls("symbolic.CanBehaveLikeAVariable").qual
    seen = set()
    for c in concrete_classes(prog):
        if not prog.is_subclass(c.qual, cbv):
            continue
        for f in {prog.lookup(c.qual, "_evaluate__")} | {prog.lookup(c.qual, m) for m in ("_build_operation_result_and_update_truth_value_", "_process_output_and_update_values_")}:
            if f is None or f.qual in seen:
                continue
            seen.add(f.qual)
            cfg = CFG(f.node)
            for n in cfg.nodes:
                if n.stmt is None:
                    continue
                for call in [x for part in cfg._own_parts(n) for x in ast.walk(part) if isinstance(x, ast.Call) and isinstance(x.func, ast.Name) and x.func.id == "OperationResult" and len(x.args) >= 2]:
                    flag = call.args[1]
                    # expressions the flag is computed from (through one local)
                    exprs = [flag]
                    if isinstance(flag, ast.Name):
                        exprs += [st.value for st in walk_local(f.node) if isinstance(st, ast.Assign) and src(st.targets[0]) == flag.id]
                    value_truth = [e for e in exprs for x in ast.walk(e) if isinstance(x, ast.Call) and isinstance(x.func, ast.Name) and x.func.id == "bool"]
                    if not value_truth:
                        continue
                    if f.name == "_process_output_and_update_values_":
                        r.ok(f"{f.short}#flag", f"{f.module.relpath}:{call.lineno}", src(flag), "a predicate's result *is* a truth value")
                        continue
                    # every assignment of a value-truth to the flag must be control-dependent on a condition-position test
                    ok = True
                    for st in [m for m in cfg.nodes if isinstance(m.stmt, ast.Assign) and isinstance(flag, ast.Name) and src(m.stmt.targets[0]) == flag.id and "bool(" in src(m.stmt.value)]:
                        guarded = any(t.kind == "test" and isinstance(t.stmt, ast.If) and t.true_succ is not None and cfg.dominates(t.true_succ, st.id) and ("_parent_" in src(t.stmt.test) or "_conditions_root_" in src(t.stmt.test)) for t in cfg.nodes)
                        ok = ok and guarded
                    if not isinstance(flag, ast.Name):
                        ok = False
                    r.check(ok, f"{f.short}#value-truth-as-flag", f"{f.module.relpath}:{call.lineno}", src(call)[:100],
                            "the value's truth decides the flag only where the node is a condition",
                            "the result is flagged false whenever the produced value is falsy, wherever the node stands: as an operand of a comparator (which keeps true operand "
                            "results only) a legitimate value such as 0, '' or an empty collection is dropped - and_(x >= 0, x < 3) over [0, 1, 2] loses 0")
    return r


def run(prog: Program, tier: str) -> List[RuleResult]:
    from .c03 import domain_cache

    _cache.clear()
    return [ep_thread(prog), ep_neg(prog), ep_filter(prog), ep_operand(prog), domain_cache(prog)]
