"""C16 - every way of writing a descriptor-managed field keeps the data and infers alike.

MC-COVER  every element-adding mutator of list/set is overridden in the monitored container,
          calls the on-add hook for each new element and stores it
MC-HOOK   the hook records the relation whenever the container has an owner
PD-ALIAS  the descriptor setter reads the assigned value before it clears the live container
PD-AUG    += / |= : the in-place operator is hooked, or the setter re-populates through the hook
PD-SEQ    no set conversion between the assigned value and a list container
PD-SINGLE single-valued assignment stores the value and records the relation
"""
from __future__ import annotations

import ast
from typing import List, Optional, Set

from ..model import Program, AnalysisError, FuncInfo, walk_local, dotted
from ..report import RuleResult
from .usertruth import user_truth
from ..astutil import src, site, calls_in, call_name, is_self_attr, is_super_call, kwarg, names_in, const_value
from ..callgraph import self_closure, resolve_call, Ctx
from ..cfg import CFG
from ..dtable import explore, Sym

EXPLANATION = (
    "The element-adding mutators of list and set form a fixed, finite table (list: append, extend, insert, item "
    "assignment; set: add, update; in-place operators += and |=). For each monitored container class the checker resolves "
    "every entry through the class's MRO: it must be overridden in the repository, its call closure must reach the on-add "
    "hook for each new element (inside a loop over the argument for the bulk forms) without suppressing graph recording, "
    "and must reach the builtin store. The hook's decision table must record the relation whenever an owner is bound. In "
    "the descriptor setter the CFG must not reach a read of the assigned value after the live container was cleared "
    "(the value may be that container: x.f = x.f, x.f += ...), no set conversion may lie between the value and a list "
    "container, and the single-valued branch must store and record. These are all the write paths the property names."
)
ASSUMPTIONS = [
    "list/set mutators not in the table (remove, pop, sort, reverse, *=, -=, &=) add no new element",
    "CPython evaluates `x.f += v` as x.f = x.f.__iadd__(v) (descriptor __get__, in-place operator, descriptor __set__)",
]

PD = "property_descriptor.property_descriptor.PropertyDescriptor"
MC = "monitored_container.MonitoredContainer"

ADDERS = {
    "list": {"append": ("item", 0), "extend": ("each", 0), "insert": ("item", 1), "__setitem__": ("item", 1)},
    "set": {"add": ("item", 0), "update": ("each", 0)},
}
INPLACE = {"list": ["__iadd__"], "set": ["__ior__"]}


def _builtin_base(prog: Program, c) -> Optional[str]:
    for q in c.mro:
        if q in ("ext:builtins.list", "ext:builtins.set"):
            return q.split(".")[-1]
    return None


def _hook(prog: Program) -> FuncInfo:
    """the on-add hook: the method of MonitoredContainer that calls the descriptor's graph recording"""
    mc = prog.cls(MC)
    for name, f in mc.methods.items():
        for c in calls_in(f.node):
            if call_name(c) == "add_relation_to_the_graph":
                return f
    raise AnalysisError("MC: no method of MonitoredContainer records relations through the descriptor")


def _suppressing(c: ast.Call, target: FuncInfo, caller: Optional[FuncInfo] = None) -> Optional[str]:
    """does this call switch graph recording off or mark the element inferred?"""
    params = target.params[1:]
    for name, bad in (("add_relation_to_the_graph", False), ("inferred", True)):
        v = kwarg(c, name)
        if v is None and name in params:
            i = params.index(name)
            if len(c.args) > i:
                v = c.args[i]
        if v is not None and const_value(v, "?") is bad:
            return f"{name}={bad}"
        if v is not None and not isinstance(v, ast.Constant):
            if caller is not None and isinstance(v, ast.Name) and v.id == name and name in caller.params:
                continue  # forwards its own flag; the caller's default is checked separately
            return f"{name}={src(v)} (not constant)"
    return None


def mc_cover(prog: Program) -> RuleResult:
    r = RuleResult("MC-COVER", "every element-adding mutator is overridden, hooks each new element and stores it", floor=6)
    hook = _hook(prog)
    mc = prog.cls(MC)
    classes = [c for c in prog.subclasses(mc.qual, strict=True) if _builtin_base(prog, c)]
    if len(classes) < 2:
        raise AnalysisError("MC-COVER: monitored list/set classes not found")
    for c in classes:
        kind = _builtin_base(prog, c)
        for mname, (mode, argi) in ADDERS[kind].items():
            key = f"{c.name}.{mname}"
            f = prog.lookup(c.qual, mname)
            if f is None:
                r.fail(key + "#override", c.loc, f"{kind}.{mname}", f"{kind}.{mname} is inherited unchanged: elements added through it are stored but never recorded in the symbol graph")
                continue
            seen, ext = self_closure(prog, c.qual, f, property_reads=False)
            reach_hook = hook in seen
            stores = sorted(e for e in ext if e.startswith(f"ext:builtins.{kind}.") and e.split(".")[-1] in ("append", "insert", "__setitem__", "extend", "add", "update", "__iadd__", "__ior__"))
            r.check(reach_hook, key + "#hook", site(f), src(f.node.body[-1]) if f.node.body else "", "reaches the on-add hook",
                    "does not reach the on-add hook: the new element is never recorded / inferred from")
            r.check(bool(stores), key + "#store", site(f), "", f"stores through {stores}", "never reaches a builtin store: the element is dropped")
            # per-element for bulk forms; no suppression on the way
            params = f.params[1:]
            pname = params[argi] if len(params) > argi else None
            if mode == "each" and reach_hook:
                ok = False
                for loop in [n for n in walk_local(f.node) if isinstance(n, ast.For)]:
                    if isinstance(loop.iter, ast.Name) and loop.iter.id == pname and isinstance(loop.target, ast.Name):
                        for cc in calls_in(loop):
                            ts = resolve_call(prog, Ctx(f, c.qual), cc)
                            for t in ts:
                                if isinstance(t, FuncInfo) and (t == hook or hook in self_closure(prog, c.qual, t, False)[0]):
                                    if cc.args and isinstance(cc.args[0], ast.Name) and cc.args[0].id == loop.target.id:
                                        ok = True
                r.check(ok, key + "#each", site(f), "", "hook called once per element of the argument",
                        "the hook is not called for each element of the iterable argument")
            if mode == "item" and reach_hook and pname:
                ok = False
                for cc in calls_in(f.node):
                    for t in resolve_call(prog, Ctx(f, c.qual), cc):
                        if isinstance(t, FuncInfo) and (t == hook or hook in self_closure(prog, c.qual, t, False)[0]):
                            if cc.args and isinstance(cc.args[0], ast.Name) and cc.args[0].id == pname:
                                ok = True
                r.check(ok, key + "#item", site(f), "", "hook receives the new element", "the hook is not called with the element being added")
            sup = None
            for g in seen:
                for cc in calls_in(g.node):
                    for t in resolve_call(prog, Ctx(g, c.qual), cc):
                        if isinstance(t, FuncInfo) and t in seen and t is not g:
                            s = _suppressing(cc, t, g)
                            if s:
                                sup = f"{g.short} calls {t.short} with {s}"
            r.check(sup is None, key + "#not-suppressed", site(f), "", "graph recording left on", f"graph recording is suppressed on this path: {sup}")
            # defaults of the flags on the path
            for g in seen:
                a = g.node.args
                for p, d in zip(a.args[len(a.args) - len(a.defaults):], a.defaults):
                    if p.arg == "add_relation_to_the_graph" and g is not hook and g.name != "_update":
                        r.check(const_value(d) is True, f"{c.name}.{g.name}#default-records", site(g), f"{p.arg}={src(d)}", "records by default",
                                "graph recording defaults to off on a public write path")
                    if p.arg == "inferred":
                        r.check(const_value(d) is False, f"{c.name}.{g.name}#default-asserted", site(g), f"{p.arg}={src(d)}", "elements are asserted (strong) by default",
                                "user-added elements default to inferred (held weakly)")
    return r


def mc_hook(prog: Program) -> RuleResult:
    r = RuleResult("MC-HOOK", "the on-add hook records the relation whenever an owner is bound", floor=2)
    hook = _hook(prog)
    mc = prog.cls(MC)
    paths = explore(prog, hook, [Sym("self"), Sym("value"), False, True], self_type=mc.qual)
    n_owner = 0
    ok = True
    for val, outcome, calls in paths:
        none_atoms = [(a, v) for a, v in val.items() if a[0] == "is" and "None" in a[1:]]
        if any(v for a, v in none_atoms):
            continue  # no owner bound on this path
        n_owner += 1
        rec = [c for c in calls if c.fn.endswith(".add_relation_to_the_graph")]
        good = len(rec) == 1 and len(rec[0].args) >= 2 and repr(rec[0].args[1]) == "value" and dict(rec[0].kwargs).get("inferred", False) is False
        ok = ok and good and outcome == ("return", Sym("value"))
    r.check(ok and n_owner >= 1, "MonitoredContainer._on_add#records", site(hook), "", "records (owner, value) and returns the value when an owner is bound",
            "with an owner bound and recording requested, the hook does not record exactly (owner, value) as asserted / does not return the value")
    # inferred elements are held weakly (so that inference does not extend lifetimes), asserted ones strongly
    paths_inf = explore(prog, hook, [Sym("self"), Sym("value"), True, True], self_type=mc.qual)
    weak = all(repr(o[1]).startswith("weakref.ref(") for _, o, _ in paths_inf if o[0] == "return")
    r.check(weak, "MonitoredContainer._on_add#inferred-weak", site(hook), "", "inferred elements are wrapped in weakref.ref", "inferred elements are stored strongly")
    return r


def _set_fn(prog: Program) -> FuncInfo:
    return prog.method(PD, "__set__", inherited=False)


def pd_alias(prog: Program) -> RuleResult:
    r = RuleResult("PD-ALIAS", "the setter never reads the assigned value after clearing the live container", floor=1)
    f = _set_fn(prog)
    vparam = f.params[2]
    cfg = CFG(f.node)
    clears = []
    for n in cfg.nodes:
        if n.stmt is None or n.kind != "stmt":
            continue
        for c in calls_in(n.stmt):
            if call_name(c) in ("_clear", "clear") and isinstance(c.func, ast.Attribute):
                clears.append(n)
    if not clears:
        r.note("setter does not clear a live container (nothing to order)")
        r.ok("PropertyDescriptor.__set__#no-clear", site(f), "", "no clear")
        return r
    for cl in clears:
        after = cfg.reachable(cl.id) - {cl.id}
        bad = None
        for i in sorted(after):
            n = cfg.nodes[i]
            if n.stmt is None:
                continue
            for part in cfg._own_parts(n):
                for x in ast.walk(part):
                    if isinstance(x, ast.Name) and x.id == vparam and isinstance(x.ctx, ast.Load):
                        # identity / type probes do not read the contents
                        bad = bad or n
        guarded = False
        if bad is not None:
            # tolerated when the clear itself is control-dependent on `value is not <container>`
            for t in cfg.nodes:
                if t.kind == "test" and isinstance(t.stmt, ast.If) and cfg.dominates(t.id, cl.id):
                    tt = t.stmt.test
                    if isinstance(tt, ast.Compare) and len(tt.ops) == 1 and isinstance(tt.ops[0], (ast.IsNot,)) and vparam in names_in(tt):
                        if t.true_succ is not None and cfg.dominates(t.true_succ, cl.id):
                            guarded = True
        r.check(
            bad is None or guarded, "PropertyDescriptor.__set__#clear-then-read", site(f, cl.stmt), src(cl.stmt),
            "assigned value is snapshotted before the clear (or the clear is skipped for the same object)",
            f"the live container is cleared at line {cl.lineno} and the assigned value is read afterwards at line {bad.lineno if bad else '?'}: "
            f"when the value is that container (x.f = x.f, x.f += ..., x.f |= ...) the data is erased",
        )
    return r


def _populating_loops(prog: Program, pd, f: FuncInfo):
    """for-loops in f whose body adds elements to a monitored container"""
    out = []
    for loop in [n for n in walk_local(f.node) if isinstance(n, ast.For)]:
        if any(call_name(c) in ("_add_item", "append", "add", "_update") for c in calls_in(loop)):
            out.append(loop)
    return out


def _is_set_conversion(prog: Program, f: FuncInfo, e: ast.expr, seen=None) -> Optional[str]:
    """name of a set-constructing call inside e (resolving repo helpers by their return expr)"""
    for c in [x for x in ast.walk(e) if isinstance(x, ast.Call)]:
        q = f.module.resolve(c.func)
        if q in ("ext:builtins.set", "ext:builtins.frozenset"):
            return q.split(".")[-1]
        g = prog.functions.get(q)
        if g is not None and g.cls is None:
            for ret in [n for n in walk_local(g.node) if isinstance(n, ast.Return) and n.value is not None]:
                for cc in [x for x in ast.walk(ret.value) if isinstance(x, ast.Call)]:
                    if g.module.resolve(cc.func) in ("ext:builtins.set", "ext:builtins.frozenset"):
                        return g.name
                if any(isinstance(x, (ast.Set, ast.SetComp)) for x in ast.walk(ret.value)):
                    return g.name
    return None


def pd_seq(prog: Program) -> RuleResult:
    r = RuleResult("PD-SEQ", "no set conversion between the assigned value and a list container", floor=2)
    pd = prog.cls(PD)
    f = _set_fn(prog)
    seen, _ = self_closure(prog, pd.qual, f, property_reads=False)
    for g in sorted(seen, key=lambda x: x.qual):
        local_defs = {}
        for s in walk_local(g.node):
            if isinstance(s, ast.Assign) and len(s.targets) == 1 and isinstance(s.targets[0], ast.Name):
                local_defs.setdefault(s.targets[0].id, []).append(s.value)
        for loop in _populating_loops(prog, pd, g):
            exprs = [loop.iter]
            if isinstance(loop.iter, ast.Name):
                exprs += local_defs.get(loop.iter.id, [])
            conv = None
            for e in exprs:
                conv = conv or _is_set_conversion(prog, g, e)
            r.check(conv is None, f"{g.short}#populate-order", site(g, loop), src(loop.iter),
                    "elements reach the container in the order and multiplicity of the assigned value",
                    f"the assigned value passes through {conv}() before it populates the container: a list field loses order and repetitions")
    return r


def _path_with_container_skipping(cfg: CFG, f: FuncInfo, loop_header: int):
    """A path entry -> exit of the setter that handles a live monitored container yet avoids the re-populating loop.
    Edges that establish "the backing value is not a monitored container" (false edge of isinstance(x, MonitoredContainer),
    true edge of its negation, x not reassigned afterwards) or "the assigned value is the descriptor itself" are removed."""
    vparam = f.params[2]

    def reassigned_after(name: str, t: int) -> bool:
        for i in cfg.reachable(t) - {t}:
            st = cfg.nodes[i].stmt
            if isinstance(st, (ast.Assign, ast.AnnAssign, ast.AugAssign)):
                tg = st.targets if isinstance(st, ast.Assign) else [st.target]
                if any(isinstance(x, ast.Name) and x.id == name for tt in tg for x in ast.walk(tt)):
                    return True
        return False

    cut = set()  # (test node, polarity) edges not to follow
    for t in cfg.nodes:
        if t.kind != "test" or not isinstance(t.stmt, ast.If):
            continue
        tt, pol = t.stmt.test, True
        if isinstance(tt, ast.UnaryOp) and isinstance(tt.op, ast.Not):
            tt, pol = tt.operand, False
        if isinstance(tt, ast.Call) and call_name(tt) == "isinstance" and len(tt.args) == 2 and isinstance(tt.args[0], ast.Name):
            ty = src(tt.args[1])
            if ty.endswith("MonitoredContainer") and not reassigned_after(tt.args[0].id, t.id):
                cut.add((t.id, not pol))
            elif tt.args[0].id == vparam and ty.endswith("PropertyDescriptor"):
                cut.add((t.id, pol))
    prev = {cfg.entry: None}
    stack = [cfg.entry]
    while stack:
        n = stack.pop()
        if n == cfg.exit:
            out = []
            while n is not None:
                out.append(n)
                n = prev[n]
            return out[::-1]
        node = cfg.nodes[n]
        for sx in node.succ:
            if sx == loop_header or sx in prev:
                continue
            if node.kind == "test" and isinstance(node.stmt, ast.If):
                polarity = sx == node.true_succ
                if (n, polarity) in cut:
                    continue
            prev[sx] = n
            stack.append(sx)
    return None


def pd_aug(prog: Program, alias_ok: bool) -> RuleResult:
    r = RuleResult("PD-AUG", "+= and |= on a managed field record every new element", floor=2)
    mc = prog.cls(MC)
    hook = _hook(prog)
    f = _set_fn(prog)
    # does the setter re-populate the container through the hook?
    repop = False
    skip_path = None
    cfg = CFG(f.node)
    for loop in [n for n in walk_local(f.node) if isinstance(n, ast.For)]:
        for c in calls_in(loop):
            if call_name(c) == "_add_item" and not any(k.arg == "add_relation_to_the_graph" and const_value(k.value) is False for k in c.keywords):
                # the loop must lie on *every* path that handles a live monitored container: an exit that skips it
                # (say for `value is attr`, which is exactly what += / |= pass) leaves the new elements unrecorded
                h = cfg.by_stmt.get(loop)
                if h is None:
                    continue
                p = _path_with_container_skipping(cfg, f, h)
                if p is None:
                    repop = True
                else:
                    skip_path = cfg.describe(p)
    for c in [c for c in prog.subclasses(mc.qual, strict=True) if _builtin_base(prog, c)]:
        kind = _builtin_base(prog, c)
        for op in INPLACE[kind]:
            g = prog.lookup(c.qual, op)
            hooked = g is not None and hook in self_closure(prog, c.qual, g, False)[0]
            r.check(
                hooked or (repop and alias_ok), f"{c.name}.{op}", c.loc, op,
                "in-place operator is hooked" if hooked else "the setter that follows the in-place operator re-adds every element through the hook from a snapshot",
                "the in-place operator is not hooked and the setter does not safely re-populate"
                + (f" (path {' -> '.join(skip_path)} leaves the setter without re-adding)" if skip_path else "")
                + ": augmented assignment loses data or inferences",
            )
    return r


def pd_single(prog: Program) -> RuleResult:
    r = RuleResult("PD-SINGLE", "single-valued assignment stores the value and records the relation", floor=2)
    f = _set_fn(prog)
    obj, val = f.params[1], f.params[2]
    stored = recorded = False
    for n in walk_local(f.node):
        if isinstance(n, ast.Call) and isinstance(n.func, ast.Name) and n.func.id == "setattr" and len(n.args) == 3:
            if src(n.args[0]) == obj and src(n.args[2]) == val:
                stored = True
        if isinstance(n, ast.Call) and call_name(n) == "add_relation_to_the_graph" and len(n.args) >= 2:
            if src(n.args[0]) == obj and src(n.args[1]) == val and const_value(kwarg(n, "inferred"), False) is False:
                recorded = True
    r.check(stored, "PropertyDescriptor.__set__#single-store", site(f), "", "value stored in the backing field", "single-valued assignment does not store the value")
    r.check(recorded, "PropertyDescriptor.__set__#single-record", site(f), "", "relation recorded as asserted", "single-valued assignment does not record (owner, value) in the graph")
    # recording adds one relation per element and infers (delegates to PropertyDescriptorRelation.add_to_graph)
    g = prog.method(PD, "add_relation_to_the_graph", inherited=False)
    made = [c for c in calls_in(g.node) if call_name(c) == "add_to_graph"]
    good = bool(made) and any("PropertyDescriptorRelation" in src(c.func) for c in made)
    r.check(good, "PropertyDescriptor.add_relation_to_the_graph#relation", site(g), src(made[0]) if made else "", "relation object added through add_to_graph (inference entry point)",
            "recording does not go through PropertyDescriptorRelation(...).add_to_graph()")
    return r


def run(prog: Program, tier: str) -> List[RuleResult]:
    alias = pd_alias(prog)
    return [mc_cover(prog), mc_hook(prog), alias, pd_aug(prog, not alias.failed), pd_seq(prog), pd_single(prog), user_truth(prog, ["property_descriptor.property_descriptor", "property_descriptor.monitored_container", "property_descriptor.property_descriptor_relation"], 2)]
