"""C16 - every way of writing a descriptor-managed field keeps the data and infers alike.

MC-COVER  every element-adding mutator of list/set is overridden in the monitored container,
          calls the on-add hook for each new element and stores it
MC-HOOK   the hook records the relation whenever the container has an owner
PD-ALIAS  the descriptor setter reads the assigned value before it clears the live container
PD-AUG    += / |= : the in-place operator is hooked, or the setter re-populates through the hook
PD-SEQ    no set conversion between the assigned value and a list container
PD-SINGLE single-valued assignment stores the value and records the relation
"""
from __future__ import annotations

import ast
from typing import List, Optional, Set

from ..model import Program, AnalysisError, FuncInfo, walk_local, dotted, parents_of
from ..report import RuleResult, guard
from .usertruth import user_truth
from ..astutil import src, site, calls_in, call_name, is_self_attr, is_super_call, kwarg, names_in, const_value
from ..callgraph import self_closure, resolve_call, Ctx
from ..cfg import CFG
from ..dtable import explore, Sym, term

EXPLANATION = (
    "The element-adding mutators of list and set form a fixed, finite table (list: append, extend, insert, item "
    "assignment; set: add, update; in-place operators += and |=). For each monitored container class the checker resolves "
    "every entry through the class's MRO: it must be overridden in the repository, its call closure must reach the on-add "
    "hook for each new element (inside a loop over the argument for the bulk forms) without suppressing graph recording, "
    "and must reach the builtin store. The hook's decision table must record the relation whenever an owner is bound. In "
    "the descriptor setter the CFG must not reach a read of the assigned value after the live container was cleared "
    "(the value may be that container: x.f = x.f, x.f += ...), no set conversion may lie between the value and a list "
    "container, and the single-valued branch must store and record. These are all the write paths the property names."
)
ASSUMPTIONS = [
    "list/set mutators not in the table (remove, pop, sort, reverse, *=, -=, &=) add no new element",
    "CPython evaluates `x.f += v` as x.f = x.f.__iadd__(v) (descriptor __get__, in-place operator, descriptor __set__)",
]

PD = "property_descriptor.property_descriptor.PropertyDescriptor"
MC = "monitored_container.MonitoredContainer"

ADDERS = {
    "list": {"append": ("item", 0), "extend": ("each", 0), "insert": ("item", 1), "__setitem__": ("item", 1)},
    "set": {"add": ("item", 0), "update": ("each", 0)},
}
INPLACE = {"list": ["__iadd__"], "set": ["__ior__"]}
# further builtin methods that put new elements into the container (only the override and the way to the hook are demanded for them)
MORE_ADDERS = {"list": [], "set": ["symmetric_difference_update", "__ixor__"]}


def _builtin_base(prog: Program, c) -> Optional[str]:
    for q in c.mro:
        if q in ("ext:builtins.list", "ext:builtins.set"):
            return q.split(".")[-1]
    return None


def _hook(prog: Program) -> FuncInfo:
    """the on-add hook: the method of MonitoredContainer that calls the descriptor's graph recording"""
    mc = prog.cls(MC)
    for name, f in mc.methods.items():
        for c in calls_in(f.node):
            if call_name(c) == "add_relation_to_the_graph":
                return f
    raise AnalysisError("MC: no method of MonitoredContainer records relations through the descriptor")


def _suppressing(c: ast.Call, target: FuncInfo, caller: Optional[FuncInfo] = None) -> Optional[str]:
    """does this call switch graph recording off or mark the element inferred?"""
    params = target.params[1:]
    for name, bad in (("add_relation_to_the_graph", False), ("inferred", True)):
        v = kwarg(c, name)
        if v is None and name in params:
            i = params.index(name)
            if len(c.args) > i:
                v = c.args[i]
        if v is not None and const_value(v, "?") is bad:
            return f"{name}={bad}"
        if v is not None and not isinstance(v, ast.Constant):
            if caller is not None and isinstance(v, ast.Name) and v.id == name and name in caller.params:
                continue  # forwards its own flag; the caller's default is checked separately
            return f"{name}={src(v)} (not constant)"
    return None


def mc_cover(prog: Program) -> RuleResult:
    r = RuleResult("MC-COVER", "every element-adding mutator is overridden, hooks each new element and stores it", floor=6)
    hook = _hook(prog)
    mc = prog.cls(MC)
    classes = [c for c in prog.subclasses(mc.qual, strict=True) if _builtin_base(prog, c)]
    if len(classes) < 2:
        raise AnalysisError("MC-COVER: monitored list/set classes not found")
    for c in classes:
        kind = _builtin_base(prog, c)
        adders = dict(ADDERS[kind])
        # the in-place operators are bulk adders like extend / update.  `x.f += v` also passes through the descriptor (PD-AUG), but the operator
        # applied to the container itself - an alias of the field, a helper that was handed the list - reaches nothing but the container
        for op in INPLACE[kind]:
            adders[op] = ("each", 0)
        for op in MORE_ADDERS[kind]:
            adders[op] = ("reach", 0)
        for mname, (mode, argi) in adders.items():
            key = f"{c.name}.{mname}"
            f = prog.lookup(c.qual, mname)
            if f is None:
                r.fail(key + "#override", c.loc, f"{kind}.{mname}", f"{kind}.{mname} is inherited unchanged: elements added through it are stored but never recorded in the symbol graph")
                continue
            seen, ext = self_closure(prog, c.qual, f, property_reads=False)
            reach_hook = hook in seen
            stores = sorted(e for e in ext if e.startswith(f"ext:builtins.{kind}.") and e.split(".")[-1] in ("append", "insert", "__setitem__", "extend", "add", "update", "__iadd__", "__ior__"))
            r.check(reach_hook, key + "#hook", site(f), src(f.node.body[-1]) if f.node.body else "", "reaches the on-add hook",
                    "does not reach the on-add hook: the new element is never recorded / inferred from")
            r.check(bool(stores), key + "#store", site(f), "", f"stores through {stores}", "never reaches a builtin store: the element is dropped")
            # per-element for bulk forms; no suppression on the way
            params = f.params[1:]
            pname = params[argi] if len(params) > argi else None
            if mode == "each" and reach_hook:
                ok = False
                for loop in [n for n in walk_local(f.node) if isinstance(n, ast.For)]:
                    derived = {pname}
                    for x in walk_local(f.node):
                        if isinstance(x, ast.Assign) and len(x.targets) == 1 and isinstance(x.targets[0], ast.Name) and pname in names_in(x.value):
                            derived.add(x.targets[0].id)
                    if derived & set(names_in(loop.iter)) and isinstance(loop.target, ast.Name):
                        for cc in calls_in(loop):
                            ts = resolve_call(prog, Ctx(f, c.qual), cc)
                            for t in ts:
                                if isinstance(t, FuncInfo) and (t == hook or hook in self_closure(prog, c.qual, t, False)[0]):
                                    if cc.args and isinstance(cc.args[0], ast.Name) and cc.args[0].id == loop.target.id:
                                        ok = True
                if not ok:
                    # handed on as a whole to another bulk adder of the class (def __iadd__(self, items): self.extend(items)), which is checked itself
                    for cc in calls_in(f.node):
                        if isinstance(cc.func, ast.Attribute) and is_self_attr(cc.func) and adders.get(cc.func.attr, ("", 0))[0] == "each" and cc.func.attr != mname \
                                and cc.args and isinstance(cc.args[0], ast.Name) and cc.args[0].id == pname:
                            ok = True
                r.check(ok, key + "#each", site(f), "", "hook called once per element of the argument",
                        "the hook is not called for each element of the iterable argument")
            if mode == "item" and reach_hook and pname:
                ok = False
                for cc in calls_in(f.node):
                    for t in resolve_call(prog, Ctx(f, c.qual), cc):
                        if isinstance(t, FuncInfo) and (t == hook or hook in self_closure(prog, c.qual, t, False)[0]):
                            if cc.args and isinstance(cc.args[0], ast.Name) and cc.args[0].id == pname:
                                ok = True
                r.check(ok, key + "#item", site(f), "", "hook receives the new element", "the hook is not called with the element being added")
            if kind == "list":
                # a list keeps what it is given, also an element it holds already: nothing between the mutator and the hook returns early
                # because the element is "already there" (that is the inferred-addition path of _update, right for sets only)
                dedup = None
                for g in seen:
                    for t_ in [x for x in walk_local(g.node) if isinstance(x, ast.If)]:
                        tt = t_.test.operand if isinstance(t_.test, ast.UnaryOp) and isinstance(t_.test.op, ast.Not) else t_.test
                        if isinstance(tt, ast.Compare) and len(tt.ops) == 1 and isinstance(tt.ops[0], (ast.In, ast.NotIn)) and g.params and src(tt.comparators[0]) == g.params[0] \
                                and any(isinstance(x, (ast.Return, ast.Continue)) for b in t_.body + t_.orelse for x in ast.walk(b)):
                            dedup = dedup or (g, t_)
                r.check(dedup is None, key + "#keeps-duplicates", site(dedup[0], dedup[1]) if dedup else site(f), src(dedup[1].test) if dedup else "",
                        "no membership test decides whether the element is stored",
                        f"{dedup[0].short if dedup else ''} skips an element the list holds already ({src(dedup[1].test) if dedup else ''}): x.f += [a] with a in x.f, or x.f += x.f, "
                        "leaves the list shorter than Python's list semantics dictate")
            sup = None
            for g in seen:
                for cc in calls_in(g.node):
                    for t in resolve_call(prog, Ctx(g, c.qual), cc):
                        if isinstance(t, FuncInfo) and t in seen and t is not g:
                            s = _suppressing(cc, t, g)
                            if s:
                                sup = f"{g.short} calls {t.short} with {s}"
            r.check(sup is None, key + "#not-suppressed", site(f), "", "graph recording left on", f"graph recording is suppressed on this path: {sup}")
            # defaults of the flags on the path
            for g in seen:
                a = g.node.args
                for p, d in zip(a.args[len(a.args) - len(a.defaults):], a.defaults):
                    if p.arg == "add_relation_to_the_graph" and g is not hook and g.name != "_update":
                        r.check(const_value(d) is True, f"{c.name}.{g.name}#default-records", site(g), f"{p.arg}={src(d)}", "records by default",
                                "graph recording defaults to off on a public write path")
                    if p.arg == "inferred":
                        r.check(const_value(d) is False, f"{c.name}.{g.name}#default-asserted", site(g), f"{p.arg}={src(d)}", "elements are asserted (strong) by default",
                                "user-added elements default to inferred (held weakly)")
    return r


def mc_hook(prog: Program) -> RuleResult:
    r = RuleResult("MC-HOOK", "the on-add hook records the relation whenever an owner is bound", floor=2)
    hook = _hook(prog)
    mc = prog.cls(MC)
    paths = explore(prog, hook, [Sym("self"), Sym("value"), False, True], self_type=mc.qual)
    n_owner = 0
    ok = True
    for val, outcome, calls in paths:
        none_atoms = [(a, v) for a, v in val.items() if a[0] == "is" and "None" in a[1:]]
        if any(v for a, v in none_atoms):
            continue  # no owner bound on this path
        n_owner += 1
        rec = [c for c in calls if c.fn.endswith(".add_relation_to_the_graph")]
        good = len(rec) == 1 and len(rec[0].args) >= 2 and repr(rec[0].args[1]) == "value" and dict(rec[0].kwargs).get("inferred", False) is False
        ok = ok and good and outcome == ("return", Sym("value"))
    r.check(ok and n_owner >= 1, "MonitoredContainer._on_add#records", site(hook), "", "records (owner, value) and returns the value when an owner is bound",
            "with an owner bound and recording requested, the hook does not record exactly (owner, value) as asserted / does not return the value")
    # inferred elements are held weakly (so that inference does not extend lifetimes), asserted ones strongly
    paths_inf = explore(prog, hook, [Sym("self"), Sym("value"), True, True], self_type=mc.qual)
    weak = all(repr(o[1]).startswith("weakref.ref(") for _, o, _ in paths_inf if o[0] == "return")
    r.check(weak, "MonitoredContainer._on_add#inferred-weak", site(hook), "", "inferred elements are wrapped in weakref.ref", "inferred elements are stored strongly")
    return r


def _set_fn(prog: Program) -> FuncInfo:
    return prog.method(PD, "__set__", inherited=False)


def pd_alias(prog: Program) -> RuleResult:
    r = RuleResult("PD-ALIAS", "the setter never reads the assigned value after clearing the live container", floor=1)
    f = _set_fn(prog)
    vparam = f.params[2]
    cfg = CFG(f.node)
    clears = []
    for n in cfg.nodes:
        if n.stmt is None or n.kind != "stmt":
            continue
        for c in calls_in(n.stmt):
            if call_name(c) in ("_clear", "clear") and isinstance(c.func, ast.Attribute):
                clears.append(n)
    if not clears:
        r.note("setter does not clear a live container (nothing to order)")
        r.ok("PropertyDescriptor.__set__#no-clear", site(f), "", "no clear")
        return r
    for cl in clears:
        after = cfg.reachable(cl.id) - {cl.id}
        bad = None
        for i in sorted(after):
            n = cfg.nodes[i]
            if n.stmt is None:
                continue
            for part in cfg._own_parts(n):
                for x in ast.walk(part):
                    if isinstance(x, ast.Name) and x.id == vparam and isinstance(x.ctx, ast.Load):
                        # identity / type probes do not read the contents
                        bad = bad or n
        guarded = False
        if bad is not None:
            # tolerated when the clear itself is control-dependent on `value is not <container>`
            for t in cfg.nodes:
                if t.kind == "test" and isinstance(t.stmt, ast.If) and cfg.dominates(t.id, cl.id):
                    tt = t.stmt.test
                    if isinstance(tt, ast.Compare) and len(tt.ops) == 1 and isinstance(tt.ops[0], (ast.IsNot,)) and vparam in names_in(tt):
                        if t.true_succ is not None and cfg.dominates(t.true_succ, cl.id):
                            guarded = True
        r.check(
            bad is None or guarded, "PropertyDescriptor.__set__#clear-then-read", site(f, cl.stmt), src(cl.stmt),
            "assigned value is snapshotted before the clear (or the clear is skipped for the same object)",
            f"the live container is cleared at line {cl.lineno} and the assigned value is read afterwards at line {bad.lineno if bad else '?'}: "
            f"when the value is that container (x.f = x.f, x.f += ..., x.f |= ...) the data is erased",
        )
    # what is read after the clear in place of the value - the snapshot - must be a container of its own: a helper that hands a list back
    # as it is (`if isinstance(value, list): return value`) makes the snapshot the live container again (a MonitoredList is a list)
    for cl in clears:
        before = [n for n in cfg.nodes if n.kind == "stmt" and isinstance(n.stmt, ast.Assign) and cfg.dominates(n.id, cl.id) and n.id != cl.id
                  and any(isinstance(x, ast.Name) and x.id == vparam for x in ast.walk(n.stmt.value)) and len(n.stmt.targets) == 1 and isinstance(n.stmt.targets[0], ast.Name)]
        after = cfg.reachable(cl.id) - {cl.id}
        for b in before:
            name = b.stmt.targets[0].id
            used = any(isinstance(x, ast.Name) and x.id == name and isinstance(x.ctx, ast.Load) for i in after if cfg.nodes[i].stmt is not None
                       for part in cfg._own_parts(cfg.nodes[i]) for x in ast.walk(part))
            if not used:
                continue
            why = _may_alias(prog, f, b.stmt.value, {vparam})
            r.check(why is None, f"PropertyDescriptor.__set__#snapshot-is-a-fresh-container:{name}", site(f, b.stmt), src(b.stmt)[:100],
                    "the snapshot read after the clear is a newly built container on every path",
                    f"{name} = {src(b.stmt.value)[:60]} can be the assigned value itself ({why}): when the value is the live container (x.f = x.f, x.f += [...], x.f *= 2) "
                    "the clear empties the snapshot too - the field ends up empty and the new elements are never recorded")
    return r


_FRESH_CALLS = ("list", "tuple", "set", "frozenset", "sorted", "dict", "copy", "deepcopy")


def _may_alias(prog: Program, f: FuncInfo, e: ast.expr, params: Set[str], depth: int = 0) -> Optional[str]:
    """why the value of `e` may be one of `params` itself (None: it is a newly built container whatever the parameter is)"""
    if isinstance(e, (ast.List, ast.Tuple, ast.Set, ast.Dict, ast.ListComp, ast.SetComp, ast.DictComp, ast.Constant)):
        return None
    if isinstance(e, ast.Name):
        return f"it is {e.id}" if e.id in params else None
    if isinstance(e, ast.IfExp):
        return _may_alias(prog, f, e.body, params, depth) or _may_alias(prog, f, e.orelse, params, depth)
    if isinstance(e, ast.BoolOp):
        for v in e.values:
            w = _may_alias(prog, f, v, params, depth)
            if w:
                return w
        return None
    if isinstance(e, ast.Call):
        if isinstance(e.func, ast.Name) and e.func.id in _FRESH_CALLS:
            return None
        q = f.module.resolve(e.func) if isinstance(e.func, (ast.Name, ast.Attribute)) else None
        g = prog.functions.get(q) if q else None
        if g is None or depth > 2:
            return f"{src(e.func)}() is not known to build a new container"
        passed = {p for p, a in zip(g.params, e.args) if any(isinstance(x, ast.Name) and x.id in params for x in ast.walk(a))}
        # locals of the helper that stand for the parameter
        for x in walk_local(g.node):
            if isinstance(x, ast.Return) and x.value is not None:
                w = _may_alias(prog, g, x.value, passed, depth + 1)
                if w:
                    return f"{g.name}() returns its argument on one path: line {x.lineno}"
        return None
    return f"{src(e)[:40]} is not a construction"


def _populating_loops(prog: Program, pd, f: FuncInfo):
    """for-loops in f whose body adds elements to a monitored container"""
    out = []
    for loop in [n for n in walk_local(f.node) if isinstance(n, ast.For)]:
        if any(call_name(c) in ("_add_item", "append", "add", "_update") for c in calls_in(loop)):
            out.append(loop)
    return out


def _is_set_conversion(prog: Program, f: FuncInfo, e: ast.expr, seen=None) -> Optional[str]:
    """name of a set-constructing call inside e (resolving repo helpers by their return expr)"""
    for c in [x for x in ast.walk(e) if isinstance(x, ast.Call)]:
        q = f.module.resolve(c.func)
        if q in ("ext:builtins.set", "ext:builtins.frozenset"):
            return q.split(".")[-1]
        g = prog.functions.get(q)
        if g is not None and g.cls is None:
            for ret in [n for n in walk_local(g.node) if isinstance(n, ast.Return) and n.value is not None]:
                for cc in [x for x in ast.walk(ret.value) if isinstance(x, ast.Call)]:
                    if g.module.resolve(cc.func) in ("ext:builtins.set", "ext:builtins.frozenset"):
                        return g.name
                if any(isinstance(x, (ast.Set, ast.SetComp)) for x in ast.walk(ret.value)):
                    return g.name
    return None


def pd_seq(prog: Program) -> RuleResult:
    r = RuleResult("PD-SEQ", "no set conversion between the assigned value and a list container", floor=2)
    pd = prog.cls(PD)
    f = _set_fn(prog)
    seen, _ = self_closure(prog, pd.qual, f, property_reads=False)
    for g in sorted(seen, key=lambda x: x.qual):
        local_defs = {}
        for s in walk_local(g.node):
            if isinstance(s, ast.Assign) and len(s.targets) == 1 and isinstance(s.targets[0], ast.Name):
                local_defs.setdefault(s.targets[0].id, []).append(s.value)
        for loop in _populating_loops(prog, pd, g):
            exprs = [loop.iter]
            if isinstance(loop.iter, ast.Name):
                exprs += local_defs.get(loop.iter.id, [])
            conv = None
            for e in exprs:
                conv = conv or _is_set_conversion(prog, g, e)
            r.check(conv is None, f"{g.short}#populate-order", site(g, loop), src(loop.iter),
                    "elements reach the container in the order and multiplicity of the assigned value",
                    f"the assigned value passes through {conv}() before it populates the container: a list field loses order and repetitions")
    return r


def _path_with_container_skipping(cfg: CFG, f: FuncInfo, loop_header: int, identity_exempt: bool = False):
    """A path entry -> exit of the setter that handles a live monitored container yet avoids the re-populating loop.
    Edges that establish "the backing value is not a monitored container" (false edge of isinstance(x, MonitoredContainer),
    true edge of its negation, x not reassigned afterwards) or "the assigned value is the descriptor itself" are removed."""
    vparam = f.params[2]

    def reassigned_after(name: str, t: int) -> bool:
        for i in cfg.reachable(t) - {t}:
            st = cfg.nodes[i].stmt
            if isinstance(st, (ast.Assign, ast.AnnAssign, ast.AugAssign)):
                tg = st.targets if isinstance(st, ast.Assign) else [st.target]
                if any(isinstance(x, ast.Name) and x.id == name for tt in tg for x in ast.walk(tt)):
                    return True
        return False

    cut = set()  # (test node, polarity) edges not to follow
    for t in cfg.nodes:
        if t.kind != "test" or not isinstance(t.stmt, ast.If):
            continue
        tt, pol = t.stmt.test, True
        if isinstance(tt, ast.UnaryOp) and isinstance(tt.op, ast.Not):
            tt, pol = tt.operand, False
        if isinstance(tt, ast.Call) and call_name(tt) == "isinstance" and len(tt.args) == 2 and isinstance(tt.args[0], ast.Name):
            ty = src(tt.args[1])
            if ty.endswith("MonitoredContainer") and not reassigned_after(tt.args[0].id, t.id):
                cut.add((t.id, not pol))
            elif tt.args[0].id == vparam and ty.endswith("PropertyDescriptor"):
                cut.add((t.id, pol))
        # "the assigned value is the container the field holds already" (x.f = x.f): nothing new is assigned on that edge
        if identity_exempt and isinstance(tt, ast.Compare) and len(tt.ops) == 1 and isinstance(tt.ops[0], (ast.Is, ast.IsNot)) and vparam in (src(tt.left), src(tt.comparators[0])) \
                and not isinstance(tt.comparators[0], ast.Constant):
            cut.add((t.id, pol if isinstance(tt.ops[0], ast.Is) else not pol))
    prev = {cfg.entry: None}
    stack = [cfg.entry]
    while stack:
        n = stack.pop()
        if n == cfg.exit:
            out = []
            while n is not None:
                out.append(n)
                n = prev[n]
            return out[::-1]
        node = cfg.nodes[n]
        for sx in node.succ:
            if sx == loop_header or sx in prev:
                continue
            if node.kind == "test" and isinstance(node.stmt, ast.If):
                polarity = sx == node.true_succ
                if (n, polarity) in cut:
                    continue
            prev[sx] = n
            stack.append(sx)
    return None


def pd_aug(prog: Program, alias_ok: bool) -> RuleResult:
    r = RuleResult("PD-AUG", "+= and |= on a managed field record every new element", floor=2)
    mc = prog.cls(MC)
    hook = _hook(prog)
    f = _set_fn(prog)
    # does the setter re-populate the container through the hook?
    repop = False
    records_assigned = False
    skip_path = None
    cfg = CFG(f.node)
    for loop in [n for n in walk_local(f.node) if isinstance(n, ast.For)]:
        for c in calls_in(loop):
            if call_name(c) == "_add_item" and not any(k.arg == "add_relation_to_the_graph" and const_value(k.value) is False for k in c.keywords):
                # the loop must lie on *every* path that handles a live monitored container: an exit that skips it
                # (say for `value is attr`, which is exactly what += / |= pass) leaves the new elements unrecorded
                h = cfg.by_stmt.get(loop)
                if h is None:
                    continue
                p = _path_with_container_skipping(cfg, f, h)
                if p is None:
                    repop = True
                else:
                    skip_path = cfg.describe(p)
                if _path_with_container_skipping(cfg, f, h, identity_exempt=True) is None:
                    records_assigned = True
    # assignment of a new collection: whatever the in-place operators do, the elements of an assigned collection are added through the hook
    # on every path that handles a monitored container (a path on which the assigned value *is* that container assigns nothing new)
    r.check(records_assigned, "PropertyDescriptor.__set__#assigned-elements-recorded", site(f), "", "every element of an assigned collection is added through the recording hook",
            "the setter stores the elements of an assigned collection without recording them (or skips them on some path): x.f = [a, b] leaves a and b in the field and unknown to the graph")
    for c in [c for c in prog.subclasses(mc.qual, strict=True) if _builtin_base(prog, c)]:
        kind = _builtin_base(prog, c)
        for op in INPLACE[kind]:
            g = prog.lookup(c.qual, op)
            hooked = g is not None and hook in self_closure(prog, c.qual, g, False)[0]
            r.check(
                hooked or (repop and alias_ok), f"{c.name}.{op}", c.loc, op,
                "in-place operator is hooked" if hooked else "the setter that follows the in-place operator re-adds every element through the hook from a snapshot",
                "the in-place operator is not hooked and the setter does not safely re-populate"
                + (f" (path {' -> '.join(skip_path)} leaves the setter without re-adding)" if skip_path else "")
                + ": augmented assignment loses data or inferences",
            )
    return r


def pd_single(prog: Program) -> RuleResult:
    r = RuleResult("PD-SINGLE", "single-valued assignment stores the value and records the relation", floor=2)
    f = _set_fn(prog)
    obj, val = f.params[1], f.params[2]
    stored = recorded = False
    for n in walk_local(f.node):
        if isinstance(n, ast.Call) and isinstance(n.func, ast.Name) and n.func.id == "setattr" and len(n.args) == 3:
            if src(n.args[0]) == obj and src(n.args[2]) == val:
                stored = True
        if isinstance(n, ast.Call) and call_name(n) == "add_relation_to_the_graph" and len(n.args) >= 2:
            if src(n.args[0]) == obj and src(n.args[1]) == val and const_value(kwarg(n, "inferred"), False) is False:
                recorded = True
    r.check(stored, "PropertyDescriptor.__set__#single-store", site(f), "", "value stored in the backing field", "single-valued assignment does not store the value")
    r.check(recorded, "PropertyDescriptor.__set__#single-record", site(f), "", "relation recorded as asserted", "single-valued assignment does not record (owner, value) in the graph")
    # recording adds one relation per element and infers (delegates to PropertyDescriptorRelation.add_to_graph)
    g = prog.method(PD, "add_relation_to_the_graph", inherited=False)
    made = [c for c in calls_in(g.node) if call_name(c) == "add_to_graph"]
    good = bool(made) and any("PropertyDescriptorRelation" in src(c.func) for c in made)
    r.check(good, "PropertyDescriptor.add_relation_to_the_graph#relation", site(g), src(made[0]) if made else "", "relation object added through add_to_graph (inference entry point)",
            "recording does not go through PropertyDescriptorRelation(...).add_to_graph()")
    return r



# --------------------------------------------------------------------------------------- MC-ONCE
BUILTIN_CONSUMERS = {"list", "set", "tuple", "sorted", "frozenset", "sum", "any", "all", "min", "max", "dict", "len_of_iter"}
BULK_BUILTIN_METHODS = {"extend": 0, "update": 0, "__iadd__": 0, "__ior__": 0, "__setitem__": 1, "__init__": 0, "union": 0}
RE_ITERABLE = {"list", "set", "tuple", "frozenset", "dict", "MonitoredContainer", "MonitoredList", "MonitoredSet"}


def _consumes(prog: Program, ctx: Ctx, f: FuncInfo, pname: str, seen=None) -> bool:
    """does `f` iterate the object its parameter `pname` is bound to?"""
    seen = seen if seen is not None else set()
    if (f.qual, pname) in seen:
        return False
    seen.add((f.qual, pname))
    return any(True for _ in _consumption_sites(prog, ctx, f, pname, seen))


def _consumption_sites(prog: Program, ctx: Ctx, f: FuncInfo, pname: str, seen=None):
    """AST nodes of `f` at which the object named `pname` is iterated (once each)"""
    seen = seen if seen is not None else {(f.qual, pname)}
    for x in walk_local(f.node):
        if isinstance(x, (ast.For, ast.comprehension)) and isinstance(x.iter, ast.Name) and x.iter.id == pname:
            yield x.iter
        elif isinstance(x, ast.YieldFrom) and isinstance(x.value, ast.Name) and x.value.id == pname:
            yield x.value
        elif isinstance(x, ast.Starred) and isinstance(x.value, ast.Name) and x.value.id == pname and isinstance(x.ctx, ast.Load):
            yield x.value
        elif isinstance(x, ast.Call):
            for i, a in enumerate(x.args):
                if not (isinstance(a, ast.Name) and a.id == pname):
                    continue
                if isinstance(x.func, ast.Name) and x.func.id in BUILTIN_CONSUMERS and x.func.id not in f.params:
                    yield a
                    continue
                if isinstance(x.func, ast.Attribute) and BULK_BUILTIN_METHODS.get(x.func.attr) == i and any(
                        isinstance(t, str) and t.startswith(("ext:builtins.list.", "ext:builtins.set.")) for t in resolve_call(prog, ctx, x)):
                    yield a
                    continue
                for t in resolve_call(prog, ctx, x):
                    if isinstance(t, FuncInfo):
                        ps = t.params[1:] if (t.cls is not None and not t.is_staticmethod and isinstance(x.func, ast.Attribute)) else t.params
                        if i < len(ps) and _consumes(prog, Ctx(t, t.cls.qual if t.cls is not None else None), t, ps[i], seen):
                            yield a
                            break
            for k in x.keywords:
                if isinstance(k.value, ast.Name) and k.value.id == pname and k.arg:
                    for t in resolve_call(prog, ctx, x):
                        if isinstance(t, FuncInfo) and k.arg in t.params and _consumes(prog, Ctx(t, t.cls.qual if t.cls is not None else None), t, k.arg, seen):
                            yield k.value
                            break


def _is_container_test(t: ast.expr, pname: str) -> bool:
    if isinstance(t, ast.Call) and isinstance(t.func, ast.Name) and t.func.id == "isinstance" and len(t.args) == 2 and isinstance(t.args[0], ast.Name) and t.args[0].id == pname:
        ks = t.args[1].elts if isinstance(t.args[1], ast.Tuple) else [t.args[1]]
        return all(src(k).split(".")[-1] in RE_ITERABLE for k in ks)
    return False


def mc_once(prog: Program) -> RuleResult:
    r = RuleResult("MC-ONCE", "a bulk mutator iterates its argument once and never while storing into the same list", floor=3)
    mc = prog.cls(MC)
    hook = _hook(prog)
    for c in [c for c in prog.subclasses(mc.qual, strict=True) if _builtin_base(prog, c)]:
        kind = _builtin_base(prog, c)
        for mname, (mode, argi) in ADDERS[kind].items():
            f = prog.lookup(c.qual, mname)
            if f is None or f.cls is None or f.cls.qual.startswith("ext:"):
                continue
            if mode != "each" and mname != "__setitem__":
                continue
            params = f.params[1:]
            if len(params) <= argi:
                continue
            pname = params[argi]
            ctx = Ctx(f, c.qual)
            cfg = CFG(f.node)
            key = f"{c.name}.{mname}"
            # the graph restricted to the calls this obligation is about: for item assignment only slice indices carry an iterable
            dropped_edges = set()
            non_slice_exprs = set()
            if mname == "__setitem__":
                idx = params[0]
                def is_slice_test(t):
                    return (isinstance(t, ast.Call) and isinstance(t.func, ast.Name) and t.func.id == "isinstance" and len(t.args) == 2
                            and src(t.args[0]) == idx and src(t.args[1]).split(".")[-1] == "slice")

                tests = [n for n in cfg.nodes if n.kind == "test" and isinstance(n.stmt, ast.If) and is_slice_test(n.stmt.test)]
                ifexps = [x for x in walk_local(f.node) if isinstance(x, ast.IfExp) and is_slice_test(x.test)]
                r.check(bool(tests or ifexps), key + "#slice-distinguished", site(f), "", "slice indices are told apart from positions",
                        "item assignment does not tell a slice from a position: `x.f[i:j] = values` hands the whole iterable to the on-add hook as if it were one element, "
                        "which iterates it (a one-shot iterable is then empty when it is stored) and stores nothing element-wise")
                if not (tests or ifexps):
                    continue
                for t in tests:
                    if t.false_succ is not None:
                        dropped_edges.add((t.id, t.false_succ))
                for x in ifexps:
                    non_slice_exprs.update(id(y) for y in ast.walk(x.orelse))
                # on the slice side every element goes through the hook
                per_elem = False
                scopes = [x.body for x in ifexps]
                for t in tests:
                    region = _reach(cfg, t.true_succ, dropped_edges, set()) if t.true_succ is not None else set()
                    for i in region:
                        n = cfg.nodes[i]
                        if n.stmt is not None:
                            scopes += [n.stmt] if n.kind == "for" else list(cfg._own_parts(n))
                for part in scopes:
                    for x in ([part] if isinstance(part, ast.For) else ast.walk(part)):
                        tv = it = body = None
                        if isinstance(x, (ast.ListComp, ast.GeneratorExp, ast.SetComp)) and len(x.generators) == 1:
                            tv, it, body = x.generators[0].target, x.generators[0].iter, [x.elt]
                        if isinstance(x, ast.For):
                            tv, it, body = x.target, x.iter, x.body
                        if tv is None or not isinstance(tv, ast.Name) or pname not in names_in(it):
                            continue
                        for b in body:
                            for cc in calls_in(b):
                                for tg in resolve_call(prog, ctx, cc):
                                    if isinstance(tg, FuncInfo) and (tg == hook or hook in self_closure(prog, c.qual, tg, False)[0]):
                                        if cc.args and isinstance(cc.args[0], ast.Name) and cc.args[0].id == tv.id:
                                            per_elem = True
                r.check(per_elem, key + "#slice-each", site(f), "", "each element of an assigned slice goes through the on-add hook",
                        "the elements of an assigned slice are not handed to the on-add hook one by one")
            if mname == "__setitem__":
                # recording may append inferred elements to this list (transitive fields): the position - negative ones count from the end -
                # has to be resolved against the list as it is when the write starts, i.e. re-bound from len(self) on every path to the store
                idx = params[0]
                stores_ = [nd for nd in cfg.nodes if nd.stmt is not None and any(is_super_call(cc) and cc.func.attr == "__setitem__" and cc.args and isinstance(cc.args[0], ast.Name) and cc.args[0].id == idx
                                                                                  for part in cfg._own_parts(nd) for cc in calls_in(part))]
                rebinds = []
                # locals computed from the current length (start, stop, step = idx.indices(len(self)))
                from_len: Set[str] = set()
                for _ in range(3):
                    for nd in cfg.nodes:
                        if nd.kind == "stmt" and isinstance(nd.stmt, ast.Assign) and ("len(self)" in src(nd.stmt.value) or any(isinstance(x, ast.Name) and x.id in from_len for x in ast.walk(nd.stmt.value))):
                            from_len |= {x.id for t in nd.stmt.targets for x in ast.walk(t) if isinstance(x, ast.Name) and x.id != idx}
                for nd in cfg.nodes:
                    if nd.kind == "stmt" and isinstance(nd.stmt, ast.Assign) and any(isinstance(t, ast.Name) and t.id == idx for t in nd.stmt.targets):
                        txt = src(nd.stmt.value)
                        uses_len = "len(self)" in txt or any(isinstance(x, ast.Name) and x.id in from_len for x in ast.walk(nd.stmt.value))
                        for cc in calls_in(nd.stmt.value):
                            for tg in resolve_call(prog, ctx, cc):
                                if isinstance(tg, FuncInfo) and any("len(self)" in src(x) for x in ast.walk(tg.node) if isinstance(x, ast.Call)):
                                    uses_len = True
                        if uses_len:
                            rebinds.append(nd.id)
                raw = any(cfg.path_avoiding(cfg.entry, st_.id, set(rebinds)) is not None for st_ in stores_)
                r.check(bool(stores_) and not raw, key + "#position-fixed-before-recording", site(f, stores_[0].stmt) if stores_ else site(f), f"{len(rebinds)} re-binding(s) of {idx} from len(self)",
                        "the position is resolved against the list as it is when the write starts",
                        f"`{idx}` reaches list.__setitem__ as the caller passed it, after the on-add hook has run: with a transitive field the hook appends inferred elements, and x.f[-1] = y "
                        "then overwrites an inferred element instead of the old last one (the old element stays, an inferred one is lost)")
                # slice.indices(n) answers for range(): counting down it gives stop = -1 for 'down to the first element', which a slice reads
                # as 'down to the last'. A slice rebuilt from it must not take that stop as it is.
                ind = [cc for cc in calls_in(f.node) if call_name(cc) == "indices"]
                if ind:
                    stop_names = set()
                    for nd in cfg.nodes:
                        if nd.kind == "stmt" and isinstance(nd.stmt, ast.Assign) and any(cc in list(ast.walk(nd.stmt.value)) for cc in ind):
                            for t in nd.stmt.targets:
                                if isinstance(t, (ast.Tuple, ast.List)) and len(t.elts) == 3 and isinstance(t.elts[1], ast.Name):
                                    stop_names.add(t.elts[1].id)
                    naive = None
                    for cc in calls_in(f.node):
                        if isinstance(cc.func, ast.Name) and cc.func.id == "slice":
                            if any(isinstance(a, ast.Starred) and any(x in ind for x in ast.walk(a.value)) for a in cc.args):
                                naive = naive or cc
                            if len(cc.args) >= 2 and isinstance(cc.args[1], ast.Name) and cc.args[1].id in stop_names:
                                naive = naive or cc
                    r.check(naive is None, key + "#slice-counting-down", site(f, naive) if naive is not None else site(f), src(naive)[:80] if naive is not None else f"{len(ind)} call(s) of indices()",
                            "a slice rebuilt from indices() does not take the counting-down stop -1 as it is",
                            f"{src(naive)[:60] if naive is not None else ''} rebuilds the slice from slice.indices(): counting down, indices() gives stop = -1 for 'down to the first element', which "
                            "the rebuilt slice reads as the last element - x.f[::-1] = [a, b] selects nothing and raises ValueError where a plain list reverses")
            sites = [a for a in _consumption_sites(prog, ctx, f, pname) if id(a) not in non_slice_exprs]
            ev: dict = {}
            for a in sites:
                i = cfg.node_of(a)
                if i is not None:
                    ev.setdefault(i, []).append(a)
            kills = set()
            for n in cfg.nodes:
                if n.stmt is None or n.kind != "stmt":
                    continue
                if isinstance(n.stmt, (ast.Assign, ast.AnnAssign, ast.AugAssign)):
                    tg = n.stmt.targets if isinstance(n.stmt, ast.Assign) else [n.stmt.target]
                    if any(isinstance(t, ast.Name) and t.id == pname for t in tg):
                        kills.add(n.id)
            # edges after which the argument is known to be a re-iterable container
            for n in cfg.nodes:
                if n.kind == "test" and isinstance(n.stmt, ast.If) and _is_container_test(n.stmt.test, pname) and n.true_succ is not None:
                    dropped_edges.add((n.id, n.true_succ))
            live = _reach(cfg, cfg.entry, dropped_edges, kills)
            bad = None
            for i, occ in sorted(ev.items()):
                if i not in live and not any(i in cfg.nodes[p].succ and p in live and p not in kills for p in range(len(cfg.nodes))):
                    continue  # only reached with a materialised argument
                if len(occ) > 1:
                    bad = bad or (occ[0], occ[1])
                if i in kills:
                    continue
                after = set()
                for s_ in cfg.nodes[i].succ:
                    if (i, s_) not in dropped_edges:
                        after |= _reach(cfg, s_, dropped_edges, kills, include_kill_nodes=True)
                for j, occ2 in sorted(ev.items()):
                    if j == i and cfg.nodes[i].kind == "for" and not cfg.nodes[i].loops:
                        continue  # the iterator of a loop is taken once; coming back to the header is the next round
                    if j in after:
                        bad = bad or (occ[0], occ2[0])
            r.check(bad is None, key + "#argument-iterated-once", site(f, bad[1]) if bad else site(f), f"{pname}: {len(sites)} iteration site(s)",
                    "no path iterates the raw argument twice",
                    f"`{pname}` is iterated at line {bad[0].lineno if bad else 0} and again at line {bad[1].lineno if bad else 0} without being materialised in between: "
                    f"a one-shot iterable (generator, iter(...), map/filter object) is empty the second time, so elements are recorded in the graph but missing from the field, or the reverse")
            if kind == "list":
                # a loop that stores into this list must not run over the raw argument: x.f.extend(x.f) would never end
                bad2 = None
                for n in cfg.nodes:
                    if n.kind == "for" and isinstance(n.stmt.iter, ast.Name) and n.stmt.iter.id == pname and n.id in _reach(cfg, cfg.entry, dropped_edges, kills, include_kill_nodes=True):
                        stores = False
                        for cc in [cc for b in n.stmt.body for cc in calls_in(b)]:
                            if is_super_call(cc) and cc.func.attr in ("append", "insert", "extend"):
                                stores = True
                            for tg in resolve_call(prog, ctx, cc):
                                if isinstance(tg, FuncInfo) and any(e.startswith("ext:builtins.list.") and e.split(".")[-1] in ("append", "insert", "extend") for e in self_closure(prog, c.qual, tg, False)[1]):
                                    stores = True
                        if stores:
                            bad2 = n
                r.check(bad2 is None, key + "#no-loop-over-live-argument", site(f, bad2.stmt) if bad2 else site(f), "", "the storing loop runs over a snapshot",
                        f"the loop over `{pname}` appends to this list on each round: when the argument is the list itself (x.f.extend(x.f), x.f[a:b] = x.f) it never ends")
    return r


def _reach(cfg: CFG, start, dropped_edges, kills, include_kill_nodes=False):
    """nodes reachable from `start` without leaving a kill node (the kill nodes themselves are included on request)"""
    seen = set()
    stack = [start]
    while stack:
        n = stack.pop()
        if n is None or n in seen:
            continue
        if n in kills:
            if include_kill_nodes:
                seen.add(n)
            continue
        seen.add(n)
        for s_ in cfg.nodes[n].succ:
            if (n, s_) not in dropped_edges:
                stack.append(s_)
    return seen


# --------------------------------------------------------------------------------------- PD-FRESH
def pd_fresh(prog: Program) -> RuleResult:
    r = RuleResult("PD-FRESH", "the container stored for a collection field is the field's own, never the assigned object", floor=1)
    f = _set_fn(prog)
    pd = prog.cls(PD)
    selfn, obj, val = f.params[0], f.params[1], f.params[2]
    helpers = {g.qual for g in self_closure(prog, pd.qual, f, False)[0] if g.cls is not None and g.cls.qual == pd.qual and g is not f and g.name not in ("add_relation_to_the_graph",)}

    def consistent(v):
        for a, b in v.items():
            # a freshly constructed container (constructor called with descriptor=...) is a monitored container
            if a[0] == "isinstance" and a[2] == "MonitoredContainer" and "(descriptor=" in a[1] and not a[1].startswith("getattr(") and b is False:
                return False
        return True

    res = explore(prog, f, [Sym(selfn), Sym(obj), Sym(val)], self_type=pd.qual, inline=lambda q: q in helpers, generic_loops=True, consistent=consistent)
    n = 0
    bad = None
    for valuation, outcome, calls in res:
        if valuation.get(("truth", f"{selfn}.is_iterable")) is not True:
            continue
        if valuation.get(("isinstance", val, "PropertyDescriptor")) is True:
            continue
        n += 1
        for c in calls:
            t = term(c)
            if t.startswith(f"setattr({obj}, {selfn}.private_attr_name, ") and t[len(f"setattr({obj}, {selfn}.private_attr_name, "):-1] == val:
                bad = bad or (valuation, t)
    if n < 2:
        raise AnalysisError("PD-FRESH: fewer than 2 collection-field paths through the setter")
    r.check(bad is None, "PropertyDescriptor.__set__#own-container", site(f), f"{n} paths with a collection field",
            "every path stores a container built for this field",
            "on the path " + (", ".join(f"{k[1]} {k[0]} {k[2] if len(k) > 2 else ''}={v}" for k, v in bad[0].items()) if bad else "") +
            f" the assigned object itself becomes the backing container ({bad[1] if bad else ''}): Company(members=other.members) shares one container between two owners, "
            "so what is added through one field shows up in the other without its relations")
    return r


# --------------------------------------------------------------------------------------- MC-EQ
def mc_eq(prog: Program) -> RuleResult:
    """The monitored containers are lists / sets: two of them are equal iff their elements are.  `value in container`, the
    owners' dataclass __eq__ and the skip-if-present test of the write-back all go through this comparison."""
    r = RuleResult("MC-EQ", "monitored containers compare by their elements", floor=2)
    mc = prog.cls(MC)
    for c in [c for c in prog.subclasses(mc.qual, strict=True) if _builtin_base(prog, c)]:
        kind = _builtin_base(prog, c)
        bad = None
        for q in c.mro:
            if q == f"ext:builtins.{kind}":
                break
            k = prog.classes.get(q)
            if k is None:
                continue
            if "__eq__" in k.methods:
                f = k.methods["__eq__"]
                if not any(is_super_call(cc, "__eq__") or (isinstance(cc.func, ast.Attribute) and src(cc.func) in (f"{kind}.__eq__",)) for cc in calls_in(f.node)):
                    bad = bad or (k, f"{k.name}.__eq__ is defined and does not defer to {kind}.__eq__")
            elif k.is_dataclass and k.decorator_kw("dataclass", "eq") is not False:
                own_fields = [n for n, fi in k.attrs.items() if not fi.is_classvar]
                bad = bad or (k, f"@dataclass on {k.name} generates __eq__ over its fields ({own_fields or 'none: any two instances are equal'}), which shadows {kind}.__eq__")
        r.check(bad is None, f"{c.name}#element-wise-equality", bad[0].loc if bad else c.loc, "", f"{kind}.__eq__ is what == resolves to",
                (bad[1] if bad else "") + ": containers with different elements compare equal, so owners that differ only in a managed field are equal, `owner in other_field` "
                "finds the wrong owner and the write-back of an inferred value is skipped - field and graph disagree")
    return r


# --------------------------------------------------------------------------------------- MC-ARGS
def mc_args(prog: Program) -> RuleResult:
    """'leave the field containing exactly the elements Python semantics dictate': a positional mutator stores through the builtin method of
    the same name with the caller's position, whatever the position is (every int is a legal index for list.insert: negative ones count
    from the end, -1 included).  Decision table of the mutator with its helpers inlined; a position is never None."""
    from ..dtable import explore as _explore, Sym as _Sym, term as _term

    r = RuleResult("MC-ARGS", "positional mutators store at the caller's position through the builtin of the same name", floor=2)
    mc = prog.cls(MC)
    for c in [c for c in prog.subclasses(mc.qual, strict=True) if _builtin_base(prog, c) == "list"]:
        helpers = {g.qual for g in c.methods.values() if g.name.startswith("_") and not g.name.startswith("__")}
        for mname, npos in (("insert", 2), ("append", 1)):
            f = prog.lookup(c.qual, mname)
            if f is None or f.cls is None or f.cls.qual.startswith("ext:"):
                continue
            params = f.params
            preset = {("is", "None", p): False for p in params[1:]}
            try:
                def _consistent(v_):
                    # the result of integer arithmetic / min / max / len / operator.index is never None
                    return not any(a_[0] == "is" and "None" in a_[1:] and b_ is True and any(t_.startswith(("min(", "max(", "len(", "Add(", "Sub(", "operator.index(")) for t_ in a_[1:] if t_ != "None")
                                   for a_, b_ in v_.items())

                paths = _explore(prog, f, [_Sym(p) for p in params], self_type=c.qual, inline=lambda q: q in helpers and not q.endswith("._on_add"), generic_loops=True, preset=preset,
                                 consistent=_consistent)
            except AnalysisError as e:
                raise AnalysisError(f"MC-ARGS: {c.name}.{mname}: {e}")
            bad = None
            late = None
            for val, out, calls in paths:
                stores = [x for x in calls if getattr(x, "fn", "").startswith("super().") and x.fn.split(".")[-1] in ("append", "insert", "extend", "__setitem__", "__iadd__")]
                label = ", ".join(f"{' '.join(map(str, a[1:]))}={v}" for a, v in val.items() if a not in preset) or "always"
                if len(stores) != 1:
                    bad = bad or f"[{label}] {len(stores)} builtin stores"
                    continue
                st = stores[0]
                if st.fn.split(".")[-1] != mname:
                    bad = bad or f"[{label}] stores through list.{st.fn.split('.')[-1]}"
                elif mname == "insert":
                    pos_t = _term(st.args[0]) if len(st.args) == 2 else "?"
                    import re as _re

                    if not _re.search(r"\b" + _re.escape(params[1]) + r"\b", pos_t):
                        bad = bad or f"[{label}] inserts at {pos_t}, which does not depend on {params[1]}"
                    else:
                        # recording may append inferred elements to this very list (transitive fields): a negative position has to be
                        # turned into a position of the list *as it is now* before the hook runs - or the store has to come first
                        order = [x.fn for x in calls]
                        hook_i = next((i_ for i_, x in enumerate(calls) if getattr(x, "fn", "").endswith("._on_add")), None)
                        store_i = calls.index(st)
                        resolved = "len(self)" in pos_t
                        if hook_i is not None and hook_i < store_i and not resolved:
                            late = late or f"[{label}] the hook runs first and the store uses the raw position {pos_t}"
            if mname == "insert":
                r.check(late is None, f"{c.name}.{mname}#position-fixed-before-recording", site(f), f"{len(paths)} path(s)", "a negative position is resolved against the list as it is when the write starts",
                        f"{late}: recording can append inferred elements to this list (transitive fields), so a negative position resolved afterwards counts from the wrong end - "
                        "x.f.insert(-1, c) puts c behind the old last element")
            r.check(bad is None, f"{c.name}.{mname}#same-builtin-same-position", site(f), f"{len(paths)} path(s)", f"list.{mname} with the caller's arguments on every path",
                    f"{bad}: for that position the element ends up somewhere else than list.{mname} puts it (x.f.insert(-1, c) appends instead of inserting before the last element)")
    return r


def mc_reject(prog: Program) -> RuleResult:
    """'Leave the field containing exactly the elements Python semantics dictate' includes the writes Python rejects: x.f[5] = v on two
    elements raises IndexError and changes nothing - so nothing may have been recorded for v either (a relation and an inverse for an
    element that never became part of the field), and a position the list does not have must not be turned into one it has.  Item
    assignment records first and stores afterwards (recording can append inferred elements), so the position has to be validated against
    the list *before* the hook runs; an extended slice takes exactly as many values as it has positions."""
    from ..dtable import explore as _explore, Sym as _Sym, term as _term

    r = RuleResult("MC-REJECT", "a write the list rejects is rejected before anything is recorded", floor=1)
    mc = prog.cls(MC)
    n = 0
    for c in [c for c in prog.subclasses(mc.qual, strict=True) if _builtin_base(prog, c) == "list"]:
        f = prog.lookup(c.qual, "__setitem__")
        if f is None or f.cls is None or f.cls.qual.startswith("ext:"):
            continue
        n += 1
        helpers = {g.qual for g in c.methods.values() if g.name.startswith("_") and not g.name.startswith("__")}
        ip = f.params[1]
        try:
            paths = _explore(prog, f, [_Sym(p) for p in f.params], self_type=c.qual, max_paths=600, inline=lambda q: q in helpers and not q.endswith("._on_add"), generic_loops=True,
                             preset={("isinstance", ip, "slice"): False})
        except AnalysisError as e:
            raise AnalysisError(f"MC-REJECT: {c.name}.__setitem__: {e}")
        bad = None
        n_rec = 0
        for val, out, calls in paths:
            names = [getattr(x, "fn", "") for x in calls]
            hook_i = next((i for i, x in enumerate(names) if x.endswith("._on_add")), None)
            store_i = next((i for i, x in enumerate(names) if x.startswith("super().") and x.endswith("__setitem__")), None)
            if hook_i is None:
                continue
            n_rec += 1
            if store_i is not None and store_i < hook_i:
                continue  # the list has accepted the position already
            below = above = False
            for k, v in val.items():
                if not (isinstance(k, tuple) and k[0] == "ord" and len(k) == 3):
                    continue
                a, b = k[1], k[2]
                if ip in a and b == "len(self)" and v == -1 or ip in b and a == "len(self)" and v == 1:
                    below = True
                if a == "neg(len(self))" and ip in b and v in (-1, 0) or b == "neg(len(self))" and ip in a and v in (0, 1):
                    above = True
                if ip in a and "len(self)" in a and a.startswith("Add(") and b == "0" and v in (0, 1):
                    above = True
            if not (below and above):
                bad = bad or {" ".join(map(str, k[1:])): v for k, v in val.items() if isinstance(k, tuple) and k[0] == "ord"}
        r.check(n_rec > 0 and bad is None, f"{c.name}.__setitem__#position-validated-before-recording", site(f), f"{n_rec} recording path(s)",
                "every path that records has established -len <= position < len (or has stored first)",
                f"on the path {bad if bad else ''} the element is recorded without the position having been checked against the list: x.f[len] = v raises IndexError after v was related to x "
                f"(and its inverse written), x.f[-len-1] = v is resolved to a negative position once more and overwrites an element the caller never addressed")
        # the slice form: an extended slice is validated for its size before the values are recorded
        par = parents_of(f.node)
        sl = [t for t in walk_local(f.node) if isinstance(t, ast.If) and "isinstance" in src(t.test) and "slice" in src(t.test)]
        if not sl:
            raise AnalysisError(f"MC-REJECT: {c.name}.__setitem__ no longer separates the slice form")
        body = sl[0].body
        rec_i = next((i for i, st in enumerate(body) if any(call_name(x) == "_on_add" for x in calls_in(st))), None)
        if rec_i is None:
            r.ok(f"{c.name}.__setitem__#extended-slice-size-validated", site(f, sl[0]), "", "the slice form records through another path")
            continue
        guard_ok = False
        for st in body[:rec_i]:
            for t in [x for x in ast.walk(st) if isinstance(x, ast.If)]:
                txt = src(t.test)
                if "len(" in txt and any(isinstance(y, ast.Raise) for y in ast.walk(t)) and ("step" in txt or "range(" in txt or "positions" in txt):
                    guard_ok = True
        r.check(guard_ok, f"{c.name}.__setitem__#extended-slice-size-validated", site(f, body[rec_i]), src(body[rec_i])[:80],
                "the number of values is compared with the number of positions of an extended slice before the values are recorded",
                "the values of a slice assignment are recorded before the list has accepted them: x.f[::2] = [d] on three elements raises ValueError (one value for two positions) after d "
                "was related to x and its inverse written")
    if n < 1:
        raise AnalysisError("MC-REJECT: no list-valued monitored container defines __setitem__")
    # a set rejects what cannot be hashed
    for c in [c for c in prog.subclasses(mc.qual, strict=True) if _builtin_base(prog, c) == "set"]:
        for g in sorted(c.methods.values(), key=lambda x: x.qual):
            cs = calls_in(g.node)
            hooks = [x for x in cs if call_name(x) == "_on_add"]
            stores = [x for x in cs if is_super_call(x, "add")]
            if not hooks or not stores:
                continue
            first_hook = min(hooks, key=lambda x: (x.lineno, x.col_offset))
            hashed = [x for x in cs if isinstance(x.func, ast.Name) and x.func.id == "hash" and (x.lineno, x.col_offset) < (first_hook.lineno, first_hook.col_offset)]
            store_first = any((x.lineno, x.col_offset) < (first_hook.lineno, first_hook.col_offset) for x in stores)
            r.check(bool(hashed) or store_first, f"{c.name}.{g.name}#hashable-before-recording", site(g, first_hook), src(first_hook)[:80],
                    "the element is hashed (or stored) before it is recorded",
                    "the element is recorded before the set has accepted it: x.f.add(u) for an element that cannot be hashed raises TypeError after u was related to x and its inverse written")
    return r


def pd_fill_silent(prog: Program) -> RuleResult:
    """The first write of a collection field creates the monitored container, copies the assigned elements into it and only then stores it in
    the instance's backing attribute; recording happens afterwards, when __set__ re-populates the stored container.  While the container is
    being created it must stay *unbound*: an element added to a bound container is recorded at once, its inferences run, and an inference that
    reaches back into this very field (a transitive property, an inverse on an eq=True dataclass) reads a backing attribute that does not
    exist yet - the constructor `Unit('u', part_of=[division])` raises AttributeError."""
    r = RuleResult("PD-FILL-SILENT", "a container under construction is filled before it is bound to its owner", floor=1)
    pd = prog.cls("property_descriptor.PropertyDescriptor")
    makers = [m for m in pd.methods.values() if any(isinstance(c.func, ast.Name) and any(k.arg == "descriptor" for k in c.keywords) for c in calls_in(m.node))]
    if not makers:
        raise AnalysisError("PD-FILL-SILENT: no method of PropertyDescriptor creates a monitored container")
    for f in sorted(makers, key=lambda x: x.qual):
        cfg = CFG(f.node)
        news = {t.id for x in walk_local(f.node) if isinstance(x, ast.Assign) and isinstance(x.value, ast.Call) and any(k.arg == "descriptor" for k in x.value.keywords) for t in x.targets if isinstance(t, ast.Name)}
        binds = [n for n in cfg.nodes if n.stmt is not None and any(call_name(c) == "_bind_owner" and isinstance(c.func, ast.Attribute) and isinstance(c.func.value, ast.Name) and c.func.value.id in news for part in cfg._own_parts(n) for c in calls_in(part))]
        fills = [n for n in cfg.nodes if n.stmt is not None and any(call_name(c) in ("_add_item", "append", "add", "extend", "update", "_update", "insert") and isinstance(c.func, ast.Attribute) and isinstance(c.func.value, ast.Name) and c.func.value.id in news for part in cfg._own_parts(n) for c in calls_in(part))]
        bad = None
        for b in binds:
            reach = cfg.reachable(b.id)
            for fl in fills:
                hit = (fl.id in reach) if reach is not None else (fl.lineno >= b.lineno)
                if hit:
                    bad = bad or (b, fl)
        r.check(bad is None, f"{f.short}#filled-while-unbound", site(f, bad[0].stmt) if bad else site(f), src(bad[0].stmt)[:80] if bad else f"{len(fills)} fill(s), {len(binds)} bind(s)",
                "no element is added to the new container after it was bound",
                f"`{src(bad[0].stmt)[:60] if bad else ''}` binds the new container before `{src(bad[1].stmt)[:50] if bad else ''}` fills it: the elements are recorded - and their inferences run - "
                "before the container is stored in the instance")
    return r


def _idkey(prog):
    # 'every element ... is recorded in the symbol graph': the relation is recorded for the node the id index answers with - an entry a dead
    # instance left behind must not keep a new owner at the same address out of the index (its relations land on throw-away nodes)
    from .c14 import idkey

    return idkey(prog)


def mc_clear(prog: Program) -> RuleResult:
    """Assignment of a collection (and of the field to itself, and += / |=, which end in one) first empties the container and then adds the
    assigned elements: 'exactly the elements Python semantics dictate' needs the emptying to be total.  The builtin clear() is; removing the
    elements one by one through remove() / discard() - guarded by `in` or not - looks each element up by equality and hash, and an element
    whose hash changed while it was a member (a dataclass hashed by a mutable name) is not found: it survives the assignment."""
    r = RuleResult("MC-CLEAR", "emptying a managed container does not depend on looking its elements up", floor=2)
    mc = prog.cls(MC)
    n = 0
    for c in [c for c in prog.subclasses(mc.qual, strict=True) if _builtin_base(prog, c)]:
        f = prog.lookup(c.qual, "_clear")
        if f is None:
            r.fail(f"{c.name}._clear#total", c.loc, "", "the container has no way to be emptied")
            continue
        n += 1
        cfg = CFG(f.node)
        total = [nd for nd in cfg.nodes if nd.stmt is not None and any(call_name(x) == "clear" and isinstance(x.func, ast.Attribute) and (is_super_call(x) or (isinstance(x.func.value, ast.Name) and x.func.value.id == f.params[0]))
                                                                        for part in cfg._own_parts(nd) for x in calls_in(part))]
        ok = any(cfg.postdominates(nd.id, cfg.entry) for nd in total)
        by_lookup = [x for x in calls_in(f.node) if call_name(x) in ("remove", "discard", "_remove_item", "pop")]
        r.check(ok, f"{c.name}._clear#total", site(f, by_lookup[0]) if by_lookup else site(f), src(by_lookup[0])[:60] if by_lookup else "", "every path empties the container with the builtin clear()",
                f"{f.short} empties the container " + (f"through `{src(by_lookup[0])[:40]}`, element by element" if by_lookup else "on some paths only")
                + ": an element that cannot be found any more (its hash changed while it was a member of the set) stays, and the field holds it next to the assigned elements")
    if n < 2:
        raise AnalysisError("MC-CLEAR: monitored list/set classes not found")
    return r


def _sg_purge(prog):
    # an element written to a field is recorded unless its relation "exists": a pair a swept instance left in the relation index answers for
    # whoever reuses its node index
    from .c14 import sg_purge_directions

    return sg_purge_directions(prog)


def pd_element(prog: Program) -> RuleResult:
    """The recording hook is handed the elements one by one, and an element is related as it is. A domain object may well be iterable itself
    (a Team that iterates over its members): probing the element for __iter__ and relating what it yields records relations to the
    element's *contents* instead of the element - or raises when those are of another class."""
    r = RuleResult("PD-ELEMENT", "an element handed to the recording hook is related as it is, never iterated", floor=1)
    f = prog.method(PD, "add_relation_to_the_graph", inherited=False)
    if f is None or len(f.params) < 3:
        raise AnalysisError("PD-ELEMENT: PropertyDescriptor.add_relation_to_the_graph(self, domain_value, range_value, ...) vanished")
    rv = f.params[2]
    bad = None
    for x in walk_local(f.node):
        if isinstance(x, (ast.For, ast.comprehension)) and any(isinstance(y, ast.Name) and y.id == rv for y in ast.walk(x.iter)):
            bad = bad or x.iter
        if isinstance(x, ast.Call) and call_name(x) in ("make_set", "make_list", "set", "list", "tuple", "iter", "sorted", "frozenset") and any(isinstance(y, ast.Name) and y.id == rv for a in x.args for y in ast.walk(a)):
            bad = bad or x
    rel = [c for c in calls_in(f.node) if call_name(c) == "PropertyDescriptorRelation"]
    direct = bool(rel) and all(len(c.args) >= 2 and isinstance(c.args[1], ast.Name) and c.args[1].id == rv for c in rel)
    r.check(bad is None and direct, "PropertyDescriptor.add_relation_to_the_graph#element-as-it-is", site(f, bad) if bad is not None else site(f), src(bad)[:60] if bad is not None else "",
            "the relation's target is the element handed in",
            f"the element is iterated ({src(bad)[:40] if bad is not None else 'the target is not the parameter'}): an element that is iterable itself - a Team whose __iter__ yields its members - is "
            "replaced by its contents: b.member_of.append(team) relates b to the team's members (and raises when they have no inverse field) instead of to the team")
    return r


def _pd_field(prog):
    # an append whose inferred inverse-of-inverse is not recognised as the relation being asserted writes the element a second time
    from .c15 import pd_field

    return pd_field(prog)


def run(prog: Program, tier: str) -> List[RuleResult]:
    alias = pd_alias(prog)
    return [guard(lambda: _pd_field(prog)), guard(lambda: _sg_purge(prog)), guard(lambda: pd_element(prog)), guard(lambda: mc_cover(prog)), guard(lambda: mc_hook(prog)), alias, guard(lambda: pd_aug(prog, not alias.failed)), guard(lambda: pd_seq(prog)), guard(lambda: pd_single(prog)), guard(lambda: mc_once(prog)), guard(lambda: pd_fresh(prog)), guard(lambda: mc_eq(prog)), guard(lambda: mc_args(prog)), guard(lambda: mc_reject(prog)), guard(lambda: pd_fill_silent(prog)), guard(lambda: mc_clear(prog)), guard(lambda: _idkey(prog)), guard(lambda: user_truth(prog, ["property_descriptor.property_descriptor", "property_descriptor.monitored_container", "property_descriptor.property_descriptor_relation"], 2))]
