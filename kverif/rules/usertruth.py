"""USER-TRUTH - user instances are never truth-tested by the bookkeeping code.

A Symbol subclass may define __len__ or __bool__ (an empty container-like object, a switch that is off).
Whether such an instance *exists* is a question for `is None`; `if instance:` drops live, falsy instances
from the census (C13) and never records relations of falsy objects (C15/C16).
"""
from __future__ import annotations

import ast
from typing import List, Set

from ..model import Program, AnalysisError, walk_local
from ..report import RuleResult
from ..astutil import src, site, is_self_attr


def _truth_positions(fn_node):
    for x in walk_local(fn_node):
        if isinstance(x, (ast.If, ast.While, ast.IfExp)):
            yield x.test
        if isinstance(x, ast.Assert):
            yield x.test
        if isinstance(x, ast.comprehension):
            yield from x.ifs
        if isinstance(x, ast.Call) and isinstance(x.func, ast.Name) and x.func.id in ("bool", "any", "all") and x.args:
            yield x.args[0]


def _operands(t):
    """the expressions whose truth value a test takes"""
    todo, out = [t], []
    while todo:
        y = todo.pop()
        if isinstance(y, ast.BoolOp):
            todo += y.values
        elif isinstance(y, ast.UnaryOp) and isinstance(y.op, ast.Not):
            todo.append(y.operand)
        elif isinstance(y, ast.NamedExpr):
            todo.append(y.value)
            out.append(y.target)
        else:
            out.append(y)
    return out


def user_truth(prog: Program, module_suffixes: List[str], floor: int) -> RuleResult:
    r = RuleResult("USER-TRUTH", "user instances are tested for existence with `is None`, never for truth", floor=floor)
    n = 0
    for m in prog.modules.values():
        if not any(m.name.endswith(sfx) for sfx in module_suffixes):
            continue
        for f in sorted([f for f in prog.functions.values() if f.module is m], key=lambda x: x.qual):
            # names that denote user instances in this function
            users: Set[str] = set()
            a = f.node.args
            for p in a.posonlyargs + a.args + a.kwonlyargs:
                if p.annotation is not None:
                    t = src(p.annotation).strip("'\"")
                    if t in ("Symbol", "Optional[Symbol]", "T", "Optional[T]") or t.startswith("Union[Symbol"):
                        users.add(p.arg)
            for _ in range(2):
                for x in walk_local(f.node):
                    if isinstance(x, ast.Assign) and len(x.targets) == 1 and isinstance(x.targets[0], ast.Name):
                        v = x.value
                        if (isinstance(v, ast.Attribute) and v.attr == "instance") or (isinstance(v, ast.Call) and isinstance(v.func, ast.Attribute) and v.func.attr == "instance_reference") \
                                or (isinstance(v, ast.Name) and v.id in users):
                            users.add(x.targets[0].id)
                    if isinstance(x, (ast.For, ast.comprehension)) and isinstance(x.target, ast.Name):
                        pass

            def is_user(e) -> bool:
                if isinstance(e, ast.Name):
                    return e.id in users
                if isinstance(e, ast.Attribute) and e.attr == "instance":
                    return True
                if isinstance(e, ast.Call) and isinstance(e.func, ast.Attribute) and e.func.attr == "instance_reference":
                    return True
                return False

            if not users and not any(isinstance(x, ast.Attribute) and x.attr == "instance" for x in walk_local(f.node)):
                continue
            n += 1
            bad = None
            for t in _truth_positions(f.node):
                for op in _operands(t):
                    if is_user(op):
                        bad = bad or (t, op)
            r.check(bad is None, f"{f.short}#no-truth-test-on-instances", site(f, bad[0]) if bad else site(f), src(bad[0])[:80] if bad else f"instances: {sorted(users) or ['.instance']}",
                    "instances are only compared with None / by identity",
                    f"`{src(bad[1]) if bad else ''}` is taken for its truth value in `{src(bad[0])[:60] if bad else ''}`: a live instance of a Symbol class that defines __len__ or __bool__ "
                    f"(an empty container-like object, a switch that is off) counts as absent")
    if n < floor:
        raise AnalysisError(f"USER-TRUTH: only {n} functions handling user instances found in {module_suffixes}")
    return r
