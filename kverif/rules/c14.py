"""C14 - asserting a relation has the same effect whatever objects lived and died before.

SG-COHERENCE  every parallel structure of the symbol graph that stores a node, a node index or an
              object id on the insertion paths is purged on the node-removal path
IDKEY         id()-keyed tables: removal uses a stored id (not id() of a dead weak referent),
              removes only its own entry, and lookups validate the referent
REL-GATE      existence check, edge insertion and index insertion use one key; inference runs
              on, and only on, "newly added"
"""
from __future__ import annotations

import ast
from typing import Dict, List, Optional, Set, Tuple

from ..model import Program, AnalysisError, FuncInfo, ClassInfo, walk_local, dotted
from ..report import RuleResult, guard
from ..astutil import src, site, calls_in, call_name, is_self_attr, is_super_call, names_in
from ..callgraph import self_closure
from ..dtable import explore, Sym
from ..cfg import CFG

EXPLANATION = (
    "The rule is the inductive step of history independence: if every operation keeps the invariant 'the indexes "
    "describe exactly the live graph', no prefix history can be observed. Effect analysis of SymbolGraph: for each "
    "container field the insertion sites (with the expression class of the stored key: node object, node index, id()) "
    "and the deletion sites are collected over the call closures of add_node / add_relation / remove_node. Every "
    "structure written on an insertion path must be purged on the removal path with a key of the same class; id()-keyed "
    "entries must be removed through an id stored at insertion (the referent is dead when the sweep runs, id() of a "
    "dereferenced weak reference is id(None)), only when the entry still belongs to the removed wrapper, and lookups by "
    "id() must validate the referent because ids are recycled. REL-GATE extracts the decision table of add_relation and "
    "the control dependence of the inference calls on its result."
)
ASSUMPTIONS = [
    "rustworkx recycles node indices after remove_node and drops the edges of a removed node",
    "CPython recycles id() values of dead objects",
    "arbitrary histories are covered by induction over single operations, not enumerated",
]

SG = "symbol_graph.SymbolGraph"
from ..effects import effects, MUT_ADD, MUT_DEL, _field_of


def _weak_properties(prog: Program) -> Set[Tuple[str, str]]:
    """(class qual, property name) of properties that dereference a weak reference field"""
    out = set()
    for c in prog.classes.values():
        weak_fields = {n for n, fi in c.attrs.items() if "weakref" in fi.ann_text or "ReferenceType" in fi.ann_text}
        for n, f in c.methods.items():
            if f.is_property:
                for call in calls_in(f.node):
                    if isinstance(call.func, ast.Attribute) and is_self_attr(call.func) and call.func.attr in weak_fields and not call.args:
                        out.add((c.qual, n))
    return out


def sg_coherence(prog: Program) -> RuleResult:
    r = RuleResult("SG-COHERENCE", "structures written on insertion paths are purged on the node-removal path", floor=4)
    sg = prog.cls(SG)
    add_node = prog.method(sg.qual, "add_node", inherited=False)
    add_rel = prog.method(sg.qual, "add_relation", inherited=False)
    rm = prog.method(sg.qual, "remove_node", inherited=False)
    ins_funcs = self_closure(prog, sg.qual, add_node, False)[0] | self_closure(prog, sg.qual, add_rel, False)[0]
    rm_funcs = self_closure(prog, sg.qual, rm, False)[0]
    container_fields = [n for n, fi in prog.fields(sg.qual).items() if fi.annotation is not None and any(k in fi.ann_text for k in ("Dict", "PyDiGraph", "List", "set", "Set"))]
    ins = effects(prog, sg, ins_funcs)
    dels = effects(prog, sg, rm_funcs)
    written = {}
    for fl, kind, f, n, key in ins:
        if kind == "add" and fl in container_fields:
            written.setdefault(fl, []).append((f, n, key))
    r.note(f"structures written on insertion: {sorted(written)}")
    for fl, sites in sorted(written.items()):
        purges = [(f, n, key) for (g, kind, f, n, key) in dels if g == fl and kind == "del"]
        f0, n0, key0 = sites[0]
        r.check(
            bool(purges), f"SymbolGraph.remove_node#{fl}", site(rm), f"{fl} <- {key0}",
            f"purged by {[src(p[1])[:60] for p in purges]}",
            f"{fl} is written on insertion ({f0.short}: {src(n0)[:80]}) but never purged when a node is removed: entries of dead "
            f"instances survive and, because node indices / ids are recycled, are taken for facts about new instances",
            insertion_sites=[f"{f.short}:{src(n)[:80]}" for f, n, _ in sites],
        )
    # who may take a node out of the instance graph: only the removal path that purges all of the above.  A second place that removes
    # a node (a shortcut for a recycled id, say) leaves whatever it forgets to purge behind.
    graph_fields = [n for n, fi in prog.fields(sg.qual).items() if fi.annotation is not None and "PyDiGraph" in fi.ann_text]
    for name, g in sorted(sg.methods.items()):
        for c in calls_in(g.node):
            if isinstance(c.func, ast.Attribute) and c.func.attr in ("remove_node", "remove_nodes_from") and is_self_attr(c.func.value) and c.func.value.attr in graph_fields:
                inside = g in rm_funcs
                purged_here = {fl for (fl, kind, f_, n_, k_) in effects(prog, sg, {g}) if kind == "del"}
                missing = sorted(set(written) - purged_here - set(graph_fields)) if not inside else []
                r.check(inside or not missing, f"SymbolGraph.{name}#removes-through-the-purging-path", site(g, c), src(c),
                        "nodes leave the graph on the purging path only",
                        f"{name} removes a node from the instance graph itself and does not purge {missing}: what the node left there (relation pairs keyed by its recycled index) "
                        f"makes a later relation between new instances look already known")
    return r


def _field(e: ast.expr) -> Optional[str]:
    return e.attr if isinstance(e, ast.Attribute) and isinstance(e.value, ast.Name) and e.value.id == "self" else None


def idkey(prog: Program) -> RuleResult:
    r = RuleResult("IDKEY", "id()-keyed entries are removed by a stored id, only if still owned, and lookups validate the referent", floor=3)
    sg = prog.cls(SG)
    weak = _weak_properties(prog)
    weak_names = {n for _, n in weak}
    allf = set(sg.methods.values())
    effs = effects(prog, sg, allf)
    # attributes that hold an id taken at construction (self.instance_id = id(instance)): a key read from one is an id() key too
    id_attrs = set()
    for m in prog.modules.values():
        if ".entity_query_language" not in m.name:
            continue
        for n in ast.walk(m.tree):
            if isinstance(n, ast.Assign) and isinstance(n.value, ast.Call) and isinstance(n.value.func, ast.Name) and n.value.func.id == "id":
                for t in n.targets:
                    if isinstance(t, ast.Attribute):
                        id_attrs.add(t.attr)

    def is_id_key(key: str) -> bool:
        first = key.split(",")[0].strip()
        return first.startswith("id(") or first.split(".")[-1] in id_attrs

    idkeyed = sorted({fl for fl, kind, f, n, key in effs if kind == "add" and is_id_key(key)}
                     | {_field(c.func.value) for f in allf for c in calls_in(f.node) if call_name(c) == "get" and isinstance(c.func, ast.Attribute) and c.args and src(c.args[0]).startswith("id(") and _field(c.func.value)})
    if not idkeyed:
        raise AnalysisError("IDKEY: no id()-keyed structure found in SymbolGraph (the instance index is the confirmed instance)")
    rm = prog.method(sg.qual, "remove_node", inherited=False)
    rm_funcs = self_closure(prog, sg.qual, rm, False)[0]
    for fl in idkeyed:
        for g, kind, f, n, key in effs:
            if g != fl or kind != "del" or f not in rm_funcs:
                continue
            keyexpr = n.args[0] if isinstance(n, ast.Call) and n.args else (n.targets[0].slice if isinstance(n, ast.Delete) else None)
            bad = None
            if keyexpr is not None:
                for c in [x for x in ast.walk(keyexpr) if isinstance(x, ast.Call) and isinstance(x.func, ast.Name) and x.func.id == "id"]:
                    for a in ast.walk(c.args[0]):
                        if isinstance(a, ast.Attribute) and a.attr in weak_names:
                            bad = src(c)
            r.check(
                bad is None, f"SymbolGraph.{f.name}#{fl}-removal-key", site(f, n), src(n),
                "entry removed through an id stored at insertion",
                f"the removal key {bad} dereferences a weak reference: on the sweep path the referent is dead, the key is id(None) and the entry stays",
            )
            # own-entry guard: the deletion must be conditional on the entry still being this wrapper
            cfg = CFG(f.node)
            nid = cfg.node_of(n)
            guarded = False
            if nid is not None:
                for t in cfg.nodes:
                    if t.kind == "test" and isinstance(t.stmt, ast.If) and t.true_succ is not None and cfg.dominates(t.true_succ, nid):
                        tt = t.stmt.test
                        if isinstance(tt, ast.Compare) and any(isinstance(o, ast.Is) for o in tt.ops) and fl in src(tt):
                            guarded = True
            if bad is not None:
                continue  # the delete never hits a real key today; ownership matters once the key is a stored id
            r.check(
                guarded, f"SymbolGraph.{f.name}#{fl}-own-entry", site(f, n), src(n),
                "deletes the entry only while it still maps to the removed wrapper",
                "ids are recycled: a newer instance may own this key by the time the dead wrapper is swept; an unconditional delete removes the live instance's entry",
            )
        # registration overwrites: dead wrappers are swept lazily, so the slot of a recycled id may still hold one
        for g, kind, f, n, key in effs:
            if g != fl or kind != "add" or not is_id_key(key):
                continue
            overwrites = isinstance(n, ast.Assign) or (isinstance(n, ast.Call) and n.func.attr in ("__setitem__", "update"))
            r.check(
                overwrites, f"SymbolGraph.{f.name}#{fl}-insert-overwrites", site(f, n), src(n),
                "a newly registered wrapper takes the slot of its instance's id unconditionally",
                f"the wrapper is registered with {n.func.attr if isinstance(n, ast.Call) else '?'}(): when the id was last used by an instance that died and has not been swept yet, the "
                f"dead wrapper keeps the slot, every lookup for the new instance fails its referent check and creates yet another node - its relations are spread over duplicates",
            )
        # lookups validate the referent
        for f in sorted(allf, key=lambda x: x.qual):
            for c in calls_in(f.node):
                if call_name(c) == "get" and isinstance(c.func, ast.Attribute) and is_self_attr(c.func.value, fl) and c.args and src(c.args[0]).startswith("id("):
                    looked = c.args[0].args[0]
                    validated = False
                    for cmp_ in [x for x in walk_local(f.node) if isinstance(x, ast.Compare)]:
                        if any(isinstance(o, (ast.Is, ast.IsNot)) for o in cmp_.ops):
                            sides = [cmp_.left] + cmp_.comparators
                            if any(src(s) == src(looked) for s in sides) and any(isinstance(s, ast.Attribute) and s.attr in weak_names for s in sides):
                                validated = True
                    r.check(
                        validated, f"SymbolGraph.{f.name}#{fl}-lookup", site(f, c), src(c),
                        "the wrapper found under id(x) is used only if it still refers to x",
                        "the wrapper found under id(x) is trusted although ids are recycled: a relation can be attached to the wrapper of a dead instance",
                    )
    return r


def rel_gate(prog: Program) -> RuleResult:
    r = RuleResult("REL-GATE", "existence check and insertion share one key; inference runs exactly on 'newly added'", floor=5)
    sg = prog.cls(SG)
    add_rel = prog.method(sg.qual, "add_relation", inherited=False)
    exists = prog.method(sg.qual, "relation_exists", inherited=False)
    rparam = add_rel.params[1]
    paths = explore(prog, add_rel, [Sym("self"), Sym("relation")], self_type=None, inline=lambda q: False)
    dup = [(v, o, c) for v, o, c in paths if any(a[0] == "truth" and "relation_exists" in a[1] and val for a, val in v.items())]
    new = [(v, o, c) for v, o, c in paths if any(a[0] == "truth" and "relation_exists" in a[1] and not val for a, val in v.items())]
    ok_dup = bool(dup) and all(o == ("return", False) and not any("add_edge" in c.fn for c in cs) for _, o, cs in dup)
    r.check(ok_dup, "SymbolGraph.add_relation#known->False", site(add_rel), "", "known relation: nothing added, returns False",
            "a relation that already exists is added again or reported as new")
    ok_new = bool(new) and all(o == ("return", True) and any("add_edge" in c.fn for c in cs) and any(c.fn.endswith(".add") for c in cs) for _, o, cs in new)
    r.check(ok_new, "SymbolGraph.add_relation#new->True", site(add_rel), "", "new relation: edge and index entry added, returns True",
            "a new relation is not both stored as an edge and recorded in the relation index with result True")
    # one key for check / edge / index
    tuples = []
    for f in (add_rel, exists):
        for n in walk_local(f.node):
            if isinstance(n, ast.Tuple) and len(n.elts) == 2 and all(isinstance(e, ast.Attribute) and e.attr == "index" for e in n.elts):
                tuples.append((f, n))
    edge = [c for c in calls_in(add_rel.node) if call_name(c) == "add_edge"]
    norm = {src(n) for _, n in tuples}
    edge_key = f"({src(edge[0].args[0])}, {src(edge[0].args[1])})" if edge and len(edge[0].args) >= 2 else None
    r.check(len(norm) == 1 and len(tuples) >= 2 and edge_key in norm, "SymbolGraph#relation-key", site(exists), str(sorted(norm)),
            "existence check, edge and index entry use (source.index, target.index)",
            f"existence check / index entry / edge do not use one and the same (source index, target index) pair: {sorted(norm)} vs edge {edge_key}")
    # index is keyed per field in both functions
    fields_keys = set()
    for f in (add_rel, exists):
        for n in walk_local(f.node):
            if isinstance(n, ast.Subscript) and is_self_attr(n.value, "_relation_index"):
                fields_keys.add(src(n.slice))
            if isinstance(n, ast.Call) and call_name(n) == "get" and isinstance(n.func, ast.Attribute) and is_self_attr(n.func.value, "_relation_index"):
                fields_keys.add(src(n.args[0]))
    r.check(len(fields_keys) == 1, "SymbolGraph#relation-index-field-key", site(exists), str(sorted(fields_keys)), "index partitioned by the relation's field in both functions",
            f"check and insertion partition the relation index differently: {sorted(fields_keys)}")
    # relation.add_to_graph returns the graph's verdict; the descriptor relation infers only on True
    pcr = prog.cls("symbol_graph.PredicateClassRelation")
    base_add = prog.method(pcr.qual, "add_to_graph", inherited=False)
    rets = [n for n in walk_local(base_add.node) if isinstance(n, ast.Return)]
    r.check(len(rets) == 1 and isinstance(rets[0].value, ast.Call) and call_name(rets[0].value) == "add_relation" and src(rets[0].value.args[0]) == base_add.params[0],
            "PredicateClassRelation.add_to_graph#verdict", site(base_add), src(rets[0].value) if rets else "", "returns SymbolGraph.add_relation(self)",
            "the relation does not hand itself to SymbolGraph.add_relation and return its verdict")
    pdr = prog.cls("property_descriptor_relation.PropertyDescriptorRelation")
    f = prog.method(pdr.qual, "add_to_graph", inherited=False)
    cfg = CFG(f.node)
    gate = None
    for t in cfg.nodes:
        if t.kind == "test" and isinstance(t.stmt, ast.If) and is_super_call(t.stmt.test, "add_to_graph"):
            gate = t
    infer_calls = [c for c in calls_in(f.node) if isinstance(c.func, ast.Attribute) and is_self_attr(c.func) and c.func.attr.startswith("infer_")]
    ok = gate is not None and gate.true_succ is not None and len(infer_calls) >= 3 and all(
        cfg.dominates(gate.true_succ, cfg.node_of(c)) for c in infer_calls
    )
    r.check(ok, "PropertyDescriptorRelation.add_to_graph#gate", site(f), "", "inference runs exactly when the graph reports 'newly added'",
            "inference is not control-dependent on the 'newly added' verdict of the existence check")
    return r


# which incident edges a rustworkx PyDiGraph accessor returns
EDGE_DIRECTIONS = {"in_edges": {"in"}, "out_edges": {"out"}, "incident_edges": {"out"}, "incident_edge_index_map": {"out"}, "edges": {"in", "out"}, "edge_list": {"in", "out"},
                   "weighted_edge_list": {"in", "out"}, "edge_index_map": {"in", "out"}}


def sg_purge_directions(prog: Program) -> RuleResult:
    """Node removal must forget the relations *into* and *out of* the node (both kinds of pairs contain its recycled index)."""
    r = RuleResult("SG-PURGE-BOTH", "removing a node purges the relation pairs of incoming and outgoing edges", floor=1)
    sg = prog.cls(SG)
    rm = prog.method(sg.qual, "remove_node", inherited=False)
    funcs = self_closure(prog, sg.qual, rm, False)[0]
    purge_loops = []
    for f in funcs:
        for lp in [n for n in walk_local(f.node) if isinstance(n, ast.For)]:
            if any(fl == "_relation_index" and kind == "del" for fl, kind, _, node, _ in effects(prog, sg, {f}) if any(node is x for x in ast.walk(lp))):
                purge_loops.append((f, lp))
    if not purge_loops:
        r.fail("SymbolGraph.remove_node#relation-purge-loop", site(rm), "", "no loop purges the relation index on node removal")
        return r
    for f, lp in purge_loops:
        it = lp.iter
        exprs = [it]
        if isinstance(it, ast.Name) or (isinstance(it, ast.Call) and isinstance(it.func, ast.Attribute) and isinstance(it.func.value, ast.Name)):
            nm = it.id if isinstance(it, ast.Name) else it.func.value.id
            exprs += [st.value for st in walk_local(f.node) if isinstance(st, ast.Assign) and src(st.targets[0]) == nm]
        dirs = set()
        scans_all = False
        for e in exprs:
            for c in [x for x in ast.walk(e) if isinstance(x, ast.Call) and isinstance(x.func, ast.Attribute)]:
                d = EDGE_DIRECTIONS.get(c.func.attr)
                if d is not None:
                    d = set(d)
                    if c.func.attr.startswith("incident") and any(k.arg == "all_edges" and getattr(k.value, "value", False) is True for k in c.keywords):
                        d = {"in", "out"}
                    dirs |= d
                if c.func.attr in ("values", "items") and "_relation_index" in src(c.func.value):
                    scans_all = True
        r.check(scans_all or dirs == {"in", "out"}, f"SymbolGraph.{f.name}#relation-purge-directions", site(f, lp), src(it)[:120],
                "relations into and out of the removed node are forgotten",
                f"the purge iterates {sorted(dirs) or 'no'} edges of the removed node only: pairs of relations {'into' if 'in' not in dirs else 'out of'} it stay in the relation index, "
                f"and when the node index is reused a new relation of a surviving instance looks already known")
    return r


def rel_live(prog: Program) -> RuleResult:
    """Dead instances are swept lazily (when a query is evaluated).  Until then their nodes and edges are still in the graph, so
    whatever hands edges to the inference procedure has to leave out the ones with a dead endpoint - or sweep first."""
    from ..astutil import calls_in, call_name

    r = RuleResult("REL-LIVE", "relations handed out by the graph have two live endpoints", floor=2)
    sg = prog.cls(SG)
    n = 0
    for name, f in sorted(sg.methods.items()):
        reads = [c for c in calls_in(f.node) if call_name(c) in ("in_edges", "out_edges") + _PER_NEIGHBOUR and "_instance_graph" in src(c.func)]
        if not reads or name in ("remove_node",):
            continue
        n += 1
        sweeps = any(call_name(c) == "remove_dead_instances" for c in calls_in(f.node))
        filtered = True
        for c in reads:
            # the comprehension / loop that iterates the edges must test liveness of both endpoints (directly or through a helper of the class)
            ok = False
            for x in ast.walk(f.node):
                conds = []
                if isinstance(x, (ast.GeneratorExp, ast.ListComp, ast.SetComp)) and any(c in list(ast.walk(g.iter)) for g in x.generators):
                    conds = [i for g in x.generators for i in g.ifs]
                if isinstance(x, ast.For) and c in list(ast.walk(x.iter)):
                    conds = [t.test for t in ast.walk(x) if isinstance(t, ast.If)]
                for cond in conds:
                    if _tests_both_alive(prog, sg, cond):
                        ok = True
            filtered = filtered and ok
        r.check(sweeps or filtered, f"SymbolGraph.{name}#live-endpoints", site(f, reads[0]), src(reads[0]), "edges with a dead endpoint are left out (or the dead are swept first)",
                "edges of instances that were garbage collected but not swept yet are handed out: the inference procedure pairs a new relation with them and dereferences the dead "
                "instance (d.part_of = [a]; del d; a.part_of = [y] raises AttributeError on None), so the new relation's consequences are lost")
    if n < 2:
        raise AnalysisError(f"REL-LIVE: only {n} edge readers found in SymbolGraph")
    return r


# rustworkx: which readers of a PyDiGraph answer per edge (parallel edges between two nodes each appear) and which per neighbouring node
# (parallel edges collapse into one entry - `adj` keeps one payload per neighbour, `successors` lists nodes)
_PER_EDGE = ("in_edges", "out_edges", "edges", "edge_list", "weighted_edge_list", "edge_index_map", "incident_edges", "incident_edge_index_map", "edge_indices")
_PER_NEIGHBOUR = ("adj", "adj_direction", "successors", "predecessors", "neighbors", "successor_indices", "predecessor_indices", "get_edge_data", "has_edge",
                  "find_successors_by_edge", "find_predecessors_by_edge", "find_adjacent_node_by_edge")


def rel_edges(prog: Program) -> RuleResult:
    """Two instances can be related by several relations at once (works_for and its super-property member_of; a transitive property and a plain
    one): every relation is an edge of its own in the instance graph. That needs a multigraph - in a simple graph add_edge(a, b, data)
    overwrites the payload of the a->b edge there is - and readers that answer per edge: a per-neighbour reader hands out one relation
    per pair of instances and hides the others from the inference procedure and from the sweep."""
    from ..astutil import calls_in, call_name, kwarg

    r = RuleResult("REL-EDGES", "every relation between two instances is an edge of its own, and the relation getters see all of them", floor=3)
    sg = prog.cls(SG)
    # (a) the graph is created as a multigraph
    creations = []
    fi = sg.attrs.get("_instance_graph")
    if fi is not None and fi.field_call is not None:
        fac = fi.field_kw("default_factory")
        if fac is not None:
            creations.append((fac.body if isinstance(fac, ast.Lambda) else fac, sg.loc))
    for f in sg.methods.values():
        for x in walk_local(f.node):
            if isinstance(x, ast.Assign) and any(is_self_attr(t, "_instance_graph") for t in x.targets):
                creations.append((x.value, site(f, x)))
    if not creations:
        raise AnalysisError("REL-EDGES: no creation of SymbolGraph._instance_graph found")
    for i, (e, where) in enumerate(creations):
        simple = None
        for c in [e] + list(ast.walk(e)):
            if isinstance(c, ast.Call) and call_name(c) in ("PyDiGraph", "PyGraph", "PyDAG"):
                mg = kwarg(c, "multigraph")
                if mg is not None and not (isinstance(mg, ast.Constant) and mg.value is True):
                    simple = c
        r.check(simple is None, f"SymbolGraph._instance_graph#multigraph:{i}", where, src(e)[:80], "created as a multigraph (rustworkx default)",
                f"{src(simple)[:60] if simple is not None else ''} creates a simple graph: the second relation between the same two instances (works_for and the inferred member_of) "
                "overwrites the payload of the first edge - that relation is gone from the graph while its pair stays in the relation index, where the sweep never finds it again")
    # (b) the relation getters read per edge
    n = 0
    for name, f in sorted(sg.methods.items()):
        if "relation" not in name:
            continue
        reads = [c for c in calls_in(f.node) if isinstance(c.func, ast.Attribute) and is_self_attr(c.func.value, "_instance_graph")]
        if not reads:
            continue
        n += 1
        collapsing = [c for c in reads if call_name(c) in _PER_NEIGHBOUR]
        unknown = [c for c in reads if call_name(c) not in _PER_NEIGHBOUR + _PER_EDGE + ("add_edge", "remove_edge", "remove_edge_from_index", "add_node", "remove_node", "num_edges", "num_nodes", "nodes", "node_indices", "get_node_data")]
        if unknown:
            raise AnalysisError(f"REL-EDGES: {f.short} reads the graph through {call_name(unknown[0])}(), which is not in the table of per-edge / per-neighbour readers")
        r.check(not collapsing, f"SymbolGraph.{name}#per-edge", site(f, (collapsing or reads)[0]), src((collapsing or reads)[0])[:80], "reads the edges one by one",
                f"{f.short} reads the relations through {call_name(collapsing[0]) if collapsing else ''}(), which answers per neighbouring node: of several relations between the same two "
                "instances only one is handed out - a transitive fact b->c recorded next to another relation b->c is hidden, and a->c is never derived")
    if n < 2:
        raise AnalysisError(f"REL-EDGES: only {n} relation getters reading the instance graph found in SymbolGraph")
    return r


_REMOVERS = {
    "list": ("remove", "pop", "clear", "__delitem__", "__imul__"),
    "set": ("remove", "discard", "pop", "clear", "difference_update", "intersection_update", "symmetric_difference_update", "__isub__", "__iand__", "__ixor__"),
}


def id_state(prog: Program) -> RuleResult:
    """An id() is only a name for an object while the object lives: a container that remembers the ids of its elements has to forget an id on
    every way an element can leave it - the removal methods it inherits from list / set included - or the id of an element that was removed
    and collected answers for the next object allocated at that address (an inferred relation to the new object is "already there" and
    the field is never updated)."""
    from ..astutil import calls_in, call_name

    r = RuleResult("ID-STATE", "element ids a managed container remembers are forgotten on every way an element can leave", floor=1)
    mcq = "monitored_container.MonitoredContainer"
    mc = prog.cls(mcq)
    n = 0
    for c in [mc] + list(prog.subclasses(mc.qual, strict=True)):
        kind = next((q.split(".")[-1] for q in c.mro if q in ("ext:builtins.list", "ext:builtins.set")), None)
        id_fields = set()
        for q in c.mro:
            k = prog.classes.get(q)
            if k is None:
                continue
            for m in k.methods.values():
                for x in walk_local(m.node):
                    holds_id = lambda e: any(isinstance(y, ast.Call) and isinstance(y.func, ast.Name) and y.func.id == "id" for y in ast.walk(e))
                    if isinstance(x, ast.Call) and isinstance(x.func, ast.Attribute) and x.func.attr in ("add", "append", "setdefault", "update") and is_self_attr(x.func.value) and any(holds_id(a) for a in x.args):
                        id_fields.add(x.func.value.attr)
                    if isinstance(x, ast.Assign) and any(isinstance(t, ast.Subscript) and is_self_attr(t.value) and holds_id(t.slice) for t in x.targets):
                        id_fields |= {t.value.attr for t in x.targets if isinstance(t, ast.Subscript) and is_self_attr(t.value)}
        if not id_fields or kind is None:
            continue
        n += 1
        for fld in sorted(id_fields):
            missing = []
            for rm in _REMOVERS[kind]:
                m = prog.lookup(c.qual, rm)
                if m is None or not any(isinstance(y, ast.Attribute) and is_self_attr(y) and y.attr == fld for y in ast.walk(m.node)):
                    # reached through a self call?
                    from ..callgraph import self_closure
                    touched = m is not None and any(any(isinstance(y, ast.Attribute) and is_self_attr(y) and y.attr == fld for y in ast.walk(g.node)) for g in self_closure(prog, c.qual, m, False)[0])
                    if not touched:
                        missing.append(rm)
            r.check(not missing, f"{c.name}.{fld}#forgotten-on-removal", c.loc, f"{kind} removal methods: {', '.join(_REMOVERS[kind])}", "every removal method maintains the remembered ids",
                    f"{c.name} remembers id(element) in {fld}, but {kind}.{'/'.join(missing)} take an element out without touching it: after the element is collected its id answers for the "
                    "next object at that address - an inferred relation to that object finds the value 'already in the field' and the field is never updated")
    if n == 0:
        r.ok("monitored_container#no-remembered-ids", mc.loc, "", "no managed container remembers ids of its elements")
    return r


def _tests_both_alive(prog: Program, sg, cond: ast.expr, depth: int = 0) -> bool:
    def alive(e: ast.expr, pol: bool) -> Set[str]:
        """endpoints known to be alive when `e` evaluates to `pol`"""
        if isinstance(e, ast.UnaryOp) and isinstance(e.op, ast.Not):
            return alive(e.operand, not pol)
        if isinstance(e, ast.BoolOp):
            if isinstance(e.op, ast.And) == pol:
                return set().union(*[alive(v, pol) for v in e.values])
            parts = [alive(v, pol) for v in e.values]
            return set.intersection(*parts) if parts else set()
        if isinstance(e, ast.Compare) and len(e.ops) == 1 and isinstance(e.comparators[0], ast.Constant) and e.comparators[0].value is None:
            l = e.left
            if isinstance(l, ast.Attribute) and l.attr == "instance" and isinstance(l.value, ast.Attribute) and l.value.attr in ("source", "target"):
                if isinstance(e.ops[0], ast.IsNot) == pol and isinstance(e.ops[0], (ast.Is, ast.IsNot)):
                    return {l.value.attr}
        return set()

    if alive(cond, True) >= {"source", "target"}:
        return True
    if depth < 2:
        for c in [x for x in ast.walk(cond) if isinstance(x, ast.Call)]:
            nm = c.func.attr if isinstance(c.func, ast.Attribute) else (c.func.id if isinstance(c.func, ast.Name) else None)
            h = sg.methods.get(nm) if nm else None
            if h is not None:
                for ret in [x for x in ast.walk(h.node) if isinstance(x, ast.Return) and x.value is not None]:
                    if _tests_both_alive(prog, sg, ret.value, depth + 1):
                        return True
    return False


def _sg_sweep(prog):
    # the sweep that removes what dead instances left behind is the one C13 relies on for its census
    from .c13 import sg_sweep

    return sg_sweep(prog)


def _opt_truth(prog):
    # `if not wrapped_instance:` decides whether an instance is known to the graph: a wrapper must not have a truth value of its own
    from .opttruth import opt_truth

    return opt_truth(prog, ["symbol_graph.WrappedInstance"], 2)


def owner_bound(prog: Program) -> RuleResult:
    """A relation asserted through a managed collection is recorded for the *owner the collection is bound to* (a weak reference kept by the
    collection).  The binding is refreshed on every access through the descriptor, so that a collection object that reaches a second instance
    - copy.copy(symbol) shares the field values, a helper hands the list on - records for the instance it is read from, not for an instance
    of the past (possibly collected: then nothing is recorded at all).  So: whenever the descriptor meets a monitored collection, it binds
    it to the instance at hand unless it has established, by identity, that this instance is the owner already."""
    from ..dtable import term

    r = RuleResult("OWNER-BOUND", "a managed collection met through an instance is bound to that instance", floor=1)
    pd = prog.cls("property_descriptor.PropertyDescriptor")
    binders = [m for m in pd.methods.values() if any(call_name(c) == "_bind_owner" for c in calls_in(m.node))]
    if not binders:
        raise AnalysisError("OWNER-BOUND: no method of PropertyDescriptor binds a container to its owner")
    for f in sorted(binders, key=lambda x: x.qual):
        owner_params = [p for p in f.params if p in ("owner", "obj", "instance")]
        if not owner_params:
            raise AnalysisError(f"OWNER-BOUND: {f.short} has no owner parameter")
        own = owner_params[0]
        paths = explore(prog, f, [Sym(p) for p in f.params], max_paths=300, inline=lambda q: False, generic_loops=True)
        bad = None
        n_cont = 0
        for v, o, calls in paths:
            is_cont = any(k[0] == "isinstance" and "MonitoredContainer" in str(k[2]) and val is True for k, val in v.items() if isinstance(k, tuple))
            guarded = [k for k in v if isinstance(k, tuple) and k[0] == "isinstance"]
            if guarded and not is_cont:
                continue
            if any(isinstance(k, tuple) and len(k) == 3 and k[0] == "is" and set(k[1:]) == {"None", own} and val is True for k, val in v.items()):
                continue  # no instance at hand
            n_cont += 1
            binds = any("_bind_owner(" in term(c) and own in term(c) for c in calls)
            same = any(isinstance(k, tuple) and len(k) == 3 and k[0] == "is" and own in [x if isinstance(x, str) else term(x) for x in k[1:]] and val is True for k, val in v.items())
            if not binds and not same:
                bad = bad or v
        r.check(n_cont > 0 and bad is None, f"{f.short}#bound-to-the-instance-at-hand", site(f), f"{n_cont} path(s) with a monitored collection",
                "each binds the collection to the instance, or has established that the instance is its owner",
                f"on the path {dict(bad) if bad else ''} a monitored collection passes without being bound to `{own}` and without `{own}` having been identified as its owner: a collection that was "
                f"bound once keeps recording for that first instance (copy.copy(symbol).members.add(p): nothing recorded once the original is collected, or recorded for the original)")
    return r


def call_name_(c):
    from ..astutil import call_name
    return call_name(c)


def id_memo(prog: Program) -> RuleResult:
    """'Whatever was created, related and garbage collected before ... leaves nothing behind that can make a new relation look already known.'  A
    descriptor is one object per class attribute and lives as long as the class: what it remembers about instances by their id() - pairs that
    'were recorded already' - outlives them, and the next instance allocated at a freed address inherits the verdict: it is put into the
    field, and no relation reaches the graph.  (Containers bound to one instance are judged by ID-STATE; the symbol graph's own index by IDKEY.)"""
    r = RuleResult("ID-MEMO", "a descriptor remembers nothing about instances by their id()", floor=1)
    pd = prog.cls("property_descriptor.PropertyDescriptor")
    fam = [pd] + list(prog.subclasses(pd.qual, strict=True))
    n = 0
    seen = set()
    for c in fam:
        for f in sorted(c.methods.values(), key=lambda x: x.qual):
            if f.qual in seen or not f.params:
                continue
            seen.add(f.qual)
            n += 1
            selfn = f.params[0]
            # locals that carry an id
            ids = set()
            for x in walk_local(f.node):
                if isinstance(x, ast.Assign) and len(x.targets) == 1 and isinstance(x.targets[0], ast.Name) and any(isinstance(y, ast.Call) and isinstance(y.func, ast.Name) and y.func.id == "id" for y in ast.walk(x.value)):
                    ids.add(x.targets[0].id)

            def by_id(e) -> bool:
                return any((isinstance(y, ast.Call) and isinstance(y.func, ast.Name) and y.func.id == "id") or (isinstance(y, ast.Name) and y.id in ids) for y in ast.walk(e))

            bad = None
            for x in walk_local(f.node):
                key = holder = None
                if isinstance(x, ast.Call) and isinstance(x.func, ast.Attribute) and x.func.attr in ("add", "append", "setdefault", "update") and x.args:
                    key, holder = x.args[0], x.func.value
                elif isinstance(x, ast.Subscript) and isinstance(x.ctx, ast.Store):
                    key, holder = x.slice, x.value
                if key is None:
                    continue
                root = holder
                while isinstance(root, ast.Attribute):
                    root = root.value
                on_descriptor = isinstance(holder, ast.Attribute) and isinstance(root, ast.Name) and root.id in (selfn, "cls")
                if on_descriptor and by_id(key):
                    bad = bad or x
            r.check(bad is None, f"{f.short}#no-id-keyed-memory", site(f, bad) if bad is not None else site(f), src(bad)[:80] if bad is not None else "", "nothing keyed by id() is stored on the descriptor",
                    f"`{src(bad)[:70] if bad is not None else ''}` stores ids of instances on the descriptor, which outlives them: an owner / element pair that was assigned once makes a later pair of new "
                    "instances at the same addresses look recorded - the element is in the field, the relation and all its inferences are missing")
    if n < 3:
        raise AnalysisError("ID-MEMO: fewer than three descriptor methods found")
    # the same for module-level memos next to the descriptors and relations: a graph node *index* is reused as soon as a swept node's slot is
    # free again, like an address - what was remembered under it (the role taker of a role that is long gone) is served to the next instance
    for m in sorted(prog.modules.values(), key=lambda x: x.name):
        if ".property_descriptor." not in m.name and not m.name.endswith(".property_descriptor"):
            continue
        shared = {t.id for st in m.tree.body if isinstance(st, (ast.Assign, ast.AnnAssign)) for t in ([st.target] if isinstance(st, ast.AnnAssign) else st.targets) if isinstance(t, ast.Name)}
        # ... and class-level collections (assigned in a class body without being a dataclass field of the instance): one object for every
        # relation / descriptor of the process, reached as self.<name> / cls.<name> / <Class>.<name>
        shared_cls = set()
        for st in m.tree.body:
            if isinstance(st, ast.ClassDef):
                for b in st.body:
                    if isinstance(b, ast.Assign) and isinstance(b.value, (ast.Call, ast.Dict, ast.Set, ast.List, ast.DictComp, ast.SetComp, ast.ListComp)) \
                            and not (isinstance(b.value, ast.Call) and call_name_(b.value) in ("field", "TypeVar", "property")):
                        shared_cls |= {t.id for t in b.targets if isinstance(t, ast.Name)}
                    if isinstance(b, ast.AnnAssign) and isinstance(b.target, ast.Name) and "ClassVar" in src(b.annotation) and b.value is not None:
                        shared_cls.add(b.target.id)
        bad = None
        for f in [f for f in prog.functions.values() if f.module is m]:
            keys = set()
            for x in walk_local(f.node):
                if isinstance(x, ast.Assign) and len(x.targets) == 1 and isinstance(x.targets[0], ast.Name) and any(
                        (isinstance(y, ast.Attribute) and y.attr in ("index", "instance_id")) or (isinstance(y, ast.Call) and isinstance(y.func, ast.Name) and y.func.id == "id") for y in ast.walk(x.value)):
                    keys.add(x.targets[0].id)
            for x in walk_local(f.node):
                key = holder = None
                if isinstance(x, ast.Subscript) and isinstance(x.ctx, ast.Store):
                    key, holder = x.slice, x.value
                elif isinstance(x, ast.Call) and isinstance(x.func, ast.Attribute) and x.func.attr in ("add", "setdefault") and x.args:
                    key, holder = x.args[0], x.func.value
                if key is None or not ((isinstance(holder, ast.Name) and holder.id in shared) or (isinstance(holder, ast.Attribute) and holder.attr in shared_cls and isinstance(holder.value, ast.Name))):
                    continue
                if any((isinstance(y, ast.Attribute) and y.attr in ("index", "instance_id")) or (isinstance(y, ast.Call) and isinstance(y.func, ast.Name) and y.func.id == "id") or (isinstance(y, ast.Name) and y.id in keys) for y in ast.walk(key)):
                    bad = bad or (f, x)
        r.check(bad is None, f"{m.name.split('.')[-1]}#no-shared-memo-by-index-or-id", site(bad[0], bad[1]) if bad else m.relpath, src(bad[1])[:80] if bad else "", "no module-level collection is keyed by a node index or an id()",
                f"`{src(bad[1])[:70] if bad else ''}` ({bad[0].short if bad else ''}) remembers something under a graph node index / id(), which the next instance gets once the slot is free: relations "
                "of a new role are inferred onto the role taker of a role that was collected long ago, a relation between new instances looks handled already")
    return r


def run(prog: Program, tier: str) -> List[RuleResult]:
    return [guard(lambda: sg_coherence(prog)), guard(lambda: idkey(prog)), guard(lambda: rel_gate(prog)), guard(lambda: sg_purge_directions(prog)), guard(lambda: rel_live(prog)), guard(lambda: _sg_sweep(prog)), guard(lambda: _opt_truth(prog)), guard(lambda: rel_edges(prog)), guard(lambda: id_state(prog)), guard(lambda: owner_bound(prog)), guard(lambda: id_memo(prog))]
