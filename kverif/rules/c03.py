"""C03 - evaluations are repeatable and do not interfere with each other.

CARRY-1       no accumulating state on shared expression nodes survives an evaluation without a reset
CARRY-2       no one-shot iterator stored on an object that outlives the evaluation is advanced by it
CARRY-SHARED  state kept over several results of one evaluation is not stored on the shared node (interleaved iterators)
EP-HANDSHAKE  every evaluation installs its per-evaluation parent before evaluating children, and
              hands itself down as the children's parent
Equality of result sequences under arbitrary interleavings is not decided.
"""
from __future__ import annotations

import ast
from typing import Dict, List, Optional, Set, Tuple

from ..model import Program, AnalysisError, FuncInfo, ClassInfo, walk_local, dotted
from ..report import RuleResult, guard
from ..astutil import src, site, calls_in, call_name, is_self_attr, is_super_call, kwarg
from ..callgraph import closure
from ..cfg import CFG
from ..effects import effects

EXPLANATION = (
    "Effect analysis over the evaluation closure of the call graph (everything reachable from evaluate()/_evaluate__ of any "
    "expression class). CARRY-1: for every field of an expression node that evaluation *accumulates* into (read-modify-write, "
    "or a growing mutator such as add/update/append/setdefault/item store) there must be a reset (clear(), or assignment of a "
    "fresh value) in the evaluation closure of the same class; a field that only grows carries the outcome of one evaluation "
    "into the next (or into an interleaved one). CARRY-2: a field holding a one-shot iterator (generator expression, filter, "
    "map, iter) that a method reachable from evaluation advances, on an object that outlives the evaluation, is shared by all "
    "live iterations of that expression. EP-HANDSHAKE: on the CFG of each _evaluate__ the assignment of the per-evaluation "
    "parent dominates every child evaluation (or the method delegates to a base that does it), and the parent handed to a child "
    "is the node itself. Catches memoised results, dropped resets, new sticky flags; tolerates per-activation locals and "
    "scratch fields that are written before they are read."
)
ASSUMPTIONS = [
    "scratch flags that are overwritten before every read within one synchronous step (e.g. _is_false_) are not carried state",
    "interleaving semantics of whole evaluations are not enumerated; the rules are necessary conditions",
]

SE = "symbolic.SymbolicExpression"
GROW = {"add", "update", "append", "extend", "insert", "setdefault", "__setitem__"}


def eval_closure(prog: Program) -> Set[FuncInfo]:
    se = prog.cls(SE)
    starts = []
    for c in prog.subclasses(se.qual):
        for nm in ("_evaluate__", "evaluate"):
            # the method the class *runs* (inherited ones too), with the class as receiver: self.m() in an inherited _evaluate__
            # resolves to the subclass's override (DomainMapping._evaluate__ -> Attribute._apply_mapping_)
            m = prog.lookup(c.qual, nm)
            if m is not None:
                starts.append((m, c.qual))
    fs = {f for f, _ in closure(prog, starts)}
    # iteration protocol of repo containers held by expression nodes (for v in self._domain_ -> __iter__)
    extra = set()
    for f in list(fs):
        if f.cls is None:
            continue
        for n in walk_local(f.node):
            it = None
            if isinstance(n, ast.For):
                it = n.iter
            elif isinstance(n, ast.comprehension):
                it = n.iter
            if it is not None and isinstance(it, ast.Attribute) and isinstance(it.value, ast.Name) and it.value.id == "self":
                fi = prog.lookup_attr(f.cls.qual, it.attr)
                if fi is not None and fi.annotation is not None:
                    t = f.module.resolve(fi.annotation if not isinstance(fi.annotation, ast.Subscript) else fi.annotation.value)
                    if t in prog.classes:
                        for d in ("__iter__", "__getitem__", "__contains__", "__bool__", "__len__"):
                            m = prog.lookup(t, d)
                            if m is not None:
                                extra.add(m)
    # protocol methods are called by syntax (`for v in d`, `d[k]`, `k in d`, `if d`, `a == b`), also through a local or a conditional
    # expression, which the call graph does not follow. The containers and value carriers evaluation works with are known by their
    # type: every repo class that annotates a field of a class in the closure, or a parameter / result of a function in it, contributes
    # its protocol methods.
    protocol = ("__iter__", "__getitem__", "__setitem__", "__contains__", "__bool__", "__len__", "__eq__", "__hash__")
    carriers = set()
    for f in list(fs):
        anns = [a.annotation for a in f.node.args.posonlyargs + f.node.args.args + f.node.args.kwonlyargs if a.annotation is not None]
        if f.node.returns is not None:
            anns.append(f.node.returns)
        if f.cls is not None:
            anns += [fi.annotation for fi in f.cls.attrs.values() if fi.annotation is not None]
        for a in anns:
            for y in ast.walk(a if not (isinstance(a, ast.Constant) and isinstance(a.value, str)) else _parse_annotation(a.value)):
                if isinstance(y, (ast.Name, ast.Attribute)):
                    t = f.module.resolve(y)
                    if t in prog.classes and ".entity_query_language." in t and not prog.is_subclass(t, se.qual):
                        carriers.add(t)
    for t in carriers:
        for d in protocol:
            m = prog.lookup(t, d)
            if m is not None and ".entity_query_language." in m.qual:
                extra.add(m)
    return fs | extra


def _parse_annotation(text: str) -> ast.AST:
    try:
        return ast.parse(text, mode="eval").body
    except SyntaxError:
        return ast.Constant(value=None)


_reach_cache: Dict[Tuple[int, str], Set[str]] = {}


def _reset_runs_for(prog: Program, c: ClassInfo, g: FuncInfo) -> bool:
    """Does the reset function g actually run for an instance of the concrete class c? It has to be what the class resolves the method
    name to, or be reached from that through self / super() calls - a definition further up the MRO that a nearer override shadows
    (without calling super()) never runs."""
    from ..callgraph import self_closure

    # the cache lives on the program object: ids of collected programs are reused
    _reach_cache = prog.__dict__.setdefault("_c03_reach_cache", {})
    key = c.qual
    if key not in _reach_cache:
        names = {m for q in prog.mro(c.qual) if q in prog.classes for m in prog.classes[q].methods}
        reach: Set[str] = set()
        for nm in names:
            if nm in ("evaluate", "_evaluate__") or nm.startswith("_reset") or nm.endswith("_reset_") or "reset" in nm:
                m = prog.lookup(c.qual, nm)
                if m is not None:
                    fs, _ = self_closure(prog, c.qual, m, False)
                    reach |= {f.qual for f in fs}
        _reach_cache[key] = reach
    return g.qual in _reach_cache[key]


def carry1(prog: Program) -> RuleResult:
    r = RuleResult("CARRY-1", "state accumulated on expression nodes during evaluation is reset by evaluation", floor=2)
    se = prog.cls(SE)
    ev = [f for f in eval_closure(prog) if f.cls is not None and prog.is_subclass(f.cls.qual, se.qual)]
    acc: Dict[Tuple[str, str], List[Tuple[FuncInfo, ast.AST, str]]] = {}
    resets: Dict[Tuple[str, str], List[Tuple[FuncInfo, ast.AST]]] = {}

    def owner_of(c: ClassInfo, field: str) -> str:
        fi = prog.lookup_attr(c.qual, field)
        return prog.classes[fi.owner].name if fi is not None else c.name

    for f in sorted(ev, key=lambda x: x.qual):
        for fl, kind, _, node, key in effects(prog, f.cls, {f}):
            m = node.func.attr if isinstance(node, ast.Call) and isinstance(node.func, ast.Attribute) else None
            own = owner_of(f.cls, fl)
            if kind == "add" and (m in GROW or isinstance(node, (ast.Assign, ast.AugAssign))):
                acc.setdefault((own, fl), []).append((f, node, m or "item store"))
            if kind == "del" and m in ("clear",):
                resets.setdefault((own, fl), []).append((f, node))
        selfname = f.params[0] if f.params else "self"
        for n in walk_local(f.node):
            if isinstance(n, ast.Assign):
                for t in n.targets:
                    if isinstance(t, ast.Attribute) and isinstance(t.value, ast.Name) and t.value.id == selfname:
                        own = owner_of(f.cls, t.attr)
                        reads_self = any(isinstance(x, ast.Attribute) and src(x) == src(t) for x in ast.walk(n.value))
                        if reads_self:
                            acc.setdefault((own, t.attr), []).append((f, n, "read-modify-write"))
                        elif isinstance(n.value, (ast.Dict, ast.List, ast.Set)) or (isinstance(n.value, ast.Call) and call_name(n.value) in ("dict", "list", "set", "SeenSet", "HashedIterable")):
                            resets.setdefault((own, t.attr), []).append((f, n))
            elif isinstance(n, ast.AugAssign) and isinstance(n.target, ast.Attribute) and isinstance(n.target.value, ast.Name) and n.target.value.id == selfname:
                acc.setdefault((owner_of(f.cls, n.target.attr), n.target.attr), []).append((f, n, "augmented assignment"))
    if not acc:
        raise AnalysisError("CARRY-1: no accumulating node field found in the evaluation closure (the conclusion selection is the confirmed instance)")
    from .c01 import concrete_classes

    concrete = concrete_classes(prog)
    for (own, fl), sites_ in sorted(acc.items()):
        f0, n0, how = sites_[0]
        rs = resets.get((own, fl), [])
        # every concrete class that runs an accumulating function must also run a reset (one defined in its own MRO)
        uncovered = []
        for fa, _, _ in sites_:
            for c in concrete:
                if fa.cls.qual in prog.mro(c.qual) and not any(_reset_runs_for(prog, c, g) for g, _ in rs):
                    uncovered.append(c.name)
        if uncovered:
            rs = []
        r.check(
            bool(rs), f"{own}.{fl}", site(f0, n0), src(n0)[:120],
            f"accumulated by {sorted({s[0].short for s in sites_})}, reset by {sorted({s[0].short for s in rs})}",
            f"{own}.{fl} is accumulated during evaluation ({how} in {sorted({s[0].short for s in sites_})}) and nothing in the evaluation closure resets it: what one "
            f"evaluation recorded decides what the next (or an interleaved) evaluation of the same expression yields",
        )
    r._acc, r._resets = acc, resets
    # a memoising decorator on a method that is handed *values* is state of the same kind: the memo is keyed by the identity of the value
    # (HashedValue hashes by id) and answers a later evaluation with what the user's object looked like during an earlier one
    VALUE_TYPES = ("HashedValue", "OperationResult", "Dict[int, HashedValue]", "Any")
    for f in sorted(ev, key=lambda x: x.qual):
        if not f.is_lru_cache:
            continue
        a = f.node.args
        params = (a.posonlyargs + a.args + a.kwonlyargs)[1:]
        takes_values = [p_.arg for p_ in params if p_.annotation is None or any(t in src(p_.annotation) for t in VALUE_TYPES)]
        if a.vararg is not None or a.kwarg is not None:
            takes_values.append("*")
        # ... unless the method only asks *which* ids are bound: what it computes must come from the user's object (`<value>.value`, directly or
        # through an element of the bindings) for the memo to go stale when that object changes
        tainted = set(takes_values)
        for _ in range(2):
            for x in walk_local(f.node):
                if isinstance(x, ast.Assign) and len(x.targets) == 1 and isinstance(x.targets[0], ast.Name) and any(isinstance(y, ast.Name) and y.id in tainted for y in ast.walk(x.value)):
                    tainted.add(x.targets[0].id)
        reads_user = [x for x in walk_local(f.node) if isinstance(x, ast.Attribute) and x.attr == "value" and any(isinstance(y, ast.Name) and y.id in tainted for y in ast.walk(x.value))]
        if takes_values and not reads_user and "*" not in takes_values:
            r.ok(f"{f.short}#memo-not-keyed-by-values", site(f), f"memoised on ({', '.join(p_.arg for p_ in params)})", "takes bindings but never looks at a user object (asks which ids are bound)")
            continue
        r.check(not takes_values, f"{f.short}#memo-not-keyed-by-values", site(f), f"memoised on ({', '.join(p_.arg for p_ in params)})",
                "the memoised method is keyed by structure only (flags, nothing bound during evaluation)",
                f"{f.short} is memoised and takes the values {takes_values}: the memo is keyed by the identity of a value and keeps what was computed from the user's object the first time - "
                f"a second evaluation of the query after `obj.n = ...` still answers with the old attribute value (objects that satisfy the conditions now are dropped, the(...) returns a stale result)")
    return r


def carry_abandon(prog: Program) -> RuleResult:
    """A marker (boolean field) that a generator raises before a yield and lowers after it stays raised when the consumer abandons the
    iterator at that yield. Such a marker must also be lowered when the next evaluation starts (in the reset hook that runs for the
    class). Transient *collections* filled before a yield and cleared after it (the selectors' _conclusion_) have the same shape and are
    judged the same way (second part)."""
    r = RuleResult("CARRY-ABANDON", "markers raised around a yield are also lowered when an evaluation starts", floor=1)
    se = prog.cls(SE)
    from .c01 import concrete_classes

    concrete = concrete_classes(prog)
    ev = [f for f in eval_closure(prog) if f.cls is not None and prog.is_subclass(f.cls.qual, se.qual) and f.is_generator]
    seen = set()
    for f in sorted(ev, key=lambda x: x.qual):
        cfg = CFG(f.node)
        yields = [n for n in cfg.nodes if n.stmt is not None and n.kind == "stmt" and any(isinstance(x, (ast.Yield, ast.YieldFrom)) for x in ast.walk(n.stmt))]
        if not yields:
            continue
        raises_, lowers = {}, {}
        for n in cfg.nodes:
            st = n.stmt
            if n.kind != "stmt" or st is None:
                continue
            if isinstance(st, ast.Assign) and len(st.targets) == 1 and is_self_attr(st.targets[0]) and isinstance(st.value, ast.Constant) and isinstance(st.value.value, bool):
                (raises_ if st.value.value else lowers).setdefault(st.targets[0].attr, []).append(n)
        for fl in sorted(set(raises_) & set(lowers)):
            # raise -> yield -> lower on some path
            live = False
            for a in raises_[fl]:
                ra = cfg.reachable(a.id)
                for y in yields:
                    if y.id in ra and any(l.id in cfg.reachable(y.id) for l in lowers[fl]):
                        live = True
            if not live:
                continue
            key = f"{f.short}#{fl}"
            if key in seen:
                continue
            seen.add(key)
            uncovered = []
            for c in concrete:
                if f.cls.qual not in prog.mro(c.qual) or prog.lookup(c.qual, f.name) is not f:
                    continue
                hook = prog.lookup(c.qual, "_reset_evaluation_state_")
                ok = False
                if hook is not None:
                    from ..callgraph import self_closure

                    for g in self_closure(prog, c.qual, hook, False)[0]:
                        for x in walk_local(g.node):
                            if isinstance(x, ast.Assign) and any(is_self_attr(t, fl) for t in x.targets) and isinstance(x.value, ast.Constant) and x.value.value in (False, None):
                                ok = True
                            if isinstance(x, ast.Call) and isinstance(x.func, ast.Attribute) and x.func.attr == "clear" and is_self_attr(x.func.value, fl):
                                ok = True
                if not ok:
                    uncovered.append(c.name)
            r.check(not uncovered, key, site(f, raises_[fl][0].stmt), f"self.{fl} raised before a yield, lowered after it",
                    "also lowered by the reset hook that runs when an evaluation starts",
                    f"{f.short} raises self.{fl} before a yield and lowers it afterwards; an iterator abandoned at that yield leaves it raised, and nothing lowers it when the next "
                    f"evaluation of {sorted(set(uncovered))} starts: the next evaluation begins with the state of the abandoned one")
    # transient *collections* have the same shape: filled for one result, cleared after the yield that hands the result on (the selected
    # conclusions of a rule selector).  Abandoned at that yield, the collection keeps the entries of the last result, and the first result of
    # the next evaluation is produced with them in force next to its own - which of the two wins is left to the iteration order of a set.
    for f in sorted(ev, key=lambda x: x.qual):
        cfg = CFG(f.node)
        yields = [n for n in cfg.nodes if n.stmt is not None and n.kind == "stmt" and any(isinstance(x, (ast.Yield, ast.YieldFrom)) for x in ast.walk(n.stmt))]
        clears = {}
        for n in cfg.nodes:
            if n.stmt is None or n.kind != "stmt":
                continue
            for c_ in calls_in(n.stmt):
                if isinstance(c_.func, ast.Attribute) and c_.func.attr == "clear" and is_self_attr(c_.func.value):
                    clears.setdefault(c_.func.value.attr, []).append(n)
        for fl in sorted(clears):
            after_yield = any(cl.id in cfg.reachable(y.id) for y in yields for cl in clears[fl])
            if not after_yield:
                continue
            key = f"{f.short}#{fl}"
            if key in seen:
                continue
            seen.add(key)
            uncovered = []
            for c in concrete:
                if f.cls.qual not in prog.mro(c.qual) or prog.lookup(c.qual, f.name) is not f:
                    continue
                hook = prog.lookup(c.qual, "_reset_evaluation_state_")
                ok = False
                if hook is not None:
                    from ..callgraph import self_closure

                    for g in self_closure(prog, c.qual, hook, False)[0]:
                        for x in walk_local(g.node):
                            if isinstance(x, ast.Call) and isinstance(x.func, ast.Attribute) and x.func.attr == "clear" and is_self_attr(x.func.value, fl):
                                ok = True
                            if isinstance(x, ast.Assign) and any(is_self_attr(t, fl) for t in x.targets) and (isinstance(x.value, (ast.Set, ast.List, ast.Dict)) or (isinstance(x.value, ast.Call) and call_name(x.value) in ("set", "list", "dict"))):
                                ok = True
                if not ok:
                    uncovered.append(c.name)
            r.check(not uncovered, key, site(f, clears[fl][0].stmt), f"self.{fl} is cleared after a yield",
                    "also cleared by the reset hook that runs when an evaluation starts",
                    f"{f.short} clears self.{fl} only after the yield that hands a result on; an iterator abandoned there leaves the entries of its last result in it, and nothing clears them "
                    f"when the next evaluation of {sorted(set(uncovered))} starts: its first result is produced with the leftover in force as well (a stale conclusion is applied - "
                    "an extra inferred instance is constructed, and which conclusion wins depends on the iteration order of the set)")
    return r


UPWARD = {"_parent_", "_root_", "_eval_parent_", "_conditions_root_"}


def carry_memo_up(prog: Program) -> RuleResult:
    """An expression can be embedded in a second query later ('queries that share sub-expressions'): everything *above* it changes, its
    own sub-tree does not. A fact an expression memoises for its lifetime (cached_property / lru_cache) and that evaluation consults must
    therefore not be computed from what lies above the node (parent, root, conditions root)."""
    from ..callgraph import self_closure

    r = RuleResult("CARRY-MEMO-UP", "no memoised fact consulted by evaluation is computed from what lies above the node", floor=3)
    se = prog.cls(SE)
    ev = eval_closure(prog)
    read_names = {x.attr for f in ev for x in walk_local(f.node) if isinstance(x, ast.Attribute) and isinstance(x.ctx, ast.Load)}
    called = {call_name(c) for f in ev for c in calls_in(f.node)}
    seen = set()
    for c in sorted(prog.subclasses(se.qual), key=lambda x: x.qual):
        for name, m in sorted(c.methods.items()):
            if not (m.is_cached_property or m.is_lru_cache) or m.is_setter or m.qual in seen:
                continue
            seen.add(m.qual)
            consulted = name in read_names if m.is_cached_property else name in called
            if not consulted:
                continue
            fs, _ = self_closure(prog, c.qual, m, True)
            up = sorted({x.attr for g in fs for x in walk_local(g.node) if isinstance(x, ast.Attribute) and x.attr in UPWARD and isinstance(x.ctx, ast.Load)}
                        | {"_node_." + x.attr for g in fs for x in walk_local(g.node) if isinstance(x, ast.Attribute) and x.attr in ("parent", "root") and isinstance(x.value, ast.Attribute) and x.value.attr == "_node_"})
            r.check(not up, f"{m.short}#memoised-from-above", site(m), f"{'cached_property' if m.is_cached_property else 'lru_cache'}; reads {up or 'its own sub-tree only'}",
                    "computed from the node's own sub-tree only",
                    f"{m.short} is memoised for the lifetime of the node but computed from {up}: once the expression is used in a second query (where it has another parent / root) "
                    f"evaluation still sees the answer for the first one (flag = x.flag; entity(x, flag) then entity(x, flag == False) loses the rows with a falsy flag)")
    return r


def carry_reset_reach(prog: Program) -> RuleResult:
    """The reset at the start of an evaluation walks the nodes of the tree.  Trees grow after they were evaluated (refinement /
    alternative / next_rule written later; a query embedded in a larger one), so the walk must see the tree as it is now: nothing it
    reads may be memoised."""
    from ..callgraph import self_closure

    r = RuleResult("CARRY-RESET-REACH", "the reset reaches every node the tree has at the time of the evaluation", floor=1)
    rq = prog.cls("symbolic.ResultQuantifier")
    f = prog.method(rq.qual, "evaluate", inherited=False)
    loops = [lp for lp in walk_local(f.node) if isinstance(lp, ast.For) and any(call_name(c) == "_reset_evaluation_state_" for c in calls_in(lp))]
    comps = [x for x in walk_local(f.node) if isinstance(x, (ast.ListComp, ast.GeneratorExp)) and any(call_name(c) == "_reset_evaluation_state_" for c in calls_in(x))]
    iters = [lp.iter for lp in loops] + [x.generators[0].iter for x in comps]
    if not iters:
        r.fail("ResultQuantifier.evaluate#reset-walk-is-fresh", site(f), "", "evaluate() does not reset the nodes of the tree in a loop: state carried on the nodes survives into the next evaluation")
        return r
    for it in iters:
        if isinstance(it, ast.Name):
            defs = [a.value for a in walk_local(f.node) if isinstance(a, ast.Assign) and len(a.targets) == 1 and isinstance(a.targets[0], ast.Name) and a.targets[0].id == it.id]
            if len(defs) == 1:
                it = defs[0]
        reads = [x.attr for x in ast.walk(it) if isinstance(x, ast.Attribute) and isinstance(x.value, ast.Name) and x.value.id == f.params[0]]
        if not reads:
            raise AnalysisError(f"CARRY-RESET-REACH: cannot tell what the reset loop of evaluate() walks ({src(it)})")
        memo = []
        for nm in reads:
            m = prog.lookup(rq.qual, nm)
            if m is None:
                continue
            fs, _ = self_closure(prog, rq.qual, m, True)
            memo += [g.short for g in fs | {m} if g.is_cached_property or g.is_lru_cache]
        r.check(not memo, "ResultQuantifier.evaluate#reset-walk-is-fresh", site(f, it), src(it), "the node enumeration is computed on every evaluation",
                f"the reset walks {src(it)}, which is computed through the memoised {sorted(set(memo))}: a branch that is written after the first evaluation is never reset; from the second "
                "evaluation after the extension on its selector treats every conclusion as already produced and the written branch is silently ignored")
    return r


def carry_eval_parent(prog: Program) -> RuleResult:
    """Each evaluation tells a node which parent it is evaluated under (`self._eval_parent_ = parent`); where the node stands decides how
    it judges its value.  Until that assignment the field still holds the parent of the *previous* evaluation - possibly of another query
    that shares the node.  Nothing that looks upward (parent, root, conditions root, 'do I stand as a condition') may be read before it."""
    from ..callgraph import self_closure

    r = RuleResult("CARRY-EVAL-PARENT", "a node looks upward only after this evaluation told it its parent", floor=3)
    se = prog.cls(SE)
    up_names = set(UPWARD) | {"_stands_as_condition_"}
    # methods / properties of expression classes whose closure looks upward
    looks_up: Set[str] = set()
    for c in prog.subclasses(se.qual):
        for nm, m in c.methods.items():
            if nm in up_names:
                looks_up.add(nm)
    seen = set()
    for c in sorted(prog.subclasses(se.qual), key=lambda x: x.qual):
        f = prog.lookup(c.qual, "_evaluate__")
        if f is None or f.qual in seen:
            continue
        seen.add(f.qual)
        cfg = CFG(f.node)
        selfn = f.params[0]
        assigns = [n for n in cfg.nodes if n.kind == "stmt" and isinstance(n.stmt, ast.Assign) and any(isinstance(t, ast.Attribute) and t.attr == "_eval_parent_" and isinstance(t.value, ast.Name) and t.value.id == selfn for t in n.stmt.targets)]
        if not assigns:
            continue
        bad = None
        for n in cfg.nodes:
            if n.stmt is None or n in assigns:
                continue
            for part in cfg._own_parts(n):
                for x in ast.walk(part):
                    hit = None
                    if isinstance(x, ast.Attribute) and isinstance(x.value, ast.Name) and x.value.id == selfn and isinstance(x.ctx, ast.Load):
                        if x.attr in up_names and x.attr != "_eval_parent_":
                            hit = x.attr
                        else:
                            m = prog.lookup(c.qual, x.attr)
                            if m is not None and m.cls is not None and prog.is_subclass(m.cls.qual, se.qual) and m.name not in ("_evaluate__",):
                                fs, _ = self_closure(prog, c.qual, m, True)
                                if any(isinstance(y, ast.Attribute) and y.attr in up_names and y.attr != "_eval_parent_" and isinstance(y.ctx, ast.Load) for g in fs for y in walk_local(g.node)):
                                    hit = f"{x.attr} -> upward"
                    if hit and not any(cfg.dominates(a.id, n.id) for a in assigns):
                        bad = bad or (n, hit)
        r.check(bad is None, f"{f.short}#parent-before-looking-up", site(f, bad[0].stmt) if bad else site(f, assigns[0].stmt), src(assigns[0].stmt),
                "every upward read is dominated by the assignment of this evaluation's parent",
                f"`{bad[1] if bad else ''}` is read at line {bad[0].lineno if bad else 0}, before `{src(assigns[0].stmt)}`: the node still sees the parent of its previous evaluation - a sub-expression "
                "shared by two queries in different roles (f = x.flag; entity(x, f) and entity(x, f == False)) judges its value by the role it had in the query evaluated before")
    # ... and nobody else writes it: a suspended evaluation reads the field lazily (the second pass of a disjunction asks an operand where it
    # stands for every value it pulls), so whatever runs in between - a second evaluate() of the same query and its reset of every node,
    # a helper that tidies up - must leave the field to the evaluations themselves
    writers = []
    for g in sorted(prog.functions.values(), key=lambda x: x.qual):
        if not g.module.name.startswith(se.module.name.rsplit(".", 1)[0]):
            continue
        for x in walk_local(g.node):
            tg = x.targets if isinstance(x, ast.Assign) else [x.target] if isinstance(x, (ast.AugAssign, ast.AnnAssign)) else x.targets if isinstance(x, ast.Delete) else []
            for t in tg:
                if isinstance(t, ast.Attribute) and t.attr == "_eval_parent_":
                    writers.append((g, x))
            if isinstance(x, ast.Call) and isinstance(x.func, ast.Name) and x.func.id in ("setattr", "delattr") and len(x.args) >= 2 and isinstance(x.args[1], ast.Constant) and x.args[1].value == "_eval_parent_":
                writers.append((g, x))
    # (the setter of the structural parent also clears it: that is tree surgery while a query is written, not part of any evaluation)
    def _is_parent_setter(g) -> bool:
        return g.name == "_parent_" and any(isinstance(d, ast.Attribute) and d.attr == "setter" for d in g.node.decorator_list)

    outside = [(g, x) for g, x in writers if g.name not in ("_evaluate__", "__init__", "__post_init__") and not _is_parent_setter(g)]
    r.check(bool(writers) and not outside, "_eval_parent_#written-by-evaluations-only", site(outside[0][0], outside[0][1]) if outside else "", f"{len(writers)} write(s): entries of _evaluate__ and the setter of the structural parent" if not outside else src(outside[0][1]),
            "the field is written where an evaluation enters a node and nowhere else",
            f"{outside[0][0].short if outside else ''} writes the field ({src(outside[0][1])[:60] if outside else ''}): it runs between two steps of a suspended evaluation (every evaluate() resets "
            "every node of the query first), and the suspended evaluation then judges the values it pulls next by the node's place in the tree instead of its place in that evaluation")
    return r


def shared_tree(prog: Program) -> RuleResult:
    """Queries may share sub-expressions. Upward navigation (_parent_, _root_, the conditions root) reads one structural parent per node,
    so attaching an expression that already has a parent to a second operator must copy it (or the structure must hold several parents)."""
    r = RuleResult("SHARED-TREE", "an expression used in a second query keeps its place in the first one", floor=1)
    se = prog.cls(SE)
    uc = se.methods.get("_update_children_")
    if uc is None:
        raise AnalysisError("SHARED-TREE: SymbolicExpression._update_children_ vanished")
    cfg = CFG(uc.node)
    attach = [n for n in cfg.nodes if isinstance(n.stmt, ast.Assign) and any(isinstance(t, ast.Attribute) and t.attr == "parent" and isinstance(t.value, ast.Attribute) and t.value.attr == "_node_" for t in n.stmt.targets)]
    if not attach:
        raise AnalysisError("SHARED-TREE: _update_children_ no longer attaches the children's graph nodes")
    single_parent = any(isinstance(x, ast.Attribute) and x.attr == "parent" and isinstance(x.value, ast.Attribute) and x.value.attr == "_node_"
                        for g in se.methods.values() if g.name == "_parent_" and not g.is_setter for x in walk_local(g.node))
    for a in attach:
        guarded = False
        for t in cfg.nodes:
            if t.kind == "test" and isinstance(t.stmt, ast.If) and cfg.dominates(t.id, a.id) and any(isinstance(x, ast.Attribute) and x.attr in ("parent", "_parent_", "parents") for x in ast.walk(t.stmt.test)):
                guarded = True
        copies = any(call_name(c) in ("copy", "deepcopy", "__copy__", "_copy_") for c in calls_in(uc.node))
        r.check(guarded or copies or not single_parent, "SymbolicExpression._parent_#single-parent", site(uc, a.stmt), src(a.stmt),
                "an operand that already has a parent is copied (or kept under both parents)",
                "an operand that already belongs to another expression is re-parented in place, and upward navigation knows one parent only: the first expression no longer finds the "
                "operand in its place (a sub-expression used in a second query before the first one is evaluated is no longer treated as a condition there)")
    return r


def carry_shared(prog: Program, c1: RuleResult) -> RuleResult:
    """State that one evaluation accumulates over several of its results must not live on the shared node: a second live
    iterator of the same expression resets it (at its start) and fills it (while it runs) under the first one's feet."""
    r = RuleResult("CARRY-SHARED", "state kept for a whole evaluation does not live on the shared expression node", floor=2)
    se = prog.cls(SE)
    step_starts = []
    for c in prog.subclasses(se.qual):
        m = c.methods.get("_evaluate__")
        if m is not None:
            step_starts.append((m, c.qual))
    step = {f for f, _ in closure(prog, step_starts)}
    for (own, fl), sites_ in sorted(c1._acc.items()):
        rs = c1._resets.get((own, fl), [])
        if not rs:
            continue  # CARRY-1 reports it
        f0, n0, how = sites_[0]
        per_step = [g for g, _ in rs if g in step]
        r.check(
            bool(per_step), f"{own}.{fl}", site(f0, n0), src(n0)[:120],
            f"cleared within the evaluation step that filled it ({sorted({g.short for g in per_step})}): nothing survives from one result to the next",
            f"{own}.{fl} is filled while results are produced ({sorted({s[0].short for s in sites_})}) and cleared only once per evaluation ({sorted({g.short for g, _ in rs})}), "
            f"so it lives on the shared node for the whole evaluation: two live iterators of the same expression share it - the one started later clears it and, "
            f"when it finishes, leaves it full, and the earlier one then suppresses its remaining results",
        )
    return r


def _yields_in(part) -> List[ast.AST]:
    return [x for x in ast.walk(part) if isinstance(x, (ast.Yield, ast.YieldFrom))]


def _shared_sources(prog: Program):
    """(class, field, assigning method, assignment, advance sites) for every field of an EQL class that holds a one-shot
    iterator; an advance site is (method in the evaluation closure, the `for` over the field or the next() call on it), the
    field being named directly or through a local that stands for it (source = self.fld if ... else iter(self.fld))"""
    ev = eval_closure(prog)
    out = []
    for c in sorted(prog.classes.values(), key=lambda x: x.qual):
        if ".entity_query_language." not in c.qual:
            continue
        one_shot: Dict[str, Tuple[FuncInfo, ast.AST]] = {}
        for f in c.methods.values():
            for s in walk_local(f.node):
                if isinstance(s, ast.Assign):
                    for t in s.targets:
                        if is_self_attr(t) and (isinstance(s.value, ast.GeneratorExp) or (isinstance(s.value, ast.Call) and call_name(s.value) in ("filter", "map", "iter", "zip", "chain", "islice"))):
                            one_shot[t.attr] = (f, s)
        for fld, (f, s) in sorted(one_shot.items()):
            adv = []
            for g in sorted(c.methods.values(), key=lambda x: x.qual):
                # protocol methods (__iter__, __getitem__, ...) are called by syntax - `for v in d`, `d[k]`, through a local or a
                # conditional expression - which the call graph cannot always follow: they count as reachable from evaluation
                if g not in ev and not (g.name.startswith("__") and g.name.endswith("__") and g.name not in ("__init__", "__post_init__")):
                    continue
                alias = {t.id for x in walk_local(g.node) if isinstance(x, ast.Assign) and any(is_self_attr(y, fld) for y in ast.walk(x.value))
                         and not any(isinstance(y, ast.Call) and call_name(y) in ("list", "tuple", "set", "sorted") for y in ast.walk(x.value))
                         for t in x.targets if isinstance(t, ast.Name)}
                is_src = lambda e: is_self_attr(e, fld) or (isinstance(e, ast.Name) and e.id in alias)
                for x in walk_local(g.node):
                    if isinstance(x, ast.For) and is_src(x.iter):
                        adv.append((g, x))
                    if isinstance(x, ast.Call) and call_name(x) == "next" and x.args and is_src(x.args[0]):
                        adv.append((g, x))
            out.append((c, fld, f, s, adv))
    return out


def _cache_stores(cfg: CFG, fld: str):
    """statement nodes that record something in a field of the object other than the source itself"""
    return [m for m in cfg.nodes if m.stmt is not None and m.kind == "stmt" and (
        (isinstance(m.stmt, ast.Assign) and any(isinstance(t, ast.Subscript) and is_self_attr(t.value) and t.value.attr != fld for t in m.stmt.targets))
        or any(call_name(cc) in ("add", "append", "setdefault") and isinstance(cc.func, ast.Attribute) and is_self_attr(cc.func.value) and cc.func.value.attr != fld for cc in calls_in(m.stmt)))]


def _cache_fields(stores) -> Set[str]:
    out = {t.value.attr for m in stores if isinstance(m.stmt, ast.Assign) for t in m.stmt.targets if isinstance(t, ast.Subscript) and is_self_attr(t.value)}
    return out | {cc.func.value.attr for m in stores for cc in calls_in(m.stmt) if call_name(cc) in ("add", "append", "setdefault") and isinstance(cc.func, ast.Attribute) and is_self_attr(cc.func.value)}


def _loose_handouts(cfg: CFG, xn: int, x: ast.AST, stores) -> List:
    """hand-outs (yield / return of a value) of the element pulled at node xn that it reaches without passing a store"""
    node = cfg.nodes[xn]
    pulled = None
    if isinstance(x, ast.For) and isinstance(x.target, ast.Name):
        pulled = x.target.id
    elif isinstance(node.stmt, ast.Assign) and node.stmt.value is x and len(node.stmt.targets) == 1 and isinstance(node.stmt.targets[0], ast.Name):
        pulled = node.stmt.targets[0].id
    redefs = {m.id for m in cfg.nodes if m.id != xn and m.stmt is not None and pulled and (
        (m.kind == "for" and any(isinstance(y, ast.Name) and y.id == pulled for y in ast.walk(m.stmt.target)))
        or (m.kind == "stmt" and isinstance(m.stmt, (ast.Assign, ast.AnnAssign, ast.AugAssign)) and any(
            isinstance(y, ast.Name) and y.id == pulled and isinstance(y.ctx, ast.Store) for y in ast.walk(m.stmt))))}

    def hands_out(m):
        vals = [y.value for p in cfg._own_parts(m) for y in _yields_in(p) if y.value is not None]
        if isinstance(m.stmt, ast.Return) and m.stmt.value is not None:
            vals.append(m.stmt.value)
        # without a named local the pulled element cannot be followed: every hand-out counts
        return any(pulled is None or any(isinstance(z, ast.Name) and z.id == pulled for z in ast.walk(v)) for v in vals)

    after = cfg.reachable(xn) - {xn}
    outs = [m for m in cfg.nodes if m.id in after and m.stmt is not None and m.kind == "stmt" and hands_out(m)]
    store_ids = {m.id for m in stores}
    return [m for m in outs if cfg.path_avoiding(xn, m.id, store_ids | redefs) is not None]


def carry2(prog: Program) -> RuleResult:
    """A field that holds a one-shot iterator and is advanced by evaluation is shared by all live iterations of every
    expression that reaches the object. That is sound only under a cache discipline: (1) every element pulled from the
    source is recorded in a cache field of the same object before anything is handed out, (2) an iterating method looks
    at the cache again after every pull - the read of the cache and the advance of the source lie on a common cycle, so
    what another live iteration pulled meanwhile is delivered too (a replay phase followed by a drain phase is not
    enough: an iteration in its drain phase never sees what the others pulled), and (3) no live view of the cache is
    iterated across a yield (another iteration adds to the cache while this one is suspended)."""
    r = RuleResult("CARRY-2", "a stored one-shot iterator that evaluation advances is shared only through a cache every live iteration re-reads", floor=1)
    n = 0
    for c, fld, f, s, adv in _shared_sources(prog):
        if True:
            n += 1
            if not adv:
                r.ok(f"{c.name}.{fld}", site(f, s), src(s)[:120], "never advanced from the evaluation closure")
                continue
            for g, x in adv:
                cfg = CFG(g.node)
                key = f"{c.name}.{fld}@{g.name}"
                xn = cfg.node_of(x)
                if xn is None:
                    raise AnalysisError(f"CARRY-2: the advance of {c.name}.{fld} in {g.short} has no node in the flow graph")
                # (1) the pulled element is cached before anything is handed out
                stores = _cache_stores(cfg, fld)
                store_ids = {m.id for m in stores}
                loose = _loose_handouts(cfg, xn, x, stores)
                r.check(bool(stores) and not loose, key + "#pulled-element-cached", site(g, x), src(x)[:100],
                        "every element pulled from the shared source is recorded in a cache field before anything is handed out",
                        f"{g.short} advances the one-shot iterator {c.name}.{fld}, which all live iterations share, and hands out"
                        f"{' at line ' + str(loose[0].lineno) if loose else ''} without recording the pulled element in a cache field first: the element is "
                        "gone from the source and no other iteration (nested loop, interleaved or later evaluation) ever sees it")
                if not g.is_generator:
                    continue
                cache_fields = _cache_fields(stores)
                reads = [m for m in cfg.nodes if m.stmt is not None and any(
                    isinstance(y, ast.Attribute) and isinstance(y.ctx, ast.Load) and is_self_attr(y) and y.attr in cache_fields
                    for p in cfg._own_parts(m) for y in ast.walk(p)) and m.id not in store_ids]
                # (2) a read of the cache on a common cycle with the advance
                cyc = [m for m in reads if xn in cfg.reachable(m.id) and m.id in cfg.reachable(xn)]
                r.check(bool(cyc), key + "#cache-reread-after-pull", site(g, x), src(reads[0].stmt)[:100] if reads else "",
                        "the iteration looks at the cache again after every pull: what another live iteration pulled meanwhile is delivered too",
                        f"{g.short} replays the cache and then drains the shared source without looking at the cache again: two live iterations of expressions that share "
                        "the object each get only the elements they pull themselves (a nested loop over two queries sharing a variable yields a fraction of the pairs; "
                        "two interleaved evaluations of one query split the domain between them)")
                # (3) no live view of the cache iterated across a yield
                live = []
                for m in cfg.nodes:
                    if m.stmt is None:
                        continue
                    its = [y.value for p in cfg._own_parts(m) for y in ast.walk(p) if isinstance(y, ast.YieldFrom)]
                    if m.kind == "for" and any(_yields_in(b) for b in m.stmt.body):
                        its.append(m.stmt.iter)
                    for it in its:
                        snap = isinstance(it, ast.Call) and call_name(it) in ("list", "tuple", "sorted", "set", "frozenset")
                        if not snap and any(isinstance(z, ast.Attribute) and is_self_attr(z) and z.attr in cache_fields for z in ast.walk(it)):
                            live.append((m, it))
                r.check(not live, key + "#no-live-view-across-yield", site(g, live[0][0].stmt) if live else site(g), src(live[0][1])[:100] if live else "",
                        "the cache is read through snapshots: no view of it is being iterated while the generator is suspended",
                        f"{g.short} iterates a live view of the cache ({src(live[0][1])[:60] if live else ''}) across a yield: while this iteration is suspended another live "
                        "iteration adds to the cache and the resumed one dies with 'dictionary changed size during iteration'")
    if n == 0:
        r.ok("eql#no-stored-one-shot-iterator", "src/krrood/entity_query_language", "", "no field holds a one-shot iterator")
    return r


def ep_handshake(prog: Program) -> RuleResult:
    r = RuleResult("EP-HANDSHAKE", "each evaluation installs its per-evaluation parent first and hands itself to its children", floor=15)
    se = prog.cls(SE)
    defs = [c.methods["_evaluate__"] for c in prog.subclasses(se.qual) if "_evaluate__" in c.methods and not c.methods["_evaluate__"].is_abstract]
    defs += [c.methods["_evaluate__"] for c in prog.classes.values() if "_evaluate__" in c.methods and c.methods["_evaluate__"] not in defs and not c.methods["_evaluate__"].is_abstract]
    for f in sorted(set(defs), key=lambda x: x.qual):
        cfg = CFG(f.node)
        pparam = f.params[2] if len(f.params) > 2 else None
        assigns = [n for n in cfg.nodes if isinstance(n.stmt, ast.Assign) and any(is_self_attr(t, "_eval_parent_") for t in n.stmt.targets)]
        good_assign = [n for n in assigns if pparam and src(n.stmt.value) == pparam]
        child_nodes = []
        for n in cfg.nodes:
            if n.stmt is None or n.kind not in ("stmt", "for", "test"):
                continue
            for part in cfg._own_parts(n):
                for c in calls_in(part):
                    if call_name(c) == "_evaluate__" and not is_super_call(c):
                        child_nodes.append((n, c))
                    elif isinstance(c.func, ast.Attribute) and is_self_attr(c.func) and c.func.attr not in ("_evaluate__",):
                        # helper methods evaluate children too: they run after the node of the call
                        t = prog.lookup(f.cls.qual, c.func.attr) if f.cls else None
                        if t is not None and any(call_name(x) == "_evaluate__" for x in calls_in(t.node)):
                            child_nodes.append((n, c))
        supers = [n for n in cfg.nodes if n.stmt is not None and any(is_super_call(c, "_evaluate__") for part in cfg._own_parts(n) for c in calls_in(part))]
        key = f"{f.short}"
        if good_assign:
            a = good_assign[0]
            ok = all(cfg.dominates(a.id, n.id) and a.id != n.id for n, _ in child_nodes)
            r.check(ok, key + "#parent-installed-first", site(f, a.stmt), src(a.stmt), "the per-evaluation parent is set before any child is evaluated",
                    "a child is evaluated before this node records which parent the evaluation came from")
        elif supers:
            c = [c for part in cfg._own_parts(supers[0]) for c in calls_in(part) if is_super_call(c, "_evaluate__")][0]
            pv = kwarg(c, "parent") or (c.args[1] if len(c.args) > 1 else None)
            ok = pv is not None and src(pv) == pparam and all(cfg.dominates(supers[0].id, n.id) for n, _ in child_nodes if n.id != supers[0].id)
            r.check(ok, key + "#delegates-handshake", site(f, supers[0].stmt), src(c), "delegates to the base evaluation with its own parent",
                    "the base evaluation is not given this evaluation's parent")
        else:
            # pure delegate (a pattern object standing in for its variable)
            ok = len(child_nodes) == 1 and len(f.node.body) <= 2 and (
                (kwarg(child_nodes[0][1], "parent") is not None and src(kwarg(child_nodes[0][1], "parent")) == pparam)
                or (len(child_nodes[0][1].args) > 1 and src(child_nodes[0][1].args[1]) == pparam)
            )
            r.check(ok, key + "#pure-delegate", site(f), src(child_nodes[0][1]) if child_nodes else "", "forwards the evaluation and its parent unchanged",
                    "neither installs the per-evaluation parent nor forwards it")
            continue
        # parent handed down is the node itself (omitting it is allowed)
        for n, c in child_nodes:
            if call_name(c) != "_evaluate__":
                continue
            pv = kwarg(c, "parent") or (c.args[1] if len(c.args) > 1 else None)
            if pv is None:
                continue
            r.check(src(pv) == "self", f"{key}#child-parent:{src(c.func.value)}", site(f, c), src(c), "children are evaluated with this node as parent",
                    f"the child {src(c.func.value)} is told its parent is {src(pv)}, not this node")
    # helper methods outside _evaluate__ that evaluate children
    for f in sorted(eval_closure(prog), key=lambda x: x.qual):
        if f.name == "_evaluate__" or f.cls is None or not prog.is_subclass(f.cls.qual, se.qual):
            continue
        for c in calls_in(f.node):
            if call_name(c) == "_evaluate__" and not is_super_call(c):
                pv = kwarg(c, "parent") or (c.args[1] if len(c.args) > 1 else None)
                if pv is None:
                    continue
                r.check(src(pv) == "self", f"{f.short}#child-parent:{src(c.func.value)}", site(f, c), src(c), "children are evaluated with this node as parent",
                        f"the child {src(c.func.value)} is told its parent is {src(pv)}, not this node")
    return r


_BUILTIN_CONTAINERS = ("dict", "list", "set", "defaultdict", "OrderedDict", "deque", "WeakValueDictionary", "WeakKeyDictionary")
_MUTATORS = ("append", "add", "remove", "pop", "popitem", "clear", "update", "setdefault", "extend", "insert", "discard")
_SNAPSHOTS = ("list", "tuple", "sorted", "set", "frozenset", "dict")


def _builtin_container_fields(c) -> Set[str]:
    """fields of a class declared as builtin containers (annotation or default factory / initial value)"""
    out = set()
    for name, fi in c.attrs.items():
        fac = fi.field_kw("default_factory") if fi.field_call is not None else None
        txt = fi.ann_text
        if fac is not None and (dotted(fac) or "").split(".")[-1] in _BUILTIN_CONTAINERS:
            out.add(name)
        elif fac is not None and isinstance(fac, ast.Lambda) and isinstance(fac.body, (ast.Dict, ast.List, ast.Set)) or (
                isinstance(fac, ast.Lambda) and isinstance(fac.body, ast.Call) and (dotted(fac.body.func) or "").split(".")[-1] in _BUILTIN_CONTAINERS):
            out.add(name)
        elif fi.value is not None and isinstance(fi.value, (ast.Dict, ast.List, ast.Set)):
            out.add(name)
        elif txt.split("[")[0].split(".")[-1] in ("Dict", "List", "Set", "DefaultDict", "dict", "list", "set", "defaultdict"):
            out.add(name)
    return out


def _live_view_of(e: ast.AST, fields: Set[str]) -> Optional[str]:
    """the container field `e` is a live view of: self.F, self.F[k], self.F.values()/.items()/.keys(), or a lazy wrapper
    (islice / filter / map / enumerate / reversed / iter / chain) around one - None for a snapshot or anything else"""
    if isinstance(e, ast.Call):
        nm = call_name(e)
        if isinstance(e.func, ast.Name) and nm in _SNAPSHOTS:
            return None
        if isinstance(e.func, ast.Name) and nm in ("islice", "filter", "map", "enumerate", "reversed", "iter", "chain", "zip"):
            for a in e.args:
                v = _live_view_of(a, fields)
                if v:
                    return v
            return None
        if isinstance(e.func, ast.Attribute) and e.func.attr in ("values", "items", "keys") and not e.args:
            return _live_view_of(e.func.value, fields)
        # self.F.get(k, default) / self.F.setdefault(k, default): the element stored under k, like self.F[k]
        if isinstance(e.func, ast.Attribute) and e.func.attr in ("get", "setdefault") and e.args:
            return _live_view_of(e.func.value, fields)
        return None
    if isinstance(e, ast.Subscript) and not isinstance(e.slice, ast.Slice):
        return _live_view_of(e.value, fields)
    if is_self_attr(e) and e.attr in fields:
        return e.attr
    return None


def live_iter(prog: Program) -> RuleResult:
    """A generator of an object that outlives the evaluation (the symbol graph, a variable's domain cache) is suspended at every yield,
    and whatever runs meanwhile - the sweep of another evaluate(), a rule that infers instances, another live iteration - changes the
    object's containers. A loop that yields from inside an iteration over a *live view* of such a container then skips elements
    (a removal shifts the list under the iterator), delivers elements of another evaluation (an append is seen) or dies (a dict changes
    size). Every such loop reads a snapshot."""
    r = RuleResult("LIVE-ITER", "generators of long-lived objects do not yield from inside an iteration over a live view of a container the object mutates", floor=2)
    n = 0
    for c in sorted(prog.classes.values(), key=lambda x: x.qual):
        if ".entity_query_language." not in c.qual:
            continue
        fields = _builtin_container_fields(c)
        if not fields:
            continue
        mutated = set()
        for g in c.methods.values():
            if g.name in ("__init__", "__post_init__"):
                continue
            for x in walk_local(g.node):
                tgt = None
                if isinstance(x, ast.Call) and isinstance(x.func, ast.Attribute) and x.func.attr in _MUTATORS:
                    tgt = x.func.value
                elif isinstance(x, (ast.Assign, ast.AugAssign, ast.Delete)):
                    for t in (x.targets if isinstance(x, (ast.Assign, ast.Delete)) else [x.target]):
                        if isinstance(t, ast.Subscript):
                            tgt = t.value
                while isinstance(tgt, ast.Subscript):
                    tgt = tgt.value
                if tgt is not None and is_self_attr(tgt) and tgt.attr in fields:
                    mutated.add(tgt.attr)
        for g in sorted(c.methods.values(), key=lambda x: x.qual):
            if not g.is_generator:
                continue
            for x in walk_local(g.node):
                its = []
                if isinstance(x, ast.For) and any(_yields_in(b) for b in x.body):
                    its.append(x.iter)
                if isinstance(x, ast.YieldFrom):
                    its.append(x.value)
                for it in its:
                    reads = {z.attr for z in ast.walk(it) if is_self_attr(z) and z.attr in fields and z.attr in mutated}
                    if not reads:
                        continue
                    n += 1
                    v = _live_view_of(it, fields & mutated)
                    r.check(v is None, f"{c.name}.{g.name}#{'+'.join(sorted(reads))}", site(g, x), src(it)[:100],
                            "the loop yields from inside an iteration over a snapshot",
                            f"{g.short} yields from inside an iteration over a live view of {c.name}.{v}, which other methods of {c.name} change: while the generator is "
                            "suspended another evaluation's sweep removes an entry (the resumed iteration skips a live element), a rule adds one (the resumed iteration "
                            "delivers what a fresh evaluation would not), or a dict changes size (RuntimeError)")
    if n < 2:
        raise AnalysisError(f"LIVE-ITER: {n} generator loops over mutated container fields found (HashedIterable.__iter__ and SymbolGraph.get_instances_of_type are the confirmed instances)")
    return r


def cache_private(prog: Program) -> RuleResult:
    """What a variable's domain holds is read through the caching iterator only (replay what was pulled, then go on pulling). The cache
    behind it - `values`, and the source `iterable` - is complete only after some iteration has run to its end: code outside the class that
    reads it takes a partly filled cache for the whole domain (after an abandoned or suspended iteration every value not pulled yet is
    missing), and iterating the dict while a live iteration adds to it dies with 'dictionary changed size'."""
    r = RuleResult("CACHE-PRIVATE", "the cache and the source of a caching iterator are read by its own class only", floor=1)
    owners = []
    for c, fld, f0, s0, adv in _shared_sources(prog):
        caches = set()
        for g, x in adv:
            if g.is_generator:
                caches |= _cache_fields(_cache_stores(CFG(g.node), fld))
        if caches:
            owners.append((c, {fld} | caches))
    if not owners:
        raise AnalysisError("CACHE-PRIVATE: no caching iterator over a one-shot source found (HashedIterable is the confirmed instance)")
    for c, private in owners:
        # fields of the query language that hold such an object
        holders = set()
        for k in prog.classes.values():
            for name, fi in k.attrs.items():
                if c.name in fi.ann_text:
                    holders.add(name)
        bad = None
        n = 0
        for g in sorted(prog.functions.values(), key=lambda x: x.qual):
            if ".entity_query_language." not in g.qual or (g.cls is not None and prog.is_subclass(g.cls.qual, c.qual)):
                continue
            for x in walk_local(g.node):
                if isinstance(x, ast.Attribute) and x.attr in private and isinstance(x.value, ast.Attribute) and x.value.attr in holders:
                    n += 1
                    par_call = False
                    # `<holder>.values()` would be a method call on the holder, not a read of the field: HashedIterable has no such method
                    bad = bad or (g, x)
        r.check(bad is None, f"{c.name}#{'+'.join(sorted(private))}-read-by-the-class-only", site(bad[0], bad[1]) if bad else c.loc, src(bad[1])[:60] if bad else f"held by fields {sorted(holders)}",
                f"no function outside {c.name} reads its cache or its source",
                f"{bad[0].short if bad else ''} reads {src(bad[1])[:50] if bad else ''} directly: a cache that an abandoned or suspended iteration filled only partly is taken for the whole "
                "domain (a join evaluated again after its iterator was dropped loses every inner value that was not pulled yet), and a live iteration that adds to it "
                "breaks the reader with 'dictionary changed size during iteration'")
    return r


def domain_cache(prog: Program) -> RuleResult:
    """A caching iterator over a one-shot source (the variable-domain cache): every element is recorded *before* it is
    handed out - otherwise an iteration that is abandoned right after a value's first delivery (break, early return,
    closed generator) loses that value for every later evaluation; what is cached is delivered without advancing the
    source first; and the iteration only finishes after it has found the source exhausted."""
    r = RuleResult("DOMAIN-CACHE", "caching iterators record an element before yielding it, replay the cache first and drain the source before they finish", floor=2)
    n = 0
    for c, fld, f0, s0, adv in _shared_sources(prog):
        for g, x in adv:
            if not g.is_generator:
                continue
            n += 1
            cfg = CFG(g.node)
            xn = cfg.node_of(x)
            if xn is None:
                raise AnalysisError(f"DOMAIN-CACHE: the advance of {c.name}.{fld} in {g.short} has no node in the flow graph")
            stores = _cache_stores(cfg, fld)
            loose = _loose_handouts(cfg, xn, x, stores)
            r.check(bool(stores) and not loose, f"{c.name}.{g.name}#record-before-yield", site(g, x), src(x)[:100] if not isinstance(x, ast.For) else src(x.iter),
                    "every element pulled from the one-shot source is cached before it is handed out",
                    "an element pulled from the one-shot source is handed out before it is cached: if the consumer stops right there (a universal quantifier's break, the(), "
                    "an abandoned iterator) the value is gone from the source and never reaches the cache - it is missing from every later evaluation")
            cache_fields = _cache_fields(stores)
            all_adv = {cfg.node_of(y) for gg, y in adv if gg is g}
            # hand-outs of cached content: a yield (from) whose value is read from the cache, directly or through a local / loop variable filled from it
            from_cache = set()
            for m in cfg.nodes:
                if m.stmt is None:
                    continue
                srcs = []
                if m.kind == "for":
                    srcs = [(m.stmt.iter, m.stmt.target)]
                elif isinstance(m.stmt, ast.Assign):
                    srcs = [(m.stmt.value, t) for t in m.stmt.targets]
                for val, tgt in srcs:
                    if any(isinstance(z, ast.Attribute) and is_self_attr(z) and z.attr in cache_fields for z in ast.walk(val)):
                        from_cache |= {z.id for z in ast.walk(tgt) if isinstance(z, ast.Name)}
            replays = []
            for m in cfg.nodes:
                if m.stmt is None or m.kind != "stmt":
                    continue
                for p in cfg._own_parts(m):
                    for y in _yields_in(p):
                        if y.value is not None and any(
                            (isinstance(z, ast.Attribute) and is_self_attr(z) and z.attr in cache_fields) or (isinstance(z, ast.Name) and z.id in from_cache)
                            for z in ast.walk(y.value)
                        ) and m.id not in {l.id for l in loose}:
                            replays.append(m)
            # a replay reachable from the entry without advancing the source, that is not itself the hand-out right after a pull
            pulled_names = {x.target.id} if isinstance(x, ast.For) and isinstance(x.target, ast.Name) else set()
            first = [m for m in replays if cfg.path_avoiding(cfg.entry, m.id, set(all_adv) - {None}) is not None]
            r.check(bool(first), f"{c.name}.{g.name}#replay-first", site(g), src(first[0].stmt) if first else (src(replays[0].stmt) if replays else ""),
                    "cached elements are delivered before the source is advanced", "a re-iteration does not deliver the cached elements before advancing the source: earlier values are lost or reordered")
            # a replay by position (islice(cache, start, ...) / cache[start:]) starts at the beginning: every plain assignment of the position is 0
            starts = set()
            for m in cfg.nodes:
                if m.stmt is None:
                    continue
                for p in cfg._own_parts(m):
                    for y in ast.walk(p):
                        if isinstance(y, ast.Call) and call_name(y) == "islice" and len(y.args) >= 2 and any(
                                isinstance(z, ast.Attribute) and is_self_attr(z) and z.attr in cache_fields for z in ast.walk(y.args[0])):
                            starts |= {z.id for z in ast.walk(y.args[1]) if isinstance(z, ast.Name)}
                        if isinstance(y, ast.Subscript) and isinstance(y.slice, ast.Slice) and y.slice.lower is not None and any(
                                isinstance(z, ast.Attribute) and is_self_attr(z) and z.attr in cache_fields for z in ast.walk(y.value)):
                            starts |= {z.id for z in ast.walk(y.slice.lower) if isinstance(z, ast.Name)}
            for name in sorted(starts):
                inits = [m for m in cfg.nodes if m.kind == "stmt" and isinstance(m.stmt, ast.Assign) and any(isinstance(t, ast.Name) and t.id == name for t in m.stmt.targets)]
                bad = [m for m in inits if not (isinstance(m.stmt.value, ast.Constant) and m.stmt.value.value == 0)]
                r.check(bool(inits) and not bad, f"{c.name}.{g.name}#replay-from-the-start:{name}", site(g, (bad or inits or [cfg.nodes[xn]])[0].stmt), src((bad or inits)[0].stmt) if (bad or inits) else name,
                        "the position from which the cache is replayed starts at 0", "the position from which the cache is replayed does not start at 0: a re-iteration skips values that earlier iterations cached")
            # the generator finishes only after an advance of the source (which found it exhausted)
            skip = cfg.path_avoiding(cfg.entry, cfg.exit, set(all_adv) - {None})
            r.check(skip is None, f"{c.name}.{g.name}#drains-before-finishing", site(g), " -> ".join(cfg.describe(skip)) if skip else "",
                    "the iteration ends only after it has advanced the source and found it exhausted",
                    "the iteration can finish without looking at the source: what was not pulled by an earlier, abandoned iteration is never delivered")
    # whether the object "has something" (its __bool__ reads the source field) must not change by iterating it: the source is put in place when
    # the object is set up, and nothing that runs during iteration - a generator method, a method in the evaluation closure - replaces it
    ev = eval_closure(prog)
    for c, fld, f0, s0, adv in _shared_sources(prog):
        if not any(g.is_generator for g, _ in adv):
            continue
        late = None
        for q in prog.mro(c.qual):
            k = prog.classes.get(q)
            if k is None:
                continue
            for g in k.methods.values():
                if not (g.is_generator or g in ev) or g.name in ("__init__", "__post_init__"):
                    continue  # a constructor assigns the source of a new object
                for x in walk_local(g.node):
                    if isinstance(x, (ast.Assign, ast.AugAssign, ast.AnnAssign)):
                        for t in (x.targets if isinstance(x, ast.Assign) else [x.target]):
                            if is_self_attr(t, fld):
                                late = late or (g, x)
        r.check(late is None, f"{c.name}.{fld}#set-up-once", site(late[0], late[1]) if late else c.loc, src(late[1])[:80] if late else "", "the source is only assigned when the object is set up",
                f"{late[0].short if late else ''} replaces {c.name}.{fld} while the object is being iterated / evaluated: an object whose truth is read from that field (a variable asks "
                "`elif self._domain_:`) answers differently before and after its first exhaustion - a domain that holds no value of the variable's type is 'no domain' the second "
                "time, and the variable raises instead of yielding nothing")
    if n == 0:
        r.ok("eql#no-caching-iterator", "src/krrood/entity_query_language", "", "no caching iterator over a one-shot source")
        r.floor = 1
    return r


def reset_with_evaluation(prog: Program) -> RuleResult:
    """The per-evaluation reset must happen when the evaluation starts, not when its iterator is created."""
    r = RuleResult("CARRY-RESET-TIME", "per-evaluation resets run in the same activation that evaluates", floor=1)
    se = prog.cls(SE)
    n = 0
    for c in prog.subclasses(se.qual):
        for f in c.methods.values():
            resets = [cc for cc in calls_in(f.node) if call_name(cc) == "_reset_evaluation_state_"]
            sweeps = [cc for cc in calls_in(f.node) if call_name(cc) == "remove_dead_instances"]
            if not resets and not sweeps:
                continue
            if not any(call_name(cc) == "_evaluate__" for cc in calls_in(f.node)):
                continue
            n += 1
            lazy_return = any(isinstance(x, ast.Return) and x.value is not None and (
                isinstance(x.value, ast.GeneratorExp) or (isinstance(x.value, ast.Call) and call_name(x.value) in ("map", "filter", "iter", "_evaluate__", "chain"))
            ) for x in walk_local(f.node))
            r.check(f.is_generator and not lazy_return, f"{f.short}#reset-when-iteration-starts", site(f), "",
                    "the reset / sweep runs when the first result is pulled, together with the evaluation",
                    "the function resets per-evaluation state (or sweeps) when it is *called* but returns a lazy iterator that evaluates later: two iterators obtained "
                    "before either is consumed share the state of whichever runs first (the second one yields nothing for a rule query)")
    if n == 0:
        raise AnalysisError("CARRY-RESET-TIME: no evaluation entry with a reset or sweep found")
    # ... and at no other time: the state belongs to the evaluation that is running.  A reset in a `finally` of an evaluation generator also runs
    # when an old, abandoned iterator of the query is finalised - dropped or collected in the middle of a newer evaluation, whose
    # book-keeping (what was concluded already, which pass a disjunction is in) it wipes
    callers = []
    for g in sorted(prog.functions.values(), key=lambda x: x.qual):
        if ".entity_query_language." not in g.qual:
            continue
        for c_ in calls_in(g.node):
            if call_name(c_) == "_reset_evaluation_state_" and not is_super_call(c_):
                callers.append((g, c_))
    outside = [(g, c_) for g, c_ in callers if g.name not in ("evaluate", "_reset_evaluation_state_")]
    r.check(bool(callers) and not outside, "_reset_evaluation_state_#called-when-an-evaluation-starts-only", site(outside[0][0], outside[0][1]) if outside else "", f"{len(callers)} call site(s)",
            "the reset hooks are called from evaluate() (and from each other) only",
            f"{outside[0][0].short if outside else ''} resets the evaluation state (`{src(outside[0][1])[:50] if outside else ''}`): it runs whenever that generator ends - also when an abandoned iterator "
            "of the same query is finalised while a newer evaluation is under way, which then concludes a second time for bindings it had handled")
    return r


def _shared_default(prog):
    # a default built at definition time is state carried from one evaluation to the next
    from .shareddefault import shared_default

    return shared_default(prog, ["entity_query_language.symbolic", "entity_query_language.entity", "entity_query_language.hashed_data", "entity_query_language.conclusion_selector", "entity_query_language.rule", "entity_query_language.conclusion"], 150)


def _sg_coherence(prog):
    # every evaluate() starts with a sweep of the symbol graph: what it removes from the per-class lists must be the dead wrapper itself -
    # a live instance (inferred by a rule evaluation that is still open) that sits at a recycled address must not go with it
    from .c14 import sg_coherence

    return sg_coherence(prog)


def _node_flag(prog):
    # two evaluations of one query consumed in an interleaving share the nodes: an answer repeated from a node flag is the other evaluation's
    from .c02 import node_flag

    return node_flag(prog)


def run(prog: Program, tier: str) -> List[RuleResult]:
    c1 = carry1(prog)
    return [c1, guard(lambda: carry2(prog)), guard(lambda: ep_handshake(prog)), guard(lambda: domain_cache(prog)), guard(lambda: reset_with_evaluation(prog)), guard(lambda: carry_shared(prog, c1)), guard(lambda: carry_abandon(prog)), guard(lambda: carry_memo_up(prog)), guard(lambda: shared_tree(prog)), guard(lambda: carry_reset_reach(prog)), guard(lambda: carry_eval_parent(prog)), guard(lambda: _shared_default(prog)), guard(lambda: live_iter(prog)), guard(lambda: cache_private(prog)), guard(lambda: _node_flag(prog)), guard(lambda: _sg_coherence(prog))]
