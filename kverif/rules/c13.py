"""C13 - domain-less variables range over exactly the live instances of their type.

SG-REGISTER     every allocator (__new__) in the Symbol hierarchy registers the instance it returns
SG-ENUM         the registry lookup enumerates the type and all its subclasses, each class once
SG-SWEEP        dead instances are swept before a query enumerates
SG-EVALTIME     the registry is read once per evaluation, not once per variable construction
"""
from __future__ import annotations

import ast
from typing import List, Optional, Set

from ..model import Program, AnalysisError, FuncInfo, walk_local, dotted, parents_of
from ..report import RuleResult, guard
from .usertruth import user_truth
from ..astutil import src, site, calls_in, call_name, is_self_attr, is_super_call
from ..callgraph import closure, resolve_call, Ctx
from ..cfg import CFG
from ..dtable import explore, Sym

EXPLANATION = (
    "Who-registers / who-reads analysis of the instance registry. SG-REGISTER: on the CFG of every __new__ in the "
    "Symbol cone, each return of an allocated instance of cls is dominated by the registration call (or delegates to a "
    "base __new__ that complies); the registration's decision table excludes only Predicate instances and stores the "
    "wrapper in all registry structures (C14 checks the structures stay in step). SG-ENUM: the lookup iterates the "
    "per-class table over [type] + subclasses and the subclass enumeration must be duplicate-free for diamonds (a "
    "de-duplicating construct on the def-use path from __subclasses__() to the loop). SG-SWEEP: the public evaluation "
    "entry sweeps dead instances before its first result. SG-EVALTIME: every call site of the registry lookup must lie "
    "in the evaluation closure of the call graph; a call in the construction closure stores a one-shot snapshot stream on "
    "the variable, which a second evaluation replays from the variable's cache."
)
ASSUMPTIONS = [
    "type.__subclasses__() lists each direct subclass once (CPython)",
    "instances are created through their class (not through object.__new__ directly)",
    "the census over arbitrary histories is covered by induction over single operations, not enumerated",
]

SG = "symbol_graph.SymbolGraph"


def sg_register(prog: Program) -> RuleResult:
    r = RuleResult("SG-REGISTER", "every __new__ in the Symbol cone registers the instance it returns", floor=4)
    sym = prog.cls("predicate.Symbol")
    upd = prog.func("predicate.update_cache")
    # "however they were created": the library's own allocation sites (the DAO mapper reconstructs instances without calling __init__)
    # must go through the class's __new__, which is where registration happens.  object.__new__(C) for a class that is only known at run
    # time skips it.
    raw = []
    for f in prog.functions.values():
        if f.name == "__new__" and f.cls is not None and prog.is_subclass(f.cls.qual, sym.qual):
            continue  # judged below
        for c_ in calls_in(f.node):
            if isinstance(c_.func, ast.Attribute) and c_.func.attr == "__new__" and isinstance(c_.func.value, ast.Name) and c_.func.value.id == "object" and c_.args:
                q = f.module.resolve(c_.args[0]) if isinstance(c_.args[0], (ast.Name, ast.Attribute)) else None
                if q in prog.classes and not prog.is_subclass(q, sym.qual):
                    continue  # a named class outside the Symbol cone
                raw.append((f, c_))
    n_alloc = sum(1 for f in prog.functions.values() for c_ in calls_in(f.node) if isinstance(c_.func, ast.Attribute) and c_.func.attr == "__new__" and not is_super_call(c_))
    r.check(not raw, "library#no-raw-allocation", site(raw[0][0], raw[0][1]) if raw else sym.loc, src(raw[0][1]) if raw else f"{n_alloc} explicit allocation(s), all through the class's own __new__",
            "instances the library allocates itself go through the class's __new__",
            f"{raw[0][0].short if raw else ''} allocates with object.__new__, which skips Symbol.__new__ and with it the registration: an instance reconstructed that way "
            "(to_dao(x).from_dao(), a row loaded from the database) never appears in the range of let(T, domain=None)")
    news = [c.methods["__new__"] for c in prog.subclasses(sym.qual) if "__new__" in c.methods]
    if not any(f.cls.qual == sym.qual for f in news):
        r.fail("Symbol.__new__#exists", sym.loc, "", "Symbol defines no allocator: instances are never registered")
        return r
    for f in news:
        cfg = CFG(f.node)
        clsp = f.params[0]
        reg_nodes = {}
        alloc_vars = set()
        for n in cfg.nodes:
            if n.stmt is None or n.kind != "stmt":
                continue
            if isinstance(n.stmt, ast.Assign) and isinstance(n.stmt.value, ast.Call) and (
                is_super_call(n.stmt.value, "__new__") or (call_name(n.stmt.value) == "__new__" and n.stmt.value.args and src(n.stmt.value.args[0]) == clsp)
            ):
                for t in n.stmt.targets:
                    if isinstance(t, ast.Name):
                        alloc_vars.add(t.id)
            for c in calls_in(n.stmt):
                if f.module.resolve(c.func) == upd.qual and c.args and isinstance(c.args[0], ast.Name):
                    reg_nodes.setdefault(c.args[0].id, []).append(n.id)
        nret = 0
        for n in cfg.nodes:
            if not isinstance(n.stmt, ast.Return) or n.stmt.value is None:
                continue
            v = n.stmt.value
            if isinstance(v, ast.Name) and v.id in alloc_vars:
                nret += 1
                ok = any(cfg.dominates(rn, n.id) for rn in reg_nodes.get(v.id, []))
                r.check(ok, f"{f.short}#return-{v.id}", site(f, n.stmt), src(n.stmt), "allocation is registered before it is returned",
                        "an allocated instance is returned on a path that does not pass through the registration")
            elif is_super_call(v, "__new__"):
                nret += 1
                tgt = prog.lookup_super(f.cls.qual, f.cls.qual, "__new__")
                ok = tgt is not None and prog.is_subclass(tgt.cls.qual, sym.qual)
                r.check(ok, f"{f.short}#delegates", site(f, n.stmt), src(n.stmt), f"delegates to {tgt.short if tgt else '?'}, which registers",
                        "delegates allocation to a base outside the Symbol hierarchy (object.__new__): the instance is never registered")
            else:
                # returns something that is not an instance of cls (symbolic variable): exempt by construction
                q = f.module.resolve(v.func) if isinstance(v, ast.Call) else None
                if q in prog.classes and not prog.is_subclass(q, sym.qual):
                    r.ok(f"{f.short}#returns-{prog.classes[q].name}", site(f, n.stmt), src(n.stmt)[:80], "returns an object of another class (no instance of cls exists)")
                else:
                    r.fail(f"{f.short}#return-unknown", site(f, n.stmt), src(n.stmt)[:80], "returns a value the rule cannot classify as registered allocation or foreign object")
        if nret == 0:
            r.fail(f"{f.short}#no-allocation-return", site(f), "", "allocator returns no allocated instance")
        # a registration that fails (the class diagram cannot be built yet, the instance cannot be referenced weakly) must fail the
        # construction: an instance that exists but was never registered is missing from every range
        par = parents_of(f.node)
        swallowed = None
        for c in calls_in(f.node):
            if f.module.resolve(c.func) != upd.qual:
                continue
            cur = c
            while cur in par:
                up = par[cur]
                if isinstance(up, ast.Try) and cur in up.body:
                    for h in up.handlers:
                        if not (h.body and isinstance(h.body[-1], ast.Raise)):
                            swallowed = swallowed or (c, h)
                if isinstance(up, (ast.With, ast.AsyncWith)) and any("suppress" in src(i.context_expr) for i in up.items):
                    swallowed = swallowed or (c, up)
                cur = up
        r.check(swallowed is None, f"{f.short}#registration-failure-is-not-swallowed", site(f, swallowed[1]) if swallowed else site(f), src(swallowed[1]).splitlines()[0][:80] if swallowed else "",
                "an exception of the registration leaves the allocator",
                f"`{src(swallowed[1]).splitlines()[0] if swallowed else ''}` lets the allocator return an instance whose registration failed (a TypeResolutionError of a class diagram that cannot be "
                f"built yet is a TypeError as well): the instance exists, and no let(T, domain=None) ever ranges over it")
    # registration itself
    paths = explore(prog, upd, [Sym("instance")], inline=lambda q: False)
    reg_ok = True
    n_nonpred = 0
    for val, out, calls in paths:
        atoms = list(val.items())
        if any(a[0] != "isinstance" for a, _ in atoms):
            reg_ok = False
        is_pred = any(v for a, v in atoms if a[0] == "isinstance" and a[2] == "Predicate")
        other_guard = [a for a, v in atoms if not (a[0] == "isinstance" and a[2] == "Predicate")]
        added = [c for c in calls if c.fn.endswith(".add_node")]
        if not is_pred:
            n_nonpred += 1
            good = len(added) == 1 and len(added[0].args) == 1 and repr(added[0].args[0]) == "WrappedInstance(instance)" and not other_guard
            reg_ok = reg_ok and good
    # ... and the graph files the wrapper under its class in the table the enumeration reads - that very list, on every path
    sg_ = prog.cls("symbol_graph.SymbolGraph")
    an_ = sg_.methods.get("add_node")
    if an_ is None:
        raise AnalysisError("SG-REGISTER: SymbolGraph.add_node vanished")
    wparam = an_.params[1] if len(an_.params) > 1 else None
    files = [c for c in calls_in(an_.node) if isinstance(c.func, ast.Attribute) and c.func.attr in ("append", "add") and c.args and isinstance(c.args[0], ast.Name) and c.args[0].id == wparam]
    why = None
    if not files:
        why = "the wrapper is not appended to any per-class list"
    for c in files:
        recv = c.func.value
        if isinstance(recv, ast.Name):
            defs = [x for x in walk_local(an_.node) if isinstance(x, (ast.Assign, ast.AugAssign, ast.AnnAssign)) and any(isinstance(t, ast.Name) and t.id == recv.id for t in (x.targets if isinstance(x, ast.Assign) else [x.target]))]
            if len(defs) != 1 or not (isinstance(defs[0], ast.Assign) and "_class_to_wrapped_instances" in src(defs[0].value) and isinstance(defs[0].value, (ast.Subscript, ast.Call))
                                    and not isinstance(defs[0].value, (ast.ListComp,))):
                why = f"`{recv.id}` is bound {len(defs)} times ({'; '.join(src(d)[:50] for d in defs)}): on some path the wrapper goes into a list that is not the table's"
            elif isinstance(defs[0].value, ast.Call) and call_name(defs[0].value) not in ("setdefault", "get", "__getitem__"):
                why = f"`{src(defs[0])[:60]}` makes a copy: the wrapper goes into the copy"
        elif "_class_to_wrapped_instances" not in src(recv):
            why = f"the wrapper is appended to `{src(recv)[:50]}`, not to the per-class table"
    r.check(why is None, "SymbolGraph.add_node#filed-in-the-per-class-table", site(an_, files[0]) if files else site(an_), src(files[0])[:80] if files else "", "the wrapper is appended to the list the table holds for its class",
            f"{why}: the instance has a node and an index entry but is missing from the list let(T, domain=None) enumerates")
    r.check(reg_ok and n_nonpred >= 1, "update_cache#registers-all-but-predicates", site(upd), "", "every non-Predicate instance is wrapped and added to the graph",
            "the registration skips instances other than Predicates, or does not add WrappedInstance(instance) to the symbol graph")
    return r


def _dedup_in(f: FuncInfo) -> Optional[str]:
    """a de-duplicating construct applied to a class collection inside f"""
    for n in walk_local(f.node):
        if isinstance(n, ast.Call):
            nm = dotted(n.func) or ""
            if nm in ("set", "frozenset", "dict.fromkeys", "OrderedDict.fromkeys"):
                return nm
        if isinstance(n, (ast.Set, ast.SetComp)):
            return "set display"
        if isinstance(n, ast.Compare) and any(isinstance(o, ast.NotIn) for o in n.ops):
            return "membership test"
    return None


def sg_enum(prog: Program) -> RuleResult:
    r = RuleResult("SG-ENUM", "lookup covers type + all subclasses, each class once, each registered wrapper once", floor=3)
    sg = prog.cls(SG)
    f = prog.method(sg.qual, "get_instances_of_type", inherited=False)
    tparam = f.params[1]
    rs = prog.func("krrood.utils.recursive_subclasses")
    # class list expression
    gens = [n for n in walk_local(f.node) if isinstance(n, (ast.GeneratorExp, ast.ListComp))]
    cls_iter = None
    table_read = None
    for g in gens:
        for comp in g.generators:
            if any(f.module.resolve(c.func) == rs.qual for c in calls_in(comp.iter)) or src(comp.iter) == tparam:
                cls_iter = comp
            if "_class_to_wrapped_instances" in src(comp.iter):
                table_read = comp
    for loop in [n for n in walk_local(f.node) if isinstance(n, ast.For)]:
        if any(f.module.resolve(c.func) == rs.qual for c in calls_in(loop.iter)):
            cls_iter = loop
        if "_class_to_wrapped_instances" in src(loop.iter):
            table_read = loop
    if table_read is None:
        raise AnalysisError("SG-ENUM: lookup by type does not read the per-class table")
    if cls_iter is None:
        r.fail("SymbolGraph.get_instances_of_type#type-and-subclasses", site(f), src(f.node.body[-1])[:120],
               "the lookup does not range over the type itself and recursive_subclasses(type): instances of subclasses are missed")
        return r
    it = cls_iter.iter
    includes_self = any(isinstance(x, ast.Name) and x.id == tparam for x in ast.walk(it) if not (isinstance(x, ast.Name) and False))
    own = [x for x in ast.walk(it) if isinstance(x, (ast.List, ast.Tuple, ast.Set)) and any(isinstance(e, ast.Name) and e.id == tparam for e in x.elts)]
    calls_rs = [c for c in calls_in(it) if f.module.resolve(c.func) == rs.qual and c.args and src(c.args[0]) == tparam]
    r.check(bool(own) and bool(calls_rs), "SymbolGraph.get_instances_of_type#type-and-subclasses", site(f, it), src(it), "iterates [type] + all subclasses",
            "the lookup does not range over the type itself and recursive_subclasses(type)")
    keyed = src(table_read.iter)
    tv = cls_iter.target.id if isinstance(cls_iter.target, ast.Name) else "?"
    r.check(f"[{tv}]" in keyed, "SymbolGraph.get_instances_of_type#per-class-table", site(f, table_read.iter), keyed, "reads the per-class wrapper list of each enumerated class",
            "the per-class table is not indexed by the enumerated class")
    # uniqueness of the class enumeration
    d = _dedup_in(rs)
    wrapped = None
    for c in calls_in(it):
        nm = dotted(c.func) or ""
        if nm in ("set", "dict.fromkeys", "frozenset"):
            wrapped = nm
    if isinstance(it, (ast.Set, ast.SetComp)):
        wrapped = "set display"
    # the subclass enumeration recurses over __subclasses__()
    recurses = any(call_name(c) == "__subclasses__" for c in calls_in(rs.node)) and any(
        isinstance(c.func, ast.Name) and c.func.id == rs.name for c in calls_in(rs.node)
    )
    r.check(recurses, "recursive_subclasses#transitive", site(rs), "", "direct subclasses plus their subclasses, recursively",
            "the subclass enumeration is not the transitive closure of __subclasses__()")
    r.check(
        d is not None or wrapped is not None, "recursive_subclasses#each-class-once", site(rs), src(rs.node.body[-1])[:200],
        f"duplicates removed by {d or wrapped}",
        "a class reachable through two bases (diamond D(B, C)) is listed twice - no de-duplicating construct lies between "
        "__subclasses__() and the enumeration loop - so each of its instances is returned twice by a domain-less variable",
    )
    # the class hierarchy grows while the program runs (a module imported later, a class defined in a function): the subclasses are read
    # from the classes every time, not from a memo of an earlier answer - whoever clears such a memo (a new graph, clear()) does not run
    # when a class is defined
    memo = None
    if rs.is_lru_cache or rs.is_cached_property or any(d.split(".")[-1].lower() in ("cache", "lru_cache", "cached", "memoize", "memoized", "cachedmethod") for d in rs.decorators):
        memo = "a caching decorator " + str(rs.decorators)
    else:
        for x in walk_local(rs.node):
            if isinstance(x, (ast.Subscript, ast.Call)) and isinstance(x, ast.Subscript) and isinstance(x.value, ast.Name) and x.value.id in rs.module.globals_ and isinstance(x.ctx, ast.Load):
                memo = f"the module-level table {x.value.id}"
            if isinstance(x, ast.Call) and call_name(x) in ("get", "setdefault") and isinstance(x.func, ast.Attribute) and isinstance(x.func.value, ast.Name) and x.func.value.id in rs.module.globals_:
                memo = f"the module-level table {x.func.value.id}"
    r.check(memo is None, "recursive_subclasses#read-from-the-classes-every-time", site(rs), ", ".join(rs.decorators) or "no decorator",
            "the subclasses are computed from __subclasses__() at every call",
            f"the subclass enumeration answers from {memo}: a Symbol subclass defined (or imported) after an ancestor was first enumerated is not among the ancestor's "
            "subclasses until something clears the memo, so let(Ancestor, None) misses its live instances")
    # what is handed out is the referent of a weak reference: it may be gone by the time its turn comes (the enumeration is lazy)
    emitted = []
    for x in walk_local(f.node):
        if isinstance(x, (ast.Yield,)) and x.value is not None:
            emitted.append((x.value, None))
        if isinstance(x, (ast.GeneratorExp, ast.ListComp)) and any("_class_to_wrapped_instances" in src(g.iter) for g in x.generators):
            emitted.append((x.elt, x))
    dead_ok = bool(emitted)
    for val, comp in emitted:
        names = {val.id} if isinstance(val, ast.Name) else set()
        texts = {src(val)}
        if isinstance(val, ast.Name):
            texts |= {src(a.value) for a in walk_local(f.node) if isinstance(a, ast.Assign) and len(a.targets) == 1 and isinstance(a.targets[0], ast.Name) and a.targets[0].id == val.id}
        conds = [i for g in comp.generators for i in g.ifs] if comp is not None else [t.test for t in walk_local(f.node) if isinstance(t, ast.If) and any(y is val for b in t.body for y in ast.walk(b))]
        ok = False
        for cnd in conds:
            for cmp_ in [y for y in ast.walk(cnd) if isinstance(y, ast.Compare) and len(y.ops) == 1 and isinstance(y.ops[0], ast.IsNot) and isinstance(y.comparators[0], ast.Constant) and y.comparators[0].value is None]:
                if src(cmp_.left) in texts or (isinstance(cmp_.left, ast.Name) and cmp_.left.id in names):
                    ok = True
        dead_ok = dead_ok and ok
    r.check(dead_ok, "SymbolGraph.get_instances_of_type#dead-skipped", site(f), "; ".join(src(v)[:40] for v, _ in emitted), "a wrapper whose instance is gone is skipped",
            "the referent of a wrapper is handed out without a test for None: an instance that dies while a domain-less variable is being enumerated shows up as None in its range")
    return r


def sg_sweep(prog: Program, census_only: bool = False) -> RuleResult:
    """`census_only` (C13): the range of a domain-less variable is all the property is about.  When the enumeration itself leaves out
    wrappers whose instance is gone (SG-ENUM dead-skipped), the census is right whether or not a sweep ran first; the sweep obligations
    are then discharged by that fact.  C14 and C20 (what dead instances leave behind in the graph) need the sweep unconditionally."""
    r = RuleResult("SG-SWEEP", "dead instances are swept before the first result of a query", floor=2)
    skips_dead = False
    if census_only:
        skips_dead = all(o.ok for o in sg_enum(prog).obligations if o.key.endswith("#dead-skipped")) and any(o.key.endswith("#dead-skipped") for o in sg_enum(prog).obligations)
    rq = prog.cls("symbolic.ResultQuantifier")
    f = prog.method(rq.qual, "evaluate", inherited=False)
    cfg = CFG(f.node)
    sweep = [n for n in cfg.nodes if n.stmt is not None and n.kind == "stmt" and any(call_name(c) == "remove_dead_instances" for c in calls_in(n.stmt))]
    evals = [n for n in cfg.nodes if n.stmt is not None and n.kind in ("stmt", "for") and any(call_name(c) == "_evaluate__" for p in cfg._own_parts(n) for c in calls_in(p))]
    ok = bool(sweep) and bool(evals) and all(any(cfg.dominates(s.id, e.id) and s.id != e.id for s in sweep) for e in evals)
    r.check(ok or skips_dead, "ResultQuantifier.evaluate#sweep-first", site(f), src(sweep[0].stmt) if sweep else "",
            "sweep dominates the evaluation" if ok else "no sweep before the evaluation, but the enumeration skips wrappers whose instance is gone: the census is exact all the same",
            "the public evaluation entry does not sweep dead instances before evaluating")
    # other evaluate overrides must go through it
    for c in prog.subclasses(rq.qual, strict=True):
        g = c.methods.get("evaluate")
        if g is not None:
            r.check(any(is_super_call(x, "evaluate") for x in calls_in(g.node)), f"{c.name}.evaluate#via-base", site(g), "", "delegates to the sweeping base entry",
                    "override bypasses the sweeping entry point")
    sg = prog.cls(SG)
    rd = prog.method(sg.qual, "remove_dead_instances", inherited=False)
    # on the flow graph of the sweep: in the loop over the nodes of the instance graph, the branch on which the node's referent is gone
    # reaches remove_node before the next node is looked at - however the test is spelled (`if dead: remove`, `if alive: continue`)
    rcfg = CFG(rd.node)
    good = False
    for lp in [n for n in rcfg.nodes if n.kind == "for" and "_instance_graph" in src(n.stmt.iter) and "nodes" in src(n.stmt.iter)]:
        removes = {n.id for n in rcfg.nodes if n.stmt is not None and n.kind == "stmt" and lp.id in n.loops and any(call_name(c) == "remove_node" for c in calls_in(n.stmt))}
        tests = []
        for t in rcfg.nodes:
            if t.kind != "test" or lp.id not in t.loops or not isinstance(t.stmt, ast.If):
                continue
            tt = t.stmt.test
            if isinstance(tt, ast.Compare) and len(tt.ops) == 1 and isinstance(tt.ops[0], (ast.Is, ast.IsNot)) and src(tt.comparators[0]) == "None" and src(tt.left).endswith(".instance"):
                dead_when_true = isinstance(tt.ops[0], ast.Is)
                dead = [t.true_succ] if dead_when_true else [x for x in t.succ if x != t.true_succ]
                tests.append((t, [d for d in dead if d is not None]))
        for t, dead in tests:
            # the liveness test is the first thing the loop does, and its dead branch cannot get back to the loop head (or out) without removing
            first = any(t.id == x for x in lp.succ)
            through = bool(dead) and all(d in removes or (rcfg.path_avoiding(d, lp.id, removes) is None and rcfg.path_avoiding(d, rcfg.exit, removes) is None) for d in dead)
            if first and through and removes:
                good = True
    r.check(good or skips_dead, "SymbolGraph.remove_dead_instances#all-dead-nodes", site(rd), "",
            "every node whose referent is dead is removed" if good else "the sweep is incomplete, but the enumeration skips wrappers whose instance is gone: the census is exact all the same",
            "the sweep does not remove every graph node whose weak referent is dead")
    return r


def sg_evaltime(prog: Program) -> RuleResult:
    r = RuleResult("SG-EVALTIME", "the registry is read at evaluation time, not at variable construction", floor=1)
    sg = prog.cls(SG)
    lookup = prog.method(sg.qual, "get_instances_of_type", inherited=False)
    se = prog.cls("symbolic.SymbolicExpression")
    starts = []
    for c in prog.subclasses(se.qual):
        for nm in ("_evaluate__", "evaluate"):
            m = c.methods.get(nm)
            if m is not None:
                starts.append((m, c.qual))
    ev = {f.qual for f, _ in closure(prog, starts)}
    nsites = 0
    for f in sorted(prog.functions.values(), key=lambda x: x.qual):
        for c in calls_in(f.node):
            if call_name(c) == lookup.name and isinstance(c.func, ast.Attribute):
                nsites += 1
                r.check(
                    f.qual in ev, f"{f.short}#registry-read", site(f, c), src(c),
                    "read inside the evaluation closure",
                    f"{f.short} is not reachable from any evaluate()/_evaluate__: the registry is read once when the variable is built; the one-shot "
                    "stream is drained by the first evaluation and replayed from the variable's cache afterwards, so a re-evaluated query misses "
                    "instances created since and keeps dropped ones",
                )
    if nsites == 0:
        raise AnalysisError("SG-EVALTIME: no call site of the registry lookup found")
    r.note(f"evaluation closure: {len(ev)} functions")
    return r


def _domain_delivers_each_identity_once(prog) -> Optional[str]:
    """The range of a domain-less variable reaches the user through the caching iterator of the variable's domain. When that
    iterator hands out nothing but what it reads back from its identity-keyed cache (every pulled element is stored under its
    `id_` and no yield delivers the pulled element itself), an instance the registry enumerates twice is delivered once.
    Returns the site of that iterator, or None when a pulled element can reach the consumer directly."""
    from .c03 import _shared_sources, _cache_stores, _cache_fields, _yields_in
    from ..cfg import CFG

    found = None
    for c, fld, f0, s0, adv in _shared_sources(prog):
        for g, x in adv:
            if not g.is_generator or g.name != "__iter__":
                continue
            cfg = CFG(g.node)
            stores = _cache_stores(cfg, fld)
            keyed = [m for m in stores if isinstance(m.stmt, ast.Assign) and any(
                isinstance(t, ast.Subscript) and isinstance(t.slice, ast.Attribute) and t.slice.attr == "id_" for t in m.stmt.targets)]
            if not keyed or len(keyed) != len(stores):
                return None
            cache_fields = _cache_fields(stores)
            from_cache = set()
            for m in cfg.nodes:
                if m.stmt is None:
                    continue
                pairs = [(m.stmt.iter, m.stmt.target)] if m.kind == "for" else [(m.stmt.value, t) for t in m.stmt.targets] if isinstance(m.stmt, ast.Assign) else []
                for val, tgt in pairs:
                    if any(isinstance(z, ast.Attribute) and is_self_attr(z) and z.attr in cache_fields for z in ast.walk(val)):
                        from_cache |= {z.id for z in ast.walk(tgt) if isinstance(z, ast.Name)}
            pulled = x.target.id if isinstance(x, ast.For) and isinstance(x.target, ast.Name) else None
            xn = cfg.node_of(x)
            if pulled is None and xn is not None and isinstance(cfg.nodes[xn].stmt, ast.Assign) and len(cfg.nodes[xn].stmt.targets) == 1 and isinstance(cfg.nodes[xn].stmt.targets[0], ast.Name):
                pulled = cfg.nodes[xn].stmt.targets[0].id
            if pulled is None or pulled in from_cache and not isinstance(x, ast.For):
                # the local of the pulled element is also a loop variable over the cache: a yield of it is only a replay when the
                # cache loop redefines it first - decided by reachability below
                pass
            for m in cfg.nodes:
                if m.stmt is None or m.kind != "stmt":
                    continue
                for p in cfg._own_parts(m):
                    for y in _yields_in(p):
                        if y.value is None:
                            continue
                        names = {z.id for z in ast.walk(y.value) if isinstance(z, ast.Name)}
                        reads_cache = any(isinstance(z, ast.Attribute) and is_self_attr(z) and z.attr in cache_fields for z in ast.walk(y.value))
                        if not (reads_cache or names & from_cache):
                            return None
                        # a yield of the pulled element itself: reachable from the pull without passing a redefinition by a cache loop
                        if pulled in names and xn is not None:
                            redefs = {k.id for k in cfg.nodes if k.id != xn and k.stmt is not None and k.kind == "for" and any(
                                isinstance(z, ast.Name) and z.id == pulled for z in ast.walk(k.stmt.target))}
                            if cfg.path_avoiding(xn, m.id, redefs) is not None:
                                return None
            found = site(g)
    return found


def _idkey(prog):
    # 'each once': an index entry lost to a recycled id makes the next ensure_wrapped_instance register the instance a second time.
    # That reaches the range of a variable only if the domain iterator can deliver one identity twice.
    from .c14 import idkey

    where = _domain_delivers_each_identity_once(prog)
    if where is not None:
        r = RuleResult("IDKEY", "an instance registered twice cannot appear twice in the range", floor=1)
        r.ok("HashedIterable.__iter__#each-identity-once", where, "", "the domain iterator delivers only what it reads back from its identity-keyed cache: an instance the registry "
             "enumerates twice is delivered once (the id()-keyed index is C14 / C20's obligation, where a lost entry misplaces relations and leaks)")
        return r
    return idkey(prog)


def sg_singleton(prog: Program) -> RuleResult:
    """The registry of live instances *is* the graph object every Symbol.__new__, let() and evaluate() reach through SymbolGraph(). While a
    graph exists, calling the class hands that graph back, whatever arguments the call carries; only clear() makes room for a new one.
    A construction path that replaces an existing graph forgets every instance that was registered with it - instances that never died."""
    from ..dtable import explore, Sym, App, term

    r = RuleResult("SG-SINGLETON", "an existing singleton instance is handed back, never replaced", floor=1)
    sm = prog.cls("singleton.SingletonMeta")
    f = prog.lookup(sm.qual, "__call__")
    if f is None:
        raise AnalysisError("SG-SINGLETON: SingletonMeta.__call__ vanished")
    paths = explore(prog, f, [Sym(p) for p in f.params] + [Sym("args"), Sym("kwargs")][: max(0, 3 - len(f.params))], max_paths=200)
    exists = [(v, o, c) for v, o, c in paths if any(k[0] == "in" and "_instances" in str(k[2]) and val is True for k, val in v.items())]
    if not exists:
        raise AnalysisError("SG-SINGLETON: no path of SingletonMeta.__call__ on which an instance is registered already")
    bad = None
    for v, o, calls in exists:
        stores = [x for x in calls if isinstance(x, App) and x.fn in ("setitem", "delitem") and "_instances" in term(x.args[0])]
        creates = [x for x in calls if isinstance(x, App) and x.fn.endswith("__call__")]
        if stores or creates:
            bad = bad or (v, stores or creates)
    r.check(bad is None, "SingletonMeta.__call__#existing-instance-is-kept", site(f), f"{len(exists)} path(s) with a registered instance", "nothing is created or stored while an instance is registered",
            f"on the path {dict(bad[0]) if bad else ''} an instance is created / stored although one is registered ({term(bad[1][0])[:60] if bad else ''}): SymbolGraph(<anything>) replaces the graph and "
            "with it the registry of live instances - every let(T, None) afterwards misses the instances created before")
    # ... and there is one table of instances for the process: what is registered with the singleton anywhere (an instance created on a
    # worker thread, a serialiser registered when a module is imported) is found through it everywhere
    tables = sorted({a.attr for x in walk_local(f.node) for a in ast.walk(x) if isinstance(a, ast.Attribute) and isinstance(a.value, ast.Name) and a.value.id == f.params[0]
                     and any(isinstance(y, ast.Compare) and any(isinstance(o, (ast.In, ast.NotIn)) for o in y.ops) and a in ast.walk(y) for y in walk_local(f.node))})
    if not tables:
        raise AnalysisError("SG-SINGLETON: SingletonMeta.__call__ no longer tests a table of instances on the class")
    for tname in tables:
        fi = sm.attrs.get(tname)
        why = None
        if tname in sm.methods or tname in sm.setters:
            why = f"`{tname}` is computed by a method / property of the metaclass"
        elif fi is None or fi.value is None:
            why = f"`{tname}` is not a class-level attribute with a value"
        else:
            v = fi.value
            plain = (isinstance(v, ast.Dict) and not v.keys) or (isinstance(v, ast.Call) and isinstance(v.func, ast.Name) and v.func.id in ("dict", "OrderedDict") and not v.args and not v.keywords)
            if not plain:
                why = f"`{tname} = {src(v)[:50]}` is not a plain dictionary"
        r.check(why is None, f"SingletonMeta.{tname}#one-table-per-process", sm.loc if fi is None else f"{sm.module.relpath}:{fi.stmt.lineno}", src(fi.stmt)[:80] if fi is not None else tname,
                "the instances are kept in one dictionary created with the metaclass",
                f"{why}: the table a caller sees can differ from the one the instance was registered in (per thread, per context) - the serialisers registered at import time are "
                f"unknown on a worker thread (to_json(uuid) raises there), instances created on one thread are missing from let(T, domain=None) on another")
    return r


def domain_given(prog: Program) -> RuleResult:
    """let(T, domain) with a domain - any iterable, an empty one included - ranges over that domain; only `domain=None` means "every live
    instance of T".  On every path through the function that turns (domain, type) into the variable's source, the symbol graph is consulted
    exactly when `domain is None` was established, and otherwise the source is made from the domain given."""
    from ..dtable import explore, Sym, term

    r = RuleResult("DOMAIN-GIVEN", "a domain that is given is the domain; the symbol graph stands in for None only", floor=2)
    fs = [f for f in prog.functions.values() if f.cls is None and f.module.name.endswith("entity_query_language.entity")
          and any(call_name(c) == "get_instances_of_type" for c in calls_in(f.node))]
    if not fs:
        raise AnalysisError("DOMAIN-GIVEN: no function of entity.py reads the instances of a type from the symbol graph")
    for f in fs:
        dom = [p for p in f.params if "domain" in p]
        if not dom:
            raise AnalysisError(f"DOMAIN-GIVEN: {f.short} has no domain parameter")
        d = dom[0]
        paths = explore(prog, f, [Sym(p) for p in f.params], max_paths=400)
        bad_graph = bad_given = None
        n_graph = n_given = 0
        for v, o, calls in paths:
            is_none = None
            for k, val in v.items():
                if isinstance(k, tuple) and len(k) == 3 and k[0] in ("is", "eq") and {x if isinstance(x, str) else term(x) for x in k[1:]} == {d, "None"}:
                    is_none = val
            graph = any("get_instances_of_type" in term(c) for c in calls)
            if graph:
                n_graph += 1
                if is_none is not True:
                    bad_graph = bad_graph or v
            elif is_none is not True:
                n_given += 1
                if d not in term(o):
                    bad_given = bad_given or (v, o)
        show = lambda v: {" ".join(term(x) if not isinstance(x, str) else x for x in k) if isinstance(k, tuple) else term(k): val for k, val in v.items()}
        r.check(n_graph > 0 and bad_graph is None, f"{f.short}#graph-for-none-only", site(f), f"{n_graph} path(s) read the symbol graph", f"each of them has established `{d} is None`",
                f"on the path {show(bad_graph) if bad_graph else ''} the instances are taken from the symbol graph although `{d} is None` was not established: an explicitly empty domain "
                f"(let(T, []), a filter that left nothing) ranges over every live instance of T - the(...) finds strangers, an(..., Exactly(0)) raises")
        r.check(n_given > 0 and bad_given is None, f"{f.short}#given-domain-is-the-source", site(f), f"{n_given} path(s) with a domain given", f"the source is made from `{d}`",
                f"on the path {show(bad_given[0]) if bad_given else ''} the source {term(bad_given[1])[:60] if bad_given else ''} is not made from the domain given")
    return r


def _hv_ident(prog):
    # 'each once', as itself: the wrapper every domain element travels in keeps the element and identifies it by identity
    from .c01 import hv_ident

    return hv_ident(prog)


def _stream_lazy(prog):
    # 'at evaluation time': the stream of instances the symbol graph hands to the variable is stored when the variable is declared and pulled
    # from when the query is evaluated - drained at declaration, instances created in between are missing
    from .c10 import stream_lazy

    return stream_lazy(prog)


def run(prog: Program, tier: str) -> List[RuleResult]:
    from .c03 import domain_cache, live_iter

    # the census reaches the variable through the caching iterator: an instance dropped from the cache is missing from the range
    return [guard(lambda: sg_register(prog)), guard(lambda: sg_enum(prog)), guard(lambda: sg_sweep(prog, census_only=True)), guard(lambda: sg_evaltime(prog)), guard(lambda: domain_cache(prog)),
            guard(lambda: user_truth(prog, ["entity_query_language.symbol_graph"], 3)), guard(lambda: _idkey(prog)),
            # the enumeration is consumed lazily: a sweep between two of its steps must not shift the list under it (a live instance skipped)
            guard(lambda: live_iter(prog)), guard(lambda: sg_singleton(prog)), guard(lambda: domain_given(prog)), guard(lambda: _stream_lazy(prog)), guard(lambda: _hv_ident(prog))]
