"""C15 - property-descriptor inference reaches the full closure in any assertion order.

PD-CLOSURE  the update rule is an instance of the fixpoint rule: every newly added edge triggers
            the super, inverse and both transitive inferences, and every inferred edge goes
            through the same procedure and is written back to the source field
PD-OWNER    the field handed to an inferred relation belongs to the class of the instance handed
            as its source
PD-SUPERS   the predicate that selects the fields of super-properties accepts every proper ancestor of the
            descriptor class (evaluated over a model hierarchy), not only the direct bases
"""
from __future__ import annotations

import ast
from typing import Dict, List, Optional, Tuple

from ..model import Program, AnalysisError, FuncInfo, walk_local, dotted, parents_of
from ..report import RuleResult, guard
from .usertruth import user_truth
from ..astutil import src, site, calls_in, call_name, is_self_attr, is_super_call, kwarg, const_value
from ..callgraph import self_closure

EXPLANATION = (
    "Order independence is a paper induction over an abstract update rule: if every newly added edge (s,t,f) triggers (1) "
    "an edge for each super-property field of s or s's role taker, (2) the inverse edge on t or t's role taker, (3) for "
    "transitive f, (s,u) for every existing (t,u) and (p,t) for every existing (p,s), and every edge so produced goes "
    "through the same procedure, the edge set after any sequence of assertions is the least fixpoint. The checker "
    "discharges that the code is an instance of that rule: the three families are called on the newly-added path; each "
    "constructs relations of the same class, marked inferred, and sends them through add_to_graph (nothing in ontomatic "
    "adds a relation behind its back); the transitive family has both directions, each pairing the right end of the new "
    "edge with the right neighbourhood query; inferred edges are written back to the source field. PD-OWNER is the "
    "sibling cross-check that each (source instance, field) handed to an inferred relation comes from the same object."
)
ASSUMPTIONS = [
    "the closure itself (least fixpoint for arbitrary populations) follows from the update rule by induction; it is not computed",
    "SymbolGraph's neighbourhood queries return exactly the existing edges (C14 keeps the graph coherent)",
]

PDR = "property_descriptor_relation.PropertyDescriptorRelation"


def _relation_ctor_calls(f: FuncInfo) -> List[ast.Call]:
    """self.__class__(src, tgt, field, inferred=True).add_to_graph() -> the inner constructor call"""
    out = []
    for c in calls_in(f.node):
        if call_name(c) == "add_to_graph" and isinstance(c.func, ast.Attribute) and isinstance(c.func.value, ast.Call):
            inner = c.func.value
            if src(inner.func) in ("self.__class__", "type(self)"):
                out.append(inner)
    return out


def _prop_body_expr(prog: Program, cls, name: str) -> Optional[FuncInfo]:
    return prog.lookup(cls.qual, name)


def _update_summary(prog: Program, pdr, add: FuncInfo):
    """Symbolic summary of add_to_graph with the plain methods of the relation class inlined and every loop run once with a generic
    element: per consistent valuation of the tests, the derived edges (constructor arguments, flags, the iterable of the enclosing
    loop, whether the new relation is sent through add_to_graph) and the write-backs."""
    from ..dtable import explore, Sym

    def inline(q: str) -> bool:
        g = prog.functions.get(q)
        return g is not None and g.cls is not None and g.cls.qual == pdr.qual and not g.is_property and g is not add

    out = []
    for val, outcome, calls in explore(prog, add, [Sym("self")], self_type=pdr.qual, inline=inline, generic_loops=True):
        loops: List[str] = []
        edges, writes = [], []
        sent = {c.fn[: -len(".add_to_graph")] for c in calls if c.fn.endswith(".add_to_graph")}
        for c in calls:
            if c.fn == "for-begin":
                loops.append(repr(c.args[0]))
            elif c.fn == "for-end":
                loops.pop()
            elif c.fn in ("self.__class__", "type(self)"):
                kw = dict(getattr(c, "kwargs", ()) or ())
                edges.append(dict(args=tuple(repr(a_) for a_ in c.args), inferred=kw.get("inferred"), loop=loops[-1] if loops else None, sent=repr(c) in sent))
            elif c.fn.endswith(".update_value"):
                writes.append((c.fn, tuple(repr(a_) for a_ in c.args)))
        out.append((val, outcome, edges, writes))
    return out


def _judge(problems: Dict[str, str], label: str, edges, kinds, writes, inv, tra, inf):
    want = {"super"}
    if inv:
        want.add("inverse")
    if tra:
        want |= {"transitive-out", "transitive-in"}
    for k in ("super", "inverse"):
        if k in want and k not in kinds:
            problems.setdefault(f"calls-{k}", f"[{label}] no {k} edge is derived")
    if "transitive-out" in want and "transitive-out" not in kinds:
        problems.setdefault("outgoing", f"[{label}] (s,t)+(t,u) => (s,u) is not derived: edges {[e['args'] for e in edges]}")
    if "transitive-in" in want and "transitive-in" not in kinds:
        problems.setdefault("incoming", f"[{label}] (p,s)+(s,t) => (p,t) is not derived: edges {[e['args'] for e in edges]}")
    for k in set(kinds) - want - {"other"}:
        problems.setdefault("guard", f"[{label}] a {k} edge is derived although its condition does not hold")
    for e, k in zip(edges, kinds):
        if k == "other":
            problems.setdefault("shape", f"[{label}] an edge {e['args']} (loop {e['loop']}) that is none of super / inverse / transitive is derived")
        if e["inferred"] is not True:
            problems.setdefault("inferred-flag", f"[{label}] derived edge {e['args']} is not marked inferred")
        if not e["sent"]:
            problems.setdefault("sent", f"[{label}] derived edge {e['args']} is not sent through add_to_graph")
    wb = [w for w in writes if w[0] == "self.wrapped_field.property_descriptor.update_value" and w[1] == ("self.source.instance", "self.target.instance")]
    if inf and not wb:
        problems.setdefault("write-back", f"[{label}] an inferred edge is not written back into the source's field ({writes})")
    if any(w not in wb for w in writes):
        problems.setdefault("write-back-args", f"[{label}] write-back {writes} is not (source instance, target instance) through the relation's own descriptor")


def pd_closure(prog: Program) -> RuleResult:
    r = RuleResult("PD-CLOSURE", "the incremental update is an instance of the fixpoint rule", floor=10)
    pdr = prog.cls(PDR)
    add = prog.method(pdr.qual, "add_to_graph", inherited=False)
    summary = _update_summary(prog, pdr, add)
    gate_atoms = [a_ for val, *_ in summary for a_ in val if a_[0] == "truth" and "add_to_graph" in a_[1]]
    gate = gate_atoms[0] if gate_atoms else None
    T = lambda val, name: val.get(("truth", name))

    # which neighbourhood does a property range over?  property name -> ("out"|"in", anchor expression)
    def neighbourhood(prop: str):
        qf = prog.lookup(pdr.qual, prop)
        if qf is None:
            return None
        for cc in calls_in(qf.node):
            if call_name(cc) in ("get_outgoing_relations_with_condition", "get_incoming_relations_with_condition") and cc.args:
                return ("out" if "outgoing" in call_name(cc) else "in", src(cc.args[0]))
        return None

    def classify(e):
        """super / inverse / transitive-out / transitive-in / other, from the symbolic arguments"""
        a0, a1, a2 = e["args"]
        lp = e["loop"]
        if lp == "self.super_relations" and a0 == f"item(elem({lp}), 0)" and a1 == "self.target" and a2 == f"item(elem({lp}), 1)":
            return "super"
        if lp is None and a1 == "self.source" and a0 == "item(self.inverse_domain_and_field, 0)" and a2 == "item(self.inverse_domain_and_field, 1)":
            return "inverse"
        if lp is not None and lp.startswith("self."):
            nb = neighbourhood(lp[len("self."):])
            if nb == ("out", "self.target") and a0 == "self.source" and a1 == f"elem({lp}).target" and a2 == "self.wrapped_field":
                return "transitive-out"
            if nb == ("in", "self.source") and a0 == f"elem({lp}).source" and a1 == "self.target" and a2 == f"elem({lp}).wrapped_field":
                return "transitive-in"
        return "other"

    problems: Dict[str, str] = {}
    seen_kinds = set()
    for val, outcome, edges, writes in summary:
        newly = T(val, gate[1]) if gate is not None else True
        kinds = [classify(e) for e in edges]
        seen_kinds |= set(kinds)
        label = ", ".join(f"{k[1]}={v}" for k, v in sorted(val.items()))
        if not newly:
            if edges or writes:
                problems.setdefault("gate", f"[{label}] inference or write-back runs although the edge was already known")
            continue
        # a test the path never consulted may go either way: the path has to be right for both completions
        for inv in ([T(val, "self.inverse_of")] if T(val, "self.inverse_of") is not None else [True, False]):
            for tra in ([T(val, "self.transitive")] if T(val, "self.transitive") is not None else [True, False]):
                for inf in ([T(val, "self.inferred")] if T(val, "self.inferred") is not None else [True, False]):
                    _judge(problems, label + ("" if (inv, tra, inf) == (T(val, "self.inverse_of"), T(val, "self.transitive"), T(val, "self.inferred")) else f" / completed: inverse_of={inv}, transitive={tra}, inferred={inf}"),
                           edges, kinds, writes, inv, tra, inf)
    if gate is None:
        problems.setdefault("gate", "add_to_graph does not branch on the verdict of the base class's add_to_graph (newly added or already known)")
    n_paths = len(summary)
    site_add = site(add)
    spec = [
        ("PropertyDescriptorRelation.add_to_graph#calls-super", "calls-super", "super inference runs for every newly added edge", "facts derivable through the super-property are missing"),
        ("PropertyDescriptorRelation.add_to_graph#calls-inverse", "calls-inverse", "inverse inference runs whenever the descriptor declares an inverse", "facts derivable through the inverse are missing"),
        ("PropertyDescriptorRelation.add_to_graph#calls-transitive", None, "transitive inference runs for transitive descriptors", ""),
        ("PropertyDescriptorRelation.infer_transitive#outgoing", "outgoing", "(s,t)+(t,u) => (s,u): outgoing edges of the target paired with self.source", "chains asserted root-to-leaf are not closed"),
        ("PropertyDescriptorRelation.infer_transitive#incoming", "incoming", "(p,s)+(s,t) => (p,t): incoming edges of the source paired with self.target", "chains asserted leaf-to-root are not closed"),
        ("PropertyDescriptorRelation.add_to_graph#guards", "guard", "each family runs exactly under its condition (inverse declared / transitive descriptor)", "an inference family runs outside its condition"),
        ("PropertyDescriptorRelation.add_to_graph#newly-added-gate", "gate", "nothing is inferred for an edge that was already known", "the procedure re-runs on known edges"),
        ("PropertyDescriptorRelation.add_to_graph#edge-shapes", "shape", "every derived edge is a super, inverse or transitive consequence", "an edge outside the update rule is derived"),
        ("PropertyDescriptorRelation.add_to_graph#inferred-flag", "inferred-flag", "derived edges are marked inferred", "a derived edge is not marked inferred (it would be held strongly / not written back)"),
        ("PropertyDescriptorRelation.add_to_graph#same-procedure", "sent", "every derived edge goes through the same procedure", "a derived edge is constructed but not sent through add_to_graph"),
        ("PropertyDescriptorRelation.add_to_graph#write-back", "write-back", "inferred edges are written back to the source's field", "field values and graph disagree"),
        ("PropertyDescriptorRelation.update_source_wrapped_field_value#args", "write-back-args", "writes target into source's field through the field's descriptor", "the write-back stores the wrong pair"),
    ]
    for key, pk, good, badtail in spec:
        if pk is None:
            ok = "outgoing" not in problems and "incoming" not in problems and {"transitive-out", "transitive-in"} <= seen_kinds
            r.check(ok, key, site_add, f"{n_paths} paths", good, "the transitive inference does not run for a transitive descriptor")
            continue
        r.check(pk not in problems, key, site_add, f"{n_paths} paths of the update procedure", good, f"{problems.get(pk, '')}: {badtail}")
    # the summary runs each loop once with a generic element: that stands for every element only if no round can end the loop
    fs, _ = self_closure(prog, pdr.qual, add, False)
    n_loops = 0
    for g in sorted([g for g in fs if g.cls is not None and g.cls.qual == pdr.qual], key=lambda x: x.qual):
        for lp in [x for x in walk_local(g.node) if isinstance(x, (ast.For, ast.While))]:
            derives = any((isinstance(cc.func, ast.Attribute) and src(cc.func) == "self.__class__") or (isinstance(cc.func, ast.Call) and src(cc.func) == "type(self)")
                          or (isinstance(cc.func, ast.Name) and cc.func.id == pdr.name) for cc in calls_in(lp))
            if not derives:
                continue
            n_loops += 1
            exits = []
            todo = list(lp.body)
            while todo:
                x = todo.pop()
                if isinstance(x, (ast.FunctionDef, ast.AsyncFunctionDef, ast.Lambda, ast.For, ast.While)):
                    # a nested loop's break leaves the nested loop only; its return is found below
                    exits += [y for y in ast.walk(x) if isinstance(y, ast.Return)] if isinstance(x, (ast.For, ast.While)) else []
                    continue
                if isinstance(x, (ast.Break, ast.Return)):
                    exits.append(x)
                todo += list(ast.iter_child_nodes(x))
            r.check(not exits, f"PropertyDescriptorRelation.{g.name}#every-element", site(g, exits[0]) if exits else site(g, lp), src(lp.iter)[:80] if isinstance(lp, ast.For) else "while",
                    "the inference loop runs for every element", f"the loop over {src(lp.iter) if isinstance(lp, ast.For) else 'the condition'} can end early ({type(exits[0]).__name__.lower() if exits else ''} at line "
                    f"{exits[0].lineno if exits else 0}): the consequences of the remaining elements are never derived - e.g. when a super relation is already known through another path, "
                    "the further super properties of this relation are skipped")
    r.note(f"{n_loops} edge-deriving loops in the update procedure (a missing family is reported by the calls-* / outgoing / incoming obligations)")
    # who-may-call: nothing in ontomatic adds relations behind the procedure's back
    offenders = []
    for f in prog.functions.values():
        if ".ontomatic." not in f.qual:
            continue
        for c in calls_in(f.node):
            if call_name(c) == "add_relation" and "SymbolGraph" in src(c.func):
                offenders.append((f, c))
            if is_super_call(c, "add_to_graph") and not (f.cls is not None and f.cls.qual == pdr.qual and f.name == "add_to_graph"):
                offenders.append((f, c))
    r.check(not offenders, "ontomatic#no-direct-add", site(offenders[0][0], offenders[0][1]) if offenders else pdr.loc, src(offenders[0][1]) if offenders else "",
            "all derived edges go through PropertyDescriptorRelation.add_to_graph", "a relation is added to the graph without running the inference procedure on it")
    # same-descriptor filter on both neighbourhood queries
    for qn in sorted({e["loop"][len("self."):] for _v, _o, edges, _w in summary for e in edges if e["loop"] and e["loop"].startswith("self.") and neighbourhood(e["loop"][len("self."):])}):
        qf = prog.lookup(pdr.qual, qn)
        lam = [n for n in walk_local(qf.node) if isinstance(n, ast.Lambda)]
        ok = False
        if len(lam) == 1 and isinstance(lam[0].body, ast.Compare) and len(lam[0].body.ops) == 1 and isinstance(lam[0].body.ops[0], (ast.Is, ast.Eq)):
            sides = {src(lam[0].body.left), src(lam[0].body.comparators[0])}
            arg = lam[0].args.args[0].arg
            ok = sides == {f"{arg}.property_descriptor_cls", "self.property_descriptor_cls"}
        r.check(ok, f"PropertyDescriptorRelation.{qn}#same-property", site(qf), src(lam[0]) if lam else "", "only edges of the same property are chained",
                "the neighbourhood is not filtered to edges of the same descriptor class")
    srel = prog.lookup(pdr.qual, "super_relations")
    if srel is not None:
        ys = [src(n.value) for n in walk_local(srel.node) if isinstance(n, ast.YieldFrom)]
        r.check("self.direct_super_relations" in ys and "self.role_taker_super_relations" in ys, "PropertyDescriptorRelation.super_relations#both-sources", site(srel), str(ys),
                "super properties of the source and of its role taker", "super relations omit the source's own or its role taker's super-property fields")
    return r


def pd_owner(prog: Program) -> RuleResult:
    """Works on the same symbolic summary as PD-CLOSURE: for every derived edge, the term of its source instance and the term of
    its field must come from one object (x.source with x.wrapped_field) or from one (instance, field) pair whose producer looks the
    field up on the class of that instance."""
    import re

    r = RuleResult("PD-OWNER", "the field of an inferred relation belongs to the class of its source instance", floor=4)
    pdr = prog.cls(PDR)
    add = prog.method(pdr.qual, "add_to_graph", inherited=False)
    seen = {}
    for val, outcome, edges, writes in _update_summary(prog, pdr, add):
        for e in edges:
            seen.setdefault(e["args"], e)
    for args, e in sorted(seen.items()):
        a0, a1, a2 = args
        where = f"loop over {e['loop']}" if e["loop"] else "no loop"
        key = f"derived-edge({a0}, {a1}, {a2})#source-field"
        m0 = re.fullmatch(r"(.*)\.(source|target)", a0)
        m2 = re.fullmatch(r"(.*)\.wrapped_field", a2)
        if m0 and m2:
            same = m0.group(1) == m2.group(1) and m0.group(2) == "source"
            r.check(
                same, key, site(add), f"{args} ({where})",
                f"{a2} is the field of {a0}'s own relation",
                f"the derived edge starts at {a0} but carries {a2}, the field of {m2.group(1)}.source's class: with one descriptor on two classes "
                f"the write-back looks up a field the source does not have (AttributeError) or updates the wrong field, depending on assertion order",
            )
            continue
        p0 = re.fullmatch(r"item\((.*), 0\)", a0)
        p2 = re.fullmatch(r"item\((.*), 1\)", a2)
        if p0 and p2 and p0.group(1) == p2.group(1):
            x = p0.group(1)
            me = re.fullmatch(r"elem\((self\.\w+)\)", x)
            prod = me.group(1) if me else x
            if re.fullmatch(r"self\.\w+", prod):
                ok = _pairs_consistent(prog, pdr, ast.parse(prod, mode="eval").body)
                r.check(ok is True, key, site(add), f"{args} ({where})", "domain and field are produced together from the same class",
                        f"(domain, field) pairs of {prod} are not produced from one class: {ok}")
                continue
        r.fail(key, site(add), f"{args} ({where})", "cannot relate the source instance of this derived edge to the owner of its field")
    return r


# instance expression -> the expression of its class that a field lookup must be made on
_CLASS_OF = {
    "self.source": {"self.source.instance_type"},
    "self.target": {"self.target.instance_type"},
    "self.target_role_taker": {"self.target_role_taker_association.target"},
}


def _class_exprs_of(inst: ast.expr, fn_node) -> Optional[set]:
    """class expressions a field for this instance expression may be looked up on"""
    t = src(inst)
    if t in _CLASS_OF:
        return _CLASS_OF[t]
    if isinstance(inst, ast.Name):
        # a local: the object reached through an association of the relation (getattr(<instance>, self.X_association.field...))
        # belongs to that association's target class
        seen, todo, out = set(), [inst.id], set()
        while todo:
            nme = todo.pop()
            if nme in seen:
                continue
            seen.add(nme)
            for n in ast.walk(fn_node):
                if isinstance(n, ast.Assign) and any(isinstance(tg, ast.Name) and tg.id == nme for tg in n.targets):
                    for x in ast.walk(n.value):
                        if isinstance(x, ast.Attribute) and isinstance(x.value, ast.Name) and x.value.id == "self" and x.attr.endswith("_association"):
                            out.add(f"self.{x.attr}.target")
                        if isinstance(x, ast.Name) and x.id != nme:
                            todo.append(x.id)
        return out or None
    return None


def _field_origin(prog: Program, pdr, e: ast.expr, depth=0):
    """class expression a field-valued expression was looked up on"""
    if depth > 4:
        return None
    if isinstance(e, ast.Attribute) and is_self_attr(e):
        f = prog.lookup(pdr.qual, e.attr)
        if f is not None and f.is_property:
            rets = [n.value for n in walk_local(f.node) if isinstance(n, ast.Return) and n.value is not None]
            outs = {_field_origin(prog, pdr, v, depth + 1) for v in rets if not (isinstance(v, ast.Constant) or src(v) in ("[]", "None"))}
            outs.discard(None)
            return next(iter(outs)) if len(outs) == 1 else None
    for c in [x for x in ast.walk(e) if isinstance(x, ast.Call)]:
        if call_name(c) in ("get_fields_of_superproperties", "get_associated_field_of_domain_type") and c.args:
            return src(c.args[0])
    return None


def _pairs_consistent(prog: Program, pdr, e: ast.expr, depth=0):
    """True, or a description of the inconsistency"""
    if depth > 4:
        return "too deep"
    if isinstance(e, ast.Attribute) and is_self_attr(e):
        f = prog.lookup(pdr.qual, e.attr)
        if f is None:
            return f"unknown property {e.attr}"
        problems = []
        local = {}
        for n in walk_local(f.node):
            if isinstance(n, ast.Assign) and isinstance(n.targets[0], ast.Name):
                local[n.targets[0].id] = n.value
        for n in walk_local(f.node):
            if isinstance(n, ast.YieldFrom):
                res = _pairs_consistent(prog, pdr, n.value, depth + 1) if not isinstance(n.value, ast.GeneratorExp) else _gen_pair(prog, pdr, f, n.value, local)
                if res is not True:
                    problems.append(res)
            if isinstance(n, ast.Return) and isinstance(n.value, ast.Tuple) and len(n.value.elts) == 2:
                inst, fld = n.value.elts
                org = _field_origin(prog, pdr, fld)
                if org in local:
                    org = src(local[org])
                want = _class_exprs_of(inst, f.node)
                if want is None or org not in want:
                    problems.append(f"{src(inst)} paired with a field looked up on {org}")
        return True if not problems else "; ".join(map(str, problems))
    return f"unsupported pair source {src(e)}"


def _gen_pair(prog, pdr, f, g: ast.GeneratorExp, local):
    if not (isinstance(g.elt, ast.Tuple) and len(g.elt.elts) == 2):
        return f"generator in {f.short} does not yield pairs"
    inst = src(g.elt.elts[0])
    it = g.generators[0].iter
    org = _field_origin(prog, pdr, it)
    if org in local:
        org = src(local[org])
    want = _class_exprs_of(g.elt.elts[0], f.node)
    if want is None:
        return f"unknown instance expression {inst}"
    if org not in want:
        return f"{inst} paired with fields looked up on {org}"
    return True


class _Opaque:
    """the association handed to the predicate: every attribute chain on it is opaque, type() of it is the model class T"""


def _model_eval(e: ast.expr, env: Dict[str, object], T: type):
    def ev(x):
        if isinstance(x, ast.Constant):
            return x.value
        if isinstance(x, ast.Name):
            if x.id in env:
                return env[x.id]
            if x.id in ("object", "type"):
                return {"object": object, "type": type}[x.id]
            raise AnalysisError(f"PD-SUPERS: free name {x.id} in the super-property predicate")
        if isinstance(x, ast.Attribute):
            b = ev(x.value)
            if isinstance(b, _Opaque):
                return b
            if isinstance(b, type) and x.attr in ("__bases__", "__mro__", "__name__", "__qualname__", "__base__"):
                return getattr(b, x.attr)
            raise AnalysisError(f"PD-SUPERS: attribute {x.attr} is outside the model")
        if isinstance(x, ast.Call):
            if isinstance(x.func, ast.Name) and x.func.id == "type" and len(x.args) == 1:
                a = ev(x.args[0])
                return T if isinstance(a, _Opaque) else type(a)
            if isinstance(x.func, ast.Name) and x.func.id == "issubclass" and len(x.args) == 2:
                return issubclass(ev(x.args[0]), ev(x.args[1]))
            if isinstance(x.func, ast.Name) and x.func.id == "isinstance" and len(x.args) == 2:
                a = ev(x.args[0])
                k = ev(x.args[1])
                return issubclass(T, k) if isinstance(a, _Opaque) else isinstance(a, k)
            if isinstance(x.func, ast.Attribute) and x.func.attr == "mro" and not x.args:
                return ev(x.func.value).mro()
            if isinstance(x.func, ast.Name) and x.func.id in ("any", "all") and len(x.args) == 1 and isinstance(x.args[0], ast.GeneratorExp) and len(x.args[0].generators) == 1:
                g = x.args[0].generators[0]
                vals = []
                for item in ev(g.iter):
                    env2 = dict(env)
                    if not isinstance(g.target, ast.Name):
                        raise AnalysisError("PD-SUPERS: tuple target in the predicate")
                    env2[g.target.id] = item
                    if all(_model_eval(c, env2, T) for c in g.ifs):
                        vals.append(_model_eval(x.args[0].elt, env2, T))
                return any(vals) if x.func.id == "any" else all(vals)
            raise AnalysisError(f"PD-SUPERS: call {src(x)[:60]} is outside the model")
        if isinstance(x, ast.Subscript):
            b = ev(x.value)
            if isinstance(x.slice, ast.Slice):
                lo = ev(x.slice.lower) if x.slice.lower is not None else None
                hi = ev(x.slice.upper) if x.slice.upper is not None else None
                return b[lo:hi]
            return b[ev(x.slice)]
        if isinstance(x, ast.UnaryOp) and isinstance(x.op, ast.USub):
            return -ev(x.operand)
        if isinstance(x, ast.UnaryOp) and isinstance(x.op, ast.Not):
            return not ev(x.operand)
        if isinstance(x, ast.BoolOp):
            if isinstance(x.op, ast.And):
                return all(ev(v) for v in x.values)
            return any(ev(v) for v in x.values)
        if isinstance(x, ast.Compare):
            left = ev(x.left)
            for op, c in zip(x.ops, x.comparators):
                right = ev(c)
                ok = {ast.Is: lambda a, b: a is b, ast.IsNot: lambda a, b: a is not b, ast.Eq: lambda a, b: a == b, ast.NotEq: lambda a, b: a != b,
                      ast.In: lambda a, b: a in b, ast.NotIn: lambda a, b: a not in b}.get(type(op))
                if ok is None:
                    raise AnalysisError("PD-SUPERS: comparison outside the model")
                if not ok(left, right):
                    return False
                left = right
            return True
        if isinstance(x, (ast.Tuple, ast.List)):
            return tuple(ev(v) for v in x.elts)
        raise AnalysisError(f"PD-SUPERS: {type(x).__name__} is outside the model")

    return ev(e)


def pd_supers(prog: Program) -> RuleResult:
    r = RuleResult("PD-SUPERS", "the fields of super-properties are those of every proper ancestor of the descriptor class", floor=3)
    pd = prog.cls("property_descriptor.PropertyDescriptor")
    f = prog.method(pd.qual, "get_fields_of_superproperties", inherited=False)
    if f is None:
        raise AnalysisError("PD-SUPERS: PropertyDescriptor.get_fields_of_superproperties vanished")
    preds = [n for n in ast.walk(f.node) if isinstance(n, (ast.FunctionDef, ast.Lambda)) and n is not f.node]
    if len(preds) != 1:
        raise AnalysisError(f"PD-SUPERS: expected one selecting predicate in get_fields_of_superproperties, found {len(preds)}")
    p = preds[0]
    pre: List[ast.Assign] = []
    if isinstance(p, ast.Lambda):
        body, params = p.body, [a.arg for a in p.args.args]
    else:
        stmts = [st for st in p.body if not (isinstance(st, ast.Expr) and isinstance(st.value, ast.Constant))]
        if not stmts or not isinstance(stmts[-1], ast.Return) or stmts[-1].value is None or \
                not all(isinstance(st, ast.Assign) and len(st.targets) == 1 and isinstance(st.targets[0], ast.Name) for st in stmts[:-1]):
            raise AnalysisError("PD-SUPERS: the selecting predicate is no longer straight-line assignments followed by one returned expression")
        pre = stmts[:-1]
        body, params = stmts[-1].value, [a.arg for a in p.args.args]
    # model: Root <- Mid <- Leaf, and an unrelated property Other; the descriptor class asking is Leaf
    Base = type("PropertyDescriptorModel", (), {})
    Root = type("Root", (Base,), {})
    Mid = type("Mid", (Root,), {})
    Leaf = type("Leaf", (Mid,), {})
    Other = type("Other", (Base,), {})
    clsname = f.params[0]
    expect = {"Mid (direct base)": (Mid, True), "Root (ancestor two levels up)": (Root, True), "Other (unrelated property)": (Other, False)}
    for label, (T, want) in expect.items():
        env = {clsname: Leaf, params[0]: _Opaque(), "PropertyDescriptor": Base}
        for st in pre:
            env[st.targets[0].id] = _model_eval(st.value, env, T)
        got = bool(_model_eval(body, env, T))
        r.check(got == want, f"PropertyDescriptor.get_fields_of_superproperties#{label.split(' ')[0].lower()}", site(f, p), src(body)[:120],
                f"a field whose descriptor is {label} is {'selected' if want else 'not selected'}",
                f"for the hierarchy Root <- Mid <- Leaf the predicate {'rejects' if want else 'accepts'} a field whose descriptor is {label}: "
                + ("when the holder has no field for an intermediate level the super-property above the gap is never inferred" if want else "unrelated properties are inferred"))
    return r


def pd_replace(prog: Program) -> RuleResult:
    """Assignment to a collection field empties the live container first.  The relations of the elements that leave the field
    stay in the graph (there is no retraction), so the field has to be brought back in line with the graph - or the relations
    have to go."""
    from .c16 import _set_fn, PD as _PD, MC as _MC

    r = RuleResult("PD-REPLACE", "emptying a managed collection keeps field and graph in agreement", floor=1)
    f = _set_fn(prog)
    pd = prog.cls(_PD)
    clears = [c for c in calls_in(f.node) if call_name(c) in ("_clear", "clear") and isinstance(c.func, ast.Attribute)]
    if not clears:
        r.ok("PropertyDescriptor.__set__#clear-without-retraction", site(f), "", "the setter never empties a live container")
        return r
    seen, ext = self_closure(prog, pd.qual, f, False)
    reached = {g.name for g in seen}
    for g in list(seen):
        for c in calls_in(g.node):
            reached.add(call_name(c) or "")
    reconciles = sorted(n for n in reached if n.startswith(("remove_relation", "remove_edge", "retract", "get_outgoing_relations")))
    r.check(bool(reconciles), "PropertyDescriptor.__set__#clear-without-retraction", site(f, clears[0]), src(clears[0]),
            f"the setter reconciles with the graph through {reconciles}",
            "the setter empties the live container and re-adds the assigned values only; the relations of the elements that left stay in the graph and are never read back: "
            "after c.members.add(p) (which infers member_of(p, c)) the assignment p.member_of = [c2] leaves the field at [c2] while the graph keeps member_of(p, c) - in the other order the field is [c2, c]")
    return r


def pd_init(prog: Program) -> RuleResult:
    """A dataclass assigns its fields one by one in __init__.  Assigning a sub-property there infers into the super-property's field - which
    may be declared later and does not exist on the instance yet.  The write-back has to cope with a backing field that is not there."""
    from .c16 import PD as _PD

    r = RuleResult("PD-INIT", "inference reaches a field that the constructor has not assigned yet", floor=1)
    pd = prog.cls(_PD)
    f = prog.method(pd.qual, "update_value", inherited=False)
    if f is None:
        raise AnalysisError("PD-INIT: PropertyDescriptor.update_value vanished")
    reads = [c for c in calls_in(f.node) if isinstance(c.func, ast.Name) and c.func.id == "getattr" and len(c.args) >= 2 and "private_attr_name" in src(c.args[1])]
    if not reads:
        raise AnalysisError("PD-INIT: update_value no longer reads the backing field through getattr")
    guarded = all(len(c.args) == 3 for c in reads) or any(isinstance(c.func, ast.Name) and c.func.id == "hasattr" for c in calls_in(f.node)) or \
        any(isinstance(h.type, ast.Name) and h.type.id == "AttributeError" for t in walk_local(f.node) if isinstance(t, ast.Try) for h in t.handlers)
    r.check(guarded, "PropertyDescriptor.update_value#field-not-initialised-yet", site(f, reads[0]), src(reads[0]), "a backing field that does not exist yet is handled",
            "the backing field of the inferred relation's source is read with a two-argument getattr: Person(name='P', works_for=c) assigns works_for before member_of exists, the inferred "
            "member_of(P, c) is written back into a field that is not there and the constructor raises AttributeError")
    return r


def _mc_eq(prog):
    from .c16 import mc_eq

    return mc_eq(prog)


def pd_field(prog: Program) -> RuleResult:
    """A relation is identified by (source, target, field). The field of an *inferred* relation is looked up in the class diagram for the
    type of the instance - for an instance of a subclass that is the subclass's own wrapper of the inherited field, which is not equal to the
    wrapper the descriptor was declared with (WrappedField compares class and field). Asserted and inferred relations over the same managed
    field must meet in one identity: either the relation brings the field to the descriptor's own wrapper when it is built, or every
    construction site takes the field from a descriptor. Otherwise the inverse of the inverse of e.member_of.append(c) is 'new', is
    written back into the field, and the append that triggered it adds c a second time."""
    r = RuleResult("PD-FIELD", "relations over one managed field have one identity, whichever wrapper of the field they were built from", floor=1)
    rel = prog.cls("property_descriptor_relation.PropertyDescriptorRelation")
    pi = rel.methods.get("__post_init__")
    canon = False
    if pi is not None:
        for x in walk_local(pi.node):
            if isinstance(x, ast.Assign) and any(is_self_attr(t, "wrapped_field") for t in x.targets):
                v = x.value
                # <descriptor>.wrapped_field, the descriptor read from the field given (directly or through one local)
                if isinstance(v, ast.Attribute) and v.attr == "wrapped_field":
                    base = v.value
                    if isinstance(base, ast.Name):
                        defs = [y.value for y in walk_local(pi.node) if isinstance(y, ast.Assign) and any(isinstance(t, ast.Name) and t.id == base.id for t in y.targets)]
                        base = defs[0] if len(defs) == 1 else base
                    if "property_descriptor" in src(base):
                        canon = True
    sites = []
    for g in prog.functions.values():
        if ".property_descriptor." not in g.qual:
            continue
        for c in calls_in(g.node):
            nm = src(c.func)
            if nm in ("PropertyDescriptorRelation", "self.__class__", "type(self)") and len(c.args) >= 3 and (nm == "PropertyDescriptorRelation" or (g.cls is not None and prog.is_subclass(g.cls.qual, rel.qual))):
                sites.append((g, c))
    if not sites:
        raise AnalysisError("PD-FIELD: no construction site of PropertyDescriptorRelation found")
    loose = [(g, c) for g, c in sites if not (src(c.args[2]).endswith("self.wrapped_field") and g.cls is not None and not prog.is_subclass(g.cls.qual, rel.qual))]
    r.check(canon or not loose, "PropertyDescriptorRelation#field-identity", site(pi) if pi is not None else site(loose[0][0], loose[0][1]),
            f"{len(sites)} construction sites, {len(loose)} with a field looked up for the instance's type", "the relation is brought to the descriptor's own wrapper of the field when it is built",
            f"{len(loose)} construction site(s) (e.g. {src(loose[0][1])[:70] if loose else ''}) take the field from the class diagram's wrapper for the instance's type and nothing brings it to "
            "the descriptor's own wrapper: for an instance of a subclass the inferred inverse-of-inverse differs from the asserted relation, so Employee('e').member_of.append(c) "
            "leaves [c, c] in the field")
    return r


def _sg_purge(prog):
    # node indices are reused: a pair left in the relation index by a swept instance makes a new relation over the same indices look known,
    # and it is then neither recorded nor followed by its inferences
    from .c14 import sg_purge_directions

    return sg_purge_directions(prog)


def pd_first_assign(prog: Program) -> RuleResult:
    """The first assignment to a collection field - the one the dataclass constructor makes - creates the monitored container. What was
    assigned is recorded like any later assignment: after the container is created and bound to its owner, control reaches the loop that
    adds every element through the recording hook. (A container built from the assigned value before the owner is bound holds the
    elements, but nothing was recorded for them and nothing inferred.)"""
    from ..cfg import CFG

    r = RuleResult("PD-FIRST-ASSIGN", "elements given on the first assignment of a collection field are recorded like later ones", floor=1)
    pd = prog.cls("property_descriptor.PropertyDescriptor")
    f = prog.method(pd.qual, "__set__", inherited=False)
    cfg = CFG(f.node)
    created = [n for n in cfg.nodes if n.stmt is not None and n.kind == "stmt" and any(call_name(c) == "_ensure_monitored_type" for c in calls_in(n.stmt))]
    if not created:
        raise AnalysisError("PD-FIRST-ASSIGN: PropertyDescriptor.__set__ no longer creates the monitored container through _ensure_monitored_type")
    adders = {n.id for n in cfg.nodes if n.kind == "for" and any(call_name(c) in ("_add_item", "append", "add") for b in n.stmt.body for c in calls_in(b))}
    # what _ensure_monitored_type hands back is a monitored container: the false branch of `isinstance(<that local>, MonitoredContainer)` is
    # not a way out (path-insensitive flow graphs would offer it)
    made = {t.id for cn in created if isinstance(cn.stmt, ast.Assign) for t in cn.stmt.targets if isinstance(t, ast.Name)}
    infeasible = set()
    for t in cfg.nodes:
        if t.kind == "test" and isinstance(t.stmt, ast.If):
            tt = t.stmt.test
            if isinstance(tt, ast.Call) and call_name(tt) == "isinstance" and len(tt.args) == 2 and isinstance(tt.args[0], ast.Name) and tt.args[0].id in made and "MonitoredContainer" in src(tt.args[1]):
                infeasible |= {x for x in t.succ if x != t.true_succ}
    skipping = None
    for cn in created:
        p = cfg.path_avoiding(cn.id, cfg.exit, adders | infeasible)
        if p is not None:
            skipping = skipping or cfg.describe(p)
    r.check(bool(adders) and skipping is None, "PropertyDescriptor.__set__#first-assignment-recorded", site(f, created[0].stmt), " -> ".join(skipping) if skipping else "",
            "after the container is created every path runs the recording loop",
            "after creating the container the setter can return without adding the assigned elements through the hook: a collection given to the constructor "
            "(Org('o', part_of=[p])) is in the field, but no relation is recorded and nothing is inferred from it - and later facts that should chain with it find nothing in the graph")
    return r


def _rel_edges(prog):
    # the closure is computed over the relations the graph hands out: one hidden behind a parallel edge is a premise that is never used
    from .c14 import rel_edges

    return rel_edges(prog)


def pd_exact(prog: Program) -> RuleResult:
    """'A property implies its inverse, a sub-property its super-property' - never the other way round.  Where an inferred fact is written is
    decided by looking up, on the target's type, the field managed by the descriptor *class* of the inferred property.  The match has to be
    exact: a field managed by a sub-property of that class (CEO.head_of: HeadOf < WorksFor < MemberOf, looked up for MemberOf) is a
    different, stronger property - writing the inverse there asserts the sub-property, from which the closure derives more facts that
    nothing stated."""
    r = RuleResult("PD-EXACT", "the field of a descriptor class is the field managed by exactly that class", floor=1)
    pd = prog.cls("property_descriptor.PropertyDescriptor")
    f = pd.methods.get("get_associated_field_of_domain_type")
    if f is None:
        raise AnalysisError("PD-EXACT: PropertyDescriptor.get_associated_field_of_domain_type vanished")
    clsp = f.params[0]
    tests = []
    for x in walk_local(f.node):
        if isinstance(x, ast.Lambda):
            tests.append((x, x.body))
    for x in ast.walk(f.node):
        if isinstance(x, ast.FunctionDef) and x is not f.node:
            tests += [(x, st.value) for st in ast.walk(x) if isinstance(st, ast.Return) and st.value is not None]
        if isinstance(x, ast.comprehension):
            tests += [(x, t) for t in x.ifs]
    rel = [(h, t) for h, t in tests if "property_descriptor" in src(t)]
    if not rel:
        raise AnalysisError("PD-EXACT: the lookup no longer tests the descriptor of a field")

    def exact(t) -> bool:
        # type(<...>.property_descriptor) is cls   /  ... == cls   /  <...>.property_descriptor.__class__ is cls
        if not (isinstance(t, ast.Compare) and len(t.ops) == 1 and isinstance(t.ops[0], (ast.Is, ast.Eq))):
            return False
        sides = [t.left, t.comparators[0]]
        has_cls = any(isinstance(s_, ast.Name) and s_.id == clsp for s_ in sides)
        has_type = any((isinstance(s_, ast.Call) and isinstance(s_.func, ast.Name) and s_.func.id == "type" and s_.args and "property_descriptor" in src(s_.args[0]))
                       or (isinstance(s_, ast.Attribute) and s_.attr == "__class__" and "property_descriptor" in src(s_.value)) for s_ in sides)
        return has_cls and has_type

    bad = [t for _, t in rel if not (exact(t) or (isinstance(t, ast.BoolOp) and isinstance(t.op, ast.And) and any(exact(v) for v in t.values)))]
    r.check(not bad, f"{f.short}#exact-descriptor-class", site(f, bad[0]) if bad else site(f, rel[0][1]), src((bad or [rel[0][1]])[0])[:100],
            "the field is matched by the exact class of its descriptor",
            f"`{src(bad[0])[:80] if bad else ''}` also accepts fields managed by a subclass of the descriptor class: a type that declares only a specialisation of the inverse property "
            f"(no field of the property itself) gets the inverse written into the specialised field - a sub-property fact nobody asserted, and everything derived from it")
    return r


def _pd_alias(prog):
    # 'the field values agree with the graph's relations': assigning the field to itself (x.f = x.f, x.f += [...]) re-adds the elements from a
    # snapshot - taken from the very container that is cleared next, the field ends up empty while the graph keeps every relation
    from .c16 import pd_alias

    return pd_alias(prog)


def pd_role_taker(prog: Program) -> RuleResult:
    """'On the role taker when the super-property lives there': which object that is, is said by the diagram - the edge of kind HasRoleTaker, made
    for the field the class names in Role[...].  A class can have other required, single-valued references (a department's firm, a job's
    client); looking the role taker up by the *shape* of the field finds those: facts are inferred onto objects that take no role, and the
    facts of the real role taker are missing."""
    r = RuleResult("PD-ROLE-TAKER", "the role taker of a class is found by the kind of the edge", floor=1)
    cd = prog.cls("class_diagram.ClassDiagram")
    f = cd.methods.get("get_role_taker_associations_of_cls")
    if f is None:
        raise AnalysisError("PD-ROLE-TAKER: ClassDiagram.get_role_taker_associations_of_cls vanished")
    hrt = prog.cls("class_diagram.HasRoleTaker")
    kinds = {c.name for c in prog.subclasses(hrt.qual, strict=False)} | {hrt.name}
    par = parents_of(f.node)
    rets = [x for x in walk_local(f.node) if isinstance(x, ast.Return) and x.value is not None and not (isinstance(x.value, ast.Constant) and x.value.value is None)]
    if not rets:
        raise AnalysisError("PD-ROLE-TAKER: the lookup returns nothing")
    bad = None
    for x in rets:
        cur, ok = x, False
        while cur in par:
            up = par[cur]
            tests = [up.test] if isinstance(up, ast.If) and cur in up.body else list(up.ifs) if isinstance(up, ast.comprehension) else []
            for t in tests:
                for c_ in [y for y in ast.walk(t) if isinstance(y, ast.Call) and isinstance(y.func, ast.Name) and y.func.id == "isinstance" and len(y.args) == 2]:
                    names = [src(e) for e in (c_.args[1].elts if isinstance(c_.args[1], ast.Tuple) else [c_.args[1]])]
                    if names and all(nm in kinds for nm in names):
                        ok = True
            cur = up
        # a comprehension result: next(a for a in ... if isinstance(a, HasRoleTaker) ...)
        for comp in [y for y in ast.walk(x.value) if isinstance(y, ast.comprehension)]:
            for t in comp.ifs:
                for c_ in [y for y in ast.walk(t) if isinstance(y, ast.Call) and isinstance(y.func, ast.Name) and y.func.id == "isinstance" and len(y.args) == 2]:
                    if src(c_.args[1]) in kinds:
                        ok = True
        if not ok:
            bad = bad or x
    r.check(bad is None, f"{f.short}#by-edge-kind", site(f, bad) if bad is not None else site(f), src(bad)[:60] if bad is not None else f"{len(rets)} return(s)", "an association is returned only when it is a HasRoleTaker edge",
            f"`{src(bad)[:50] if bad is not None else ''}` hands out an association that was not established to be a HasRoleTaker edge: any required single-valued reference of the class counts as its "
            "role taker - inferred facts land on that object, and those of the real role taker are missing")
    return r


def pd_inverse_home(prog: Program) -> RuleResult:
    """'A property implies its inverse': the inverse fact is a fact about the target, so it is written to the target when the target's class
    declares the inverse field; the role taker is where it goes when the target has no such field.  With the precedence the other way round a
    role (Athlete, declaring `enrolled_in`) whose taker (Human) declares the field too gets nothing, and the taker gets a fact nobody stated."""
    from ..dtable import explore, Sym

    r = RuleResult("PD-INVERSE-HOME", "the inverse fact goes to the target's own field before the role taker's", floor=3)
    pdr = prog.cls("property_descriptor_relation.PropertyDescriptorRelation")
    g = prog.method(pdr.qual, "inverse_domain_and_field", inherited=False)
    if g is None:
        raise AnalysisError("PD-INVERSE-HOME: PropertyDescriptorRelation.inverse_domain_and_field vanished")
    paths = list(explore(prog, g, [Sym("self")], self_type=pdr.qual, inline=lambda q: False))

    def truth_of(val, name):
        for atom, value in val.items():
            if atom[0] == "truth" and atom[1] == name:
                return value
            if atom[0] == "is" and "None" in atom[1:] and name in atom[1:]:
                return not value
        return None

    OWN, RT = "self.inverse_field", "self.inverse_field_from_target_role_taker"
    for val in [a for a, _, _ in paths]:
        for atom in val:
            if not any(nm in atom[1:] for nm in (OWN, RT)):
                raise AnalysisError(f"PD-INVERSE-HOME: the choice consults {atom}")
    for own in (True, False):
        for rt in (True, False):
            outs = set()
            for val, out, _ in paths:
                to, tr = truth_of(val, OWN), truth_of(val, RT)
                if (to is None or to == own) and (tr is None or tr == rt):
                    outs.add((out[0], repr(out[1])))
            want = "self.target" if own else ("self.target_role_taker" if rt else None)
            if want is None:
                ok = all(k == "raise" for k, _ in outs) and bool(outs)
            else:
                ok = bool(outs) and all(k == "return" and v.replace(" ", "").startswith(("(" + want + ",", "tuple(" + want + ",", "Tuple(" + want + ",")) for k, v in outs)
            lab = f"own-field={int(own)},role-taker-field={int(rt)}"
            r.check(ok, f"PropertyDescriptorRelation.inverse_domain_and_field#{lab}", site(g), "; ".join(sorted(v for _, v in outs))[:90], f"{want or 'an error'}",
                    f"{lab}: the inverse fact goes to {sorted(outs)!r:.120}, the semantics demand {want or 'an error (no field can take it)'}: a target that declares the inverse field takes the fact itself, "
                    "its role taker only when it does not")
    return r


def run(prog: Program, tier: str) -> List[RuleResult]:
    return [guard(lambda: pd_inverse_home(prog)), guard(lambda: _rel_edges(prog)), guard(lambda: _sg_purge(prog)), guard(lambda: pd_field(prog)), guard(lambda: pd_first_assign(prog)), guard(lambda: pd_closure(prog)), guard(lambda: pd_owner(prog)), guard(lambda: pd_supers(prog)), guard(lambda: _mc_eq(prog)), guard(lambda: pd_replace(prog)), guard(lambda: pd_init(prog)), guard(lambda: user_truth(prog, ["property_descriptor.property_descriptor", "property_descriptor.monitored_container", "property_descriptor.property_descriptor_relation"], 2)), guard(lambda: pd_exact(prog)), guard(lambda: pd_role_taker(prog)), guard(lambda: _pd_alias(prog))]
