"""C15 - property-descriptor inference reaches the full closure in any assertion order.

PD-CLOSURE  the update rule is an instance of the fixpoint rule: every newly added edge triggers
            the super, inverse and both transitive inferences, and every inferred edge goes
            through the same procedure and is written back to the source field
PD-OWNER    the field handed to an inferred relation belongs to the class of the instance handed
            as its source
PD-SUPERS   the predicate that selects the fields of super-properties accepts every proper ancestor of the
            descriptor class (evaluated over a model hierarchy), not only the direct bases
"""
from __future__ import annotations

import ast
from typing import Dict, List, Optional, Tuple

from ..model import Program, AnalysisError, FuncInfo, walk_local, dotted
from ..report import RuleResult
from ..astutil import src, site, calls_in, call_name, is_self_attr, is_super_call, kwarg, const_value
from ..callgraph import self_closure

EXPLANATION = (
    "Order independence is a paper induction over an abstract update rule: if every newly added edge (s,t,f) triggers (1) "
    "an edge for each super-property field of s or s's role taker, (2) the inverse edge on t or t's role taker, (3) for "
    "transitive f, (s,u) for every existing (t,u) and (p,t) for every existing (p,s), and every edge so produced goes "
    "through the same procedure, the edge set after any sequence of assertions is the least fixpoint. The checker "
    "discharges that the code is an instance of that rule: the three families are called on the newly-added path; each "
    "constructs relations of the same class, marked inferred, and sends them through add_to_graph (nothing in ontomatic "
    "adds a relation behind its back); the transitive family has both directions, each pairing the right end of the new "
    "edge with the right neighbourhood query; inferred edges are written back to the source field. PD-OWNER is the "
    "sibling cross-check that each (source instance, field) handed to an inferred relation comes from the same object."
)
ASSUMPTIONS = [
    "the closure itself (least fixpoint for arbitrary populations) follows from the update rule by induction; it is not computed",
    "SymbolGraph's neighbourhood queries return exactly the existing edges (C14 keeps the graph coherent)",
]

PDR = "property_descriptor_relation.PropertyDescriptorRelation"


def _relation_ctor_calls(f: FuncInfo) -> List[ast.Call]:
    """self.__class__(src, tgt, field, inferred=True).add_to_graph() -> the inner constructor call"""
    out = []
    for c in calls_in(f.node):
        if call_name(c) == "add_to_graph" and isinstance(c.func, ast.Attribute) and isinstance(c.func.value, ast.Call):
            inner = c.func.value
            if src(inner.func) in ("self.__class__", "type(self)"):
                out.append(inner)
    return out


def _prop_body_expr(prog: Program, cls, name: str) -> Optional[FuncInfo]:
    return prog.lookup(cls.qual, name)


def pd_closure(prog: Program) -> RuleResult:
    r = RuleResult("PD-CLOSURE", "the incremental update is an instance of the fixpoint rule", floor=10)
    pdr = prog.cls(PDR)
    add = prog.method(pdr.qual, "add_to_graph", inherited=False)
    called = {c.func.attr for c in calls_in(add.node) if isinstance(c.func, ast.Attribute) and is_self_attr(c.func)}
    fams = {}
    for name, f in pdr.methods.items():
        if name.startswith("infer_"):
            fams[name] = f
    # classify families by what they construct
    kinds: Dict[str, FuncInfo] = {}
    for name, f in fams.items():
        seen, _ = self_closure(prog, pdr.qual, f, property_reads=False)
        ctor = [c for g in seen for c in _relation_ctor_calls(g)]
        if not ctor:
            continue
        txt = " ".join(src(c) for c in ctor)
        if f.name in called:
            if "transitive" in name:
                kinds["transitive"] = f
            elif "inverse" in name:
                kinds["inverse"] = f
            elif "super" in name:
                kinds["super"] = f
    for k in ("super", "inverse", "transitive"):
        r.check(k in kinds, f"PropertyDescriptorRelation.add_to_graph#calls-{k}", site(add), "", f"{k} inference runs for every newly added edge",
                f"add_to_graph does not trigger the {k} inference for a newly added edge: facts derivable through it are missing")
    r.check("update_source_wrapped_field_value" in called, "PropertyDescriptorRelation.add_to_graph#write-back", site(add), "",
            "inferred edges are written back to the source's field", "inferred edges are not written back to the field: field values and graph disagree")
    wb = pdr.methods.get("update_source_wrapped_field_value")
    if wb is not None:
        cs = [c for c in calls_in(wb.node) if call_name(c) == "update_value"]
        ok = len(cs) == 1 and [src(a) for a in cs[0].args] == ["self.source.instance", "self.target.instance"] and "self.wrapped_field.property_descriptor" in src(cs[0].func)
        r.check(ok, "PropertyDescriptorRelation.update_source_wrapped_field_value#args", site(wb), src(cs[0]) if cs else "", "writes target into source's field through the field's descriptor",
                "write-back does not store the target in the source's field through the relation's own descriptor")
    # every constructor call: same class, inferred=True, sent through add_to_graph
    all_ctor = []
    for g in sorted(pdr.methods.values(), key=lambda x: x.qual):
        for c in _relation_ctor_calls(g):
            all_ctor.append((g, c))
            r.check(const_value(kwarg(c, "inferred")) is True and len(c.args) == 3, f"{g.short}#inferred-flag", site(g, c), src(c),
                    "derived edge is marked inferred", "a derived edge is not marked inferred (it would be held strongly / not written back)")
    # who-may-call: nothing in ontomatic adds relations behind the procedure's back
    sgadd = prog.method("symbol_graph.SymbolGraph", "add_relation", inherited=False)
    offenders = []
    for f in prog.functions.values():
        if ".ontomatic." not in f.qual:
            continue
        for c in calls_in(f.node):
            if call_name(c) == "add_relation" and "SymbolGraph" in src(c.func):
                offenders.append((f, c))
            if is_super_call(c, "add_to_graph") and not (f.cls is not None and f.cls.qual == pdr.qual and f.name == "add_to_graph"):
                offenders.append((f, c))
    r.check(not offenders, "ontomatic#no-direct-add", site(offenders[0][0], offenders[0][1]) if offenders else pdr.loc, src(offenders[0][1]) if offenders else "",
            "all derived edges go through PropertyDescriptorRelation.add_to_graph", "a relation is added to the graph without running the inference procedure on it")
    # transitive: guard + both directions
    tr = kinds.get("transitive")
    if tr is not None:
        ifs = [s for s in tr.node.body if isinstance(s, ast.If)]
        ok = len(ifs) == 1 and src(ifs[0].test) == "self.transitive" and not ifs[0].orelse
        r.check(ok, "PropertyDescriptorRelation.infer_transitive_relations#guard", site(tr), src(ifs[0].test) if ifs else "", "runs for transitive descriptors",
                "the transitive inference is not guarded by exactly the descriptor's transitivity")
        dirs = [c.func.attr for s in (ifs[0].body if ifs else []) for c in calls_in(s) if isinstance(c.func, ast.Attribute) and is_self_attr(c.func)]
        shapes = {}
        for d in dirs:
            g = pdr.methods.get(d)
            if g is None:
                continue
            loops = [n for n in walk_local(g.node) if isinstance(n, ast.For)]
            for lp in loops:
                for c in _relation_ctor_calls(g):
                    v = lp.target.id if isinstance(lp.target, ast.Name) else "?"
                    a = [src(x) for x in c.args]
                    q = src(lp.iter)
                    # which neighbourhood does the loop range over?
                    qf = prog.lookup(pdr.qual, lp.iter.attr) if isinstance(lp.iter, ast.Attribute) and is_self_attr(lp.iter) else None
                    nb = None
                    if qf is not None:
                        for cc in calls_in(qf.node):
                            if call_name(cc) in ("get_outgoing_relations_with_condition", "get_incoming_relations_with_condition"):
                                nb = (("out" if "outgoing" in call_name(cc) else "in"), src(cc.args[0]))
                                cond_ok = "property_descriptor_cls" in src(qf.node)
                    shapes[d] = (nb, a, v, g, c)
        want_out = want_in = False
        for d, (nb, a, v, g, c) in shapes.items():
            if nb == ("out", "self.target") and a[0] == "self.source" and a[1] == f"{v}.target":
                want_out = True
            if nb == ("in", "self.source") and a[0] == f"{v}.source" and a[1] == "self.target":
                want_in = True
        r.check(want_out, "PropertyDescriptorRelation.infer_transitive#outgoing", site(tr), str({d: (s[0], s[1]) for d, s in shapes.items()}),
                "(s,t)+(t,u) => (s,u): outgoing edges of the target paired with self.source",
                "the direction (s,t)+(t,u) => (s,u) is missing: chains asserted root-to-leaf are not closed")
        r.check(want_in, "PropertyDescriptorRelation.infer_transitive#incoming", site(tr), str({d: (s[0], s[1]) for d, s in shapes.items()}),
                "(p,s)+(s,t) => (p,t): incoming edges of the source paired with self.target",
                "the direction (p,s)+(s,t) => (p,t) is missing: chains asserted leaf-to-root are not closed")
        # same-descriptor filter on both neighbourhood queries
        for qn in ("target_outgoing_relations_with_same_descriptor_type", "source_incoming_relations_with_same_descriptor_type"):
            qf = pdr.methods.get(qn)
            if qf is not None:
                lam = [n for n in walk_local(qf.node) if isinstance(n, ast.Lambda)]
                ok = len(lam) == 1 and isinstance(lam[0].body, ast.Compare) and isinstance(lam[0].body.ops[0], ast.Is) and "property_descriptor_cls" in src(lam[0].body.left) and src(lam[0].body.comparators[0]) == "self.property_descriptor_cls"
                r.check(ok, f"PropertyDescriptorRelation.{qn}#same-property", site(qf), src(lam[0]) if lam else "", "only edges of the same property are chained",
                        "the neighbourhood is not filtered to edges of the same descriptor class")
    # super family: target kept, (domain, field) pairs from super_relations
    sp = kinds.get("super")
    if sp is not None:
        cs = _relation_ctor_calls(sp)
        loops = [n for n in walk_local(sp.node) if isinstance(n, ast.For)]
        ok = len(cs) == 1 and len(loops) == 1 and src(loops[0].iter) == "self.super_relations" and isinstance(loops[0].target, ast.Tuple) and \
            [src(a) for a in cs[0].args] == [src(loops[0].target.elts[0]), "self.target", src(loops[0].target.elts[1])]
        r.check(ok, "PropertyDescriptorRelation.infer_super_relations#shape", site(sp), src(cs[0]) if cs else "", "(domain, self.target, super field) for every super relation",
                "super inference does not assert (super domain, same target, super field) for every super relation")
        srel = pdr.methods.get("super_relations")
        if srel is not None:
            ys = [src(n.value) for n in walk_local(srel.node) if isinstance(n, ast.YieldFrom)]
            r.check("self.direct_super_relations" in ys and "self.role_taker_super_relations" in ys, "PropertyDescriptorRelation.super_relations#both-sources", site(srel), str(ys),
                    "super properties of the source and of its role taker", "super relations omit the source's own or its role taker's super-property fields")
    inv = kinds.get("inverse")
    if inv is not None:
        cs = _relation_ctor_calls(inv)
        ok = len(cs) == 1 and src(cs[0].args[1]) == "self.source"
        guard = [s for s in inv.node.body if isinstance(s, ast.If)]
        ok = ok and len(guard) == 1 and src(guard[0].test) == "self.inverse_of"
        r.check(ok, "PropertyDescriptorRelation.infer_inverse_relation#shape", site(inv), src(cs[0]) if cs else "", "(inverse domain, self.source, inverse field) whenever an inverse is declared",
                "inverse inference does not assert the edge back to self.source whenever the descriptor declares an inverse")
    return r


def pd_owner(prog: Program) -> RuleResult:
    r = RuleResult("PD-OWNER", "the field of an inferred relation belongs to the class of its source instance", floor=4)
    pdr = prog.cls(PDR)
    for g in sorted(pdr.methods.values(), key=lambda x: x.qual):
        for c in _relation_ctor_calls(g):
            s_, t_, f_ = c.args[0], c.args[1], c.args[2]
            ss, fs = src(s_), src(f_)
            key = f"{g.short}#source-field"
            # case 1: both are attributes of one relation object
            if isinstance(s_, ast.Attribute) and isinstance(f_, ast.Attribute) and s_.attr in ("source", "target") and f_.attr == "wrapped_field":
                same = src(s_.value) == src(f_.value) and s_.attr == "source"
                r.check(
                    same, key, site(g, c), src(c),
                    f"{fs} is the field of {ss}'s own relation",
                    f"the derived edge starts at {ss} but carries {fs}, the field of {src(f_.value)}.source's class: with one descriptor on two classes "
                    f"the write-back looks up a field the source does not have (AttributeError) or updates the wrong field, depending on assertion order",
                )
                continue
            # case 2: loop variables unpacked from a (domain, field) pair produced together
            lp = None
            for n in walk_local(g.node):
                if isinstance(n, ast.For) and isinstance(n.target, ast.Tuple) and [src(e) for e in n.target.elts] == [ss, fs]:
                    lp = n
            if lp is not None:
                ok = _pairs_consistent(prog, pdr, lp.iter)
                r.check(ok is True, key, site(g, c), src(c), "domain and field are produced together from the same class",
                        f"(domain, field) pairs of {src(lp.iter)} are not produced from one class: {ok}")
                continue
            # case 3: tuple-unpacked from a property returning (instance, field) pairs
            asg = None
            for n in walk_local(g.node):
                if isinstance(n, ast.Assign) and isinstance(n.targets[0], ast.Tuple) and [src(e) for e in n.targets[0].elts] == [ss, fs]:
                    asg = n
            if asg is not None:
                ok = _pairs_consistent(prog, pdr, asg.value)
                r.check(ok is True, key, site(g, c), src(c), "domain and field are produced together from the same class",
                        f"(domain, field) pair of {src(asg.value)} is not produced from one class: {ok}")
                continue
            r.fail(key, site(g, c), src(c), "cannot relate the source instance to the owner of the field")
    return r


# instance expression -> the expression of its class that a field lookup must be made on
_CLASS_OF = {
    "self.source": {"self.source.instance_type"},
    "self.target": {"self.target.instance_type"},
    "self.target_role_taker": {"self.target_role_taker_association.target"},
}


def _class_exprs_of(inst: ast.expr, fn_node) -> Optional[set]:
    """class expressions a field for this instance expression may be looked up on"""
    t = src(inst)
    if t in _CLASS_OF:
        return _CLASS_OF[t]
    if isinstance(inst, ast.Name):
        # a local: the object reached through an association of the relation (getattr(<instance>, self.X_association.field...))
        # belongs to that association's target class
        seen, todo, out = set(), [inst.id], set()
        while todo:
            nme = todo.pop()
            if nme in seen:
                continue
            seen.add(nme)
            for n in ast.walk(fn_node):
                if isinstance(n, ast.Assign) and any(isinstance(tg, ast.Name) and tg.id == nme for tg in n.targets):
                    for x in ast.walk(n.value):
                        if isinstance(x, ast.Attribute) and isinstance(x.value, ast.Name) and x.value.id == "self" and x.attr.endswith("_association"):
                            out.add(f"self.{x.attr}.target")
                        if isinstance(x, ast.Name) and x.id != nme:
                            todo.append(x.id)
        return out or None
    return None


def _field_origin(prog: Program, pdr, e: ast.expr, depth=0):
    """class expression a field-valued expression was looked up on"""
    if depth > 4:
        return None
    if isinstance(e, ast.Attribute) and is_self_attr(e):
        f = prog.lookup(pdr.qual, e.attr)
        if f is not None and f.is_property:
            rets = [n.value for n in walk_local(f.node) if isinstance(n, ast.Return) and n.value is not None]
            outs = {_field_origin(prog, pdr, v, depth + 1) for v in rets if not (isinstance(v, ast.Constant) or src(v) in ("[]", "None"))}
            outs.discard(None)
            return next(iter(outs)) if len(outs) == 1 else None
    for c in [x for x in ast.walk(e) if isinstance(x, ast.Call)]:
        if call_name(c) in ("get_fields_of_superproperties", "get_associated_field_of_domain_type") and c.args:
            return src(c.args[0])
    return None


def _pairs_consistent(prog: Program, pdr, e: ast.expr, depth=0):
    """True, or a description of the inconsistency"""
    if depth > 4:
        return "too deep"
    if isinstance(e, ast.Attribute) and is_self_attr(e):
        f = prog.lookup(pdr.qual, e.attr)
        if f is None:
            return f"unknown property {e.attr}"
        problems = []
        local = {}
        for n in walk_local(f.node):
            if isinstance(n, ast.Assign) and isinstance(n.targets[0], ast.Name):
                local[n.targets[0].id] = n.value
        for n in walk_local(f.node):
            if isinstance(n, ast.YieldFrom):
                res = _pairs_consistent(prog, pdr, n.value, depth + 1) if not isinstance(n.value, ast.GeneratorExp) else _gen_pair(prog, pdr, f, n.value, local)
                if res is not True:
                    problems.append(res)
            if isinstance(n, ast.Return) and isinstance(n.value, ast.Tuple) and len(n.value.elts) == 2:
                inst, fld = n.value.elts
                org = _field_origin(prog, pdr, fld)
                if org in local:
                    org = src(local[org])
                want = _class_exprs_of(inst, f.node)
                if want is None or org not in want:
                    problems.append(f"{src(inst)} paired with a field looked up on {org}")
        return True if not problems else "; ".join(map(str, problems))
    return f"unsupported pair source {src(e)}"


def _gen_pair(prog, pdr, f, g: ast.GeneratorExp, local):
    if not (isinstance(g.elt, ast.Tuple) and len(g.elt.elts) == 2):
        return f"generator in {f.short} does not yield pairs"
    inst = src(g.elt.elts[0])
    it = g.generators[0].iter
    org = _field_origin(prog, pdr, it)
    if org in local:
        org = src(local[org])
    want = _class_exprs_of(g.elt.elts[0], f.node)
    if want is None:
        return f"unknown instance expression {inst}"
    if org not in want:
        return f"{inst} paired with fields looked up on {org}"
    return True


class _Opaque:
    """the association handed to the predicate: every attribute chain on it is opaque, type() of it is the model class T"""


def _model_eval(e: ast.expr, env: Dict[str, object], T: type):
    def ev(x):
        if isinstance(x, ast.Constant):
            return x.value
        if isinstance(x, ast.Name):
            if x.id in env:
                return env[x.id]
            if x.id in ("object", "type"):
                return {"object": object, "type": type}[x.id]
            raise AnalysisError(f"PD-SUPERS: free name {x.id} in the super-property predicate")
        if isinstance(x, ast.Attribute):
            b = ev(x.value)
            if isinstance(b, _Opaque):
                return b
            if isinstance(b, type) and x.attr in ("__bases__", "__mro__", "__name__", "__qualname__", "__base__"):
                return getattr(b, x.attr)
            raise AnalysisError(f"PD-SUPERS: attribute {x.attr} is outside the model")
        if isinstance(x, ast.Call):
            if isinstance(x.func, ast.Name) and x.func.id == "type" and len(x.args) == 1:
                a = ev(x.args[0])
                return T if isinstance(a, _Opaque) else type(a)
            if isinstance(x.func, ast.Name) and x.func.id == "issubclass" and len(x.args) == 2:
                return issubclass(ev(x.args[0]), ev(x.args[1]))
            if isinstance(x.func, ast.Name) and x.func.id == "isinstance" and len(x.args) == 2:
                a = ev(x.args[0])
                k = ev(x.args[1])
                return issubclass(T, k) if isinstance(a, _Opaque) else isinstance(a, k)
            if isinstance(x.func, ast.Attribute) and x.func.attr == "mro" and not x.args:
                return ev(x.func.value).mro()
            if isinstance(x.func, ast.Name) and x.func.id in ("any", "all") and len(x.args) == 1 and isinstance(x.args[0], ast.GeneratorExp) and len(x.args[0].generators) == 1:
                g = x.args[0].generators[0]
                vals = []
                for item in ev(g.iter):
                    env2 = dict(env)
                    if not isinstance(g.target, ast.Name):
                        raise AnalysisError("PD-SUPERS: tuple target in the predicate")
                    env2[g.target.id] = item
                    if all(_model_eval(c, env2, T) for c in g.ifs):
                        vals.append(_model_eval(x.args[0].elt, env2, T))
                return any(vals) if x.func.id == "any" else all(vals)
            raise AnalysisError(f"PD-SUPERS: call {src(x)[:60]} is outside the model")
        if isinstance(x, ast.Subscript):
            b = ev(x.value)
            if isinstance(x.slice, ast.Slice):
                lo = ev(x.slice.lower) if x.slice.lower is not None else None
                hi = ev(x.slice.upper) if x.slice.upper is not None else None
                return b[lo:hi]
            return b[ev(x.slice)]
        if isinstance(x, ast.UnaryOp) and isinstance(x.op, ast.USub):
            return -ev(x.operand)
        if isinstance(x, ast.UnaryOp) and isinstance(x.op, ast.Not):
            return not ev(x.operand)
        if isinstance(x, ast.BoolOp):
            if isinstance(x.op, ast.And):
                return all(ev(v) for v in x.values)
            return any(ev(v) for v in x.values)
        if isinstance(x, ast.Compare):
            left = ev(x.left)
            for op, c in zip(x.ops, x.comparators):
                right = ev(c)
                ok = {ast.Is: lambda a, b: a is b, ast.IsNot: lambda a, b: a is not b, ast.Eq: lambda a, b: a == b, ast.NotEq: lambda a, b: a != b,
                      ast.In: lambda a, b: a in b, ast.NotIn: lambda a, b: a not in b}.get(type(op))
                if ok is None:
                    raise AnalysisError("PD-SUPERS: comparison outside the model")
                if not ok(left, right):
                    return False
                left = right
            return True
        if isinstance(x, (ast.Tuple, ast.List)):
            return tuple(ev(v) for v in x.elts)
        raise AnalysisError(f"PD-SUPERS: {type(x).__name__} is outside the model")

    return ev(e)


def pd_supers(prog: Program) -> RuleResult:
    r = RuleResult("PD-SUPERS", "the fields of super-properties are those of every proper ancestor of the descriptor class", floor=3)
    pd = prog.cls("property_descriptor.PropertyDescriptor")
    f = prog.method(pd.qual, "get_fields_of_superproperties", inherited=False)
    if f is None:
        raise AnalysisError("PD-SUPERS: PropertyDescriptor.get_fields_of_superproperties vanished")
    preds = [n for n in ast.walk(f.node) if isinstance(n, (ast.FunctionDef, ast.Lambda)) and n is not f.node]
    if len(preds) != 1:
        raise AnalysisError(f"PD-SUPERS: expected one selecting predicate in get_fields_of_superproperties, found {len(preds)}")
    p = preds[0]
    pre: List[ast.Assign] = []
    if isinstance(p, ast.Lambda):
        body, params = p.body, [a.arg for a in p.args.args]
    else:
        stmts = [st for st in p.body if not (isinstance(st, ast.Expr) and isinstance(st.value, ast.Constant))]
        if not stmts or not isinstance(stmts[-1], ast.Return) or stmts[-1].value is None or \
                not all(isinstance(st, ast.Assign) and len(st.targets) == 1 and isinstance(st.targets[0], ast.Name) for st in stmts[:-1]):
            raise AnalysisError("PD-SUPERS: the selecting predicate is no longer straight-line assignments followed by one returned expression")
        pre = stmts[:-1]
        body, params = stmts[-1].value, [a.arg for a in p.args.args]
    # model: Root <- Mid <- Leaf, and an unrelated property Other; the descriptor class asking is Leaf
    Base = type("PropertyDescriptorModel", (), {})
    Root = type("Root", (Base,), {})
    Mid = type("Mid", (Root,), {})
    Leaf = type("Leaf", (Mid,), {})
    Other = type("Other", (Base,), {})
    clsname = f.params[0]
    expect = {"Mid (direct base)": (Mid, True), "Root (ancestor two levels up)": (Root, True), "Other (unrelated property)": (Other, False)}
    for label, (T, want) in expect.items():
        env = {clsname: Leaf, params[0]: _Opaque(), "PropertyDescriptor": Base}
        for st in pre:
            env[st.targets[0].id] = _model_eval(st.value, env, T)
        got = bool(_model_eval(body, env, T))
        r.check(got == want, f"PropertyDescriptor.get_fields_of_superproperties#{label.split(' ')[0].lower()}", site(f, p), src(body)[:120],
                f"a field whose descriptor is {label} is {'selected' if want else 'not selected'}",
                f"for the hierarchy Root <- Mid <- Leaf the predicate {'rejects' if want else 'accepts'} a field whose descriptor is {label}: "
                + ("when the holder has no field for an intermediate level the super-property above the gap is never inferred" if want else "unrelated properties are inferred"))
    return r


def run(prog: Program, tier: str) -> List[RuleResult]:
    return [pd_closure(prog), pd_owner(prog), pd_supers(prog)]
