"""C11 - pattern matching is equivalent to the explicit query it abbreviates.

MATCH-TABLE  the condition chosen per attribute over (attribute iterable, value iterable,
             universal, existential), the type-filter rule and the flatten rule
MATCH-OPS    contains / in_ build `item in container` with the operands in the right slots
IDENT-DEDUP  the engine's own de-duplication and membership tests compare identity, never the
             user's == on unwrapped values
"""
from __future__ import annotations

import ast
from typing import Dict, List, Optional, Set

from ..model import Program, AnalysisError, FuncInfo, walk_local, dotted, parents_of
from ..cfg import CFG
from ..report import RuleResult, guard
from ..astutil import src, site, calls_in, call_name, is_self_attr
from ..callgraph import closure
from ..dtable import explore, Sym, App

EXPLANATION = (
    "The condition a pattern attribute expands to depends on four booleans only (attribute iterable, value iterable, universal, "
    "existential); the decision function is evaluated abstractly for all sixteen valuations and compared with the table the "
    "property states (literal => equality, membership for collection attributes; match_any => at least one common element; "
    "match_all => same set; existential wraps in exists). The type-filter and flatten rules of nested matches are tabled the same "
    "way, and the operand order of contains/in_ is followed through their definitions down to the comparator's application. "
    "IDENT-DEDUP scans the evaluation closure of the call graph for membership / equality tests on unwrapped values (.value of a "
    "HashedValue) outside the user-requested comparator: such a test makes two distinct but equal user objects collapse."
)
ASSUMPTIONS = [
    "equivalence on arbitrary patterns is not decided; the decided part is the per-attribute expansion and identity-based de-duplication",
    "HashedValue equality is identity of the wrapped object (id_), as defined in hashed_data.py",
]

AA = "match.AttributeAssignment"


def match_table(prog: Program) -> RuleResult:
    r = RuleResult("MATCH-TABLE", "per-attribute condition, type filter and flatten rule equal the stated tables", floor=20)
    aa = prog.cls(AA)
    f = prog.method(aa.qual, "infer_condition_between_attribute_and_assigned_value", inherited=False)
    paths = explore(prog, f, [Sym("self")], inline=lambda q: False, symbolic_cmp=lambda a, b: True)
    A, V, M, U, E = ("truth", "self.attr._is_iterable_"), ("truth", "self.is_iterable_value"), ("isinstance", "self.assigned_value", "Match"), ("truth", "self.assigned_value.universal"), ("truth", "self.assigned_value.existential")
    known_atoms = {A, V, M, U, E}
    for val, _, _ in paths:
        extra = set(val) - known_atoms
        if extra:
            raise AnalysisError(f"MATCH-TABLE: condition inference consults {extra}, outside the four flags")

    def outcome_for(a, v, m, u, e):
        hits = []
        for val, out, calls in paths:
            want = {A: a, V: v, M: m, U: u, E: e}
            if all(val[k] == want[k] for k in val):
                hits.append(out)
        if len(hits) != 1:
            raise AnalysisError(f"MATCH-TABLE: {len(hits)} paths for one valuation")
        return hits[0]

    def expected(a, v, m, u, e):
        attr, val = Sym("self.attr"), Sym("self.assigned_variable")
        if a and not v:
            c = App("contains", (attr, val))
        elif not a and v:
            c = App("in_", (attr, val))
        elif a and v and not (m and u):
            c = App("contains", (val, App("flatten", (attr,))))
        else:
            c = App("Eq", (attr, val))
        if m and e:
            c = App("exists", (attr, c))
        return ("return", c)

    for a in (False, True):
        for v in (False, True):
            for m, u, e in ((False, False, False), (True, False, False), (True, True, False), (True, False, True), (True, True, True)):
                got = outcome_for(a, v, m, u, e)
                want = expected(a, v, m, u, e)
                lab = f"attr_iter={int(a)},value_iter={int(v)},match={int(m)},universal={int(u)},existential={int(e)}"
                r.check(repr(got) == repr(want), f"AttributeAssignment.infer_condition#{lab}", site(f), lab, f"{got[1]!r}",
                        f"{lab}: the code builds {got[1]!r}, the pattern semantics demand {want[1]!r}")
    # type filter rule
    g = prog.method(aa.qual, "is_type_filter_needed", inherited=False)
    paths = explore(prog, g, [Sym("self")], inline=lambda q: False)
    def side(t: str) -> str:
        if "assigned_value" in t:
            return "P"
        if "attr" in t:
            return "A"
        raise AnalysisError(f"MATCH-TABLE: type-filter rule compares {t}")

    # The decision is a function of this pattern (the type it names, the attribute it constrains).  A decision read from a module-level
    # collection is the decision of whichever pattern was built first over that key - the second pattern on the same attribute, naming a
    # subclass, inherits "no filter needed" from a first one that named the declared type.
    import re as _re

    gmod = g.module
    shared = {}
    for st in gmod.tree.body:
        tg = st.targets[0] if isinstance(st, ast.Assign) and len(st.targets) == 1 else (st.target if isinstance(st, ast.AnnAssign) else None)
        if isinstance(tg, ast.Name) and getattr(st, "value", None) is not None and isinstance(st.value, (ast.Dict, ast.Set, ast.List, ast.Call, ast.DictComp, ast.SetComp, ast.ListComp)):
            shared[tg.id] = st
    read = sorted({nm for val, _, _ in paths for atom in val for part in atom if isinstance(part, str) for nm in _re.findall(r"[A-Za-z_][A-Za-z_0-9]*", part) if nm in shared})
    if not read:
        # ... or stored there by the method itself (membership tested with `in` shows up as an atom; a try / setdefault spelling does not)
        read = sorted({y.id for y in ast.walk(g.node) if isinstance(y, ast.Name) and y.id in shared and not isinstance(shared[y.id].value, ast.Call)})
    r.check(not read, "AttributeAssignment.is_type_filter_needed#decided-from-the-pattern", site(g), ", ".join(read), "the decision reads the pattern and the class diagram only",
            f"whether a nested match needs its type filter is looked up in the module-level `{read[0] if read else ''}`, written by the patterns built before: "
            "match(Part) on an attribute stores 'no filter', and a later match(Wheel) on the same attribute is built without its HasType condition and returns elements whose value is a Door")
    if read:
        return r
    # relation between the pattern's type P and the attribute's declared type A
    RELS = {"same": dict(P_le_A=True, A_le_P=True), "pattern-is-subtype": dict(P_le_A=True, A_le_P=False),
            "pattern-is-supertype": dict(P_le_A=False, A_le_P=True), "unrelated": dict(P_le_A=False, A_le_P=False)}
    # ... and whether the attribute is declared Optional: then its value can also be None, which is an instance of no pattern type
    for optional in (False, True):
      for known_attr in (False, True):
        for has_type in (False, True):
            for rel, facts in RELS.items():
                if not (known_attr and has_type) and rel != "unrelated":
                    continue
                outs = set()
                for val, out, _ in paths:
                    ok = True
                    for atom, value in val.items():
                        if atom[0] == "truth" and atom[1] in ("self.attr._type_", "attr_type"):
                            ok = ok and value == known_attr
                        elif atom[0] == "truth" and atom[1] == "self.assigned_value.type_":
                            ok = ok and value == has_type
                        elif atom[0] == "is":
                            ok = ok and value == (rel == "same")
                        elif atom[0] == "truth" and atom[1].endswith(".is_optional") and "attr" in atom[1]:
                            ok = ok and value == optional
                        elif atom[0] == "issubclass":
                            a, b = side(atom[1]), side(atom[2])
                            ok = ok and value == (True if a == b else facts[f"{a}_le_{b}"])
                        else:
                            raise AnalysisError(f"MATCH-TABLE: type-filter rule consults {atom}")
                    if ok:
                        v = out[1]
                        if isinstance(v, App) and v.fn == "bool" and len(v.args) == 1:
                            v = v.args[0]
                        if isinstance(v, (Sym, App)):
                            # a symbolic result is used for its truth: look it up in this path's valuation
                            v = val.get(("truth", repr(v)), repr(v))
                        outs.add(bool(v) if not isinstance(v, str) else v)
                # the elements of the attribute are known to be A; they have to be checked against P unless every A is a P
                want = (not known_attr) or (has_type and (optional or not facts["A_le_P"]))
                lab = f"attr_type_known={int(known_attr)},pattern_type={int(has_type)},relation={rel if known_attr and has_type else 'n/a'}" + (",optional=1" if optional else "")
                r.check(outs == {want}, f"AttributeAssignment.is_type_filter_needed#{lab}", site(g), lab, f"{want}",
                        f"{lab}: code says {sorted(map(str, outs))}; a nested match constrains the attribute value's type, so a type filter is needed unless the attribute's declared type "
                        f"already guarantees the pattern's type ({want}) - main=match(Other)(name='a') on a Part-typed attribute must not return the boxes whose Part is named 'a', spare=match(Part) on an Optional[Part] attribute must not return the cars without a spare")
    # flatten + filter in resolve
    h = prog.method(aa.qual, "resolve", inherited=False)
    paths = explore(prog, h, [Sym("self"), Sym("parent_match")], inline=lambda q: False)
    for it in (False, True):
        for kw in (False, True):
            for need in (False, True):
                sel = []
                for val, out, calls in paths:
                    ok = True
                    for atom, value in val.items():
                        if atom == ("truth", "self.attr._is_iterable_"):
                            ok = ok and value == it
                        elif atom == ("truth", "self.assigned_value.kwargs"):
                            ok = ok and value == kw
                        elif atom == ("truth", "self.is_type_filter_needed"):
                            ok = ok and value == need
                        else:
                            raise AnalysisError(f"MATCH-TABLE: resolve consults {atom}")
                    if ok:
                        sel.append(calls)
                if len(sel) != 1:
                    raise AnalysisError("MATCH-TABLE: resolve paths do not partition the valuations")
                calls = sel[0]
                flat = any(c.fn == "flatten" for c in calls)
                filt = [c for c in calls if c.fn == "self.conditions.append" and c.args and isinstance(c.args[0], App) and c.args[0].fn == "HasType"]
                inner = [c for c in calls if c.fn == "self.assigned_value._resolve"]
                want_flat = it and (kw or need)
                target = "flatten(self.attr)" if want_flat else "self.attr"
                lab = f"attr_iter={int(it)},nested_constraints={int(kw)},type_filter={int(need)}"
                ok = flat == want_flat and (len(filt) == 1) == need and len(inner) == 1 and repr(inner[0].args[0]) == target and (not filt or repr(filt[0].args[0].args[0]) == target)
                r.check(ok, f"AttributeAssignment.resolve#{lab}", site(h), lab, f"nested match resolved on {target}, type filter {'on' if need else 'off'}",
                        f"{lab}: nested match is resolved on {repr(inner[0].args[0]) if inner else '?'} (flatten={flat}), type filters {len(filt)}; elements of a collection attribute must be "
                        f"constrained one by one ({target}) and filtered by type exactly when needed")
    return r


def match_iter(prog: Program) -> RuleResult:
    """'a literal means equality (membership for collection attributes)': which of the two the pattern compiler builds is
    decided by Attribute._is_iterable_.  Its value is derived from /repo's source for every annotation category of the
    supported grammar (type model of C17 / C06) and compared with what the annotation says: a collection or not."""
    from .. import typemodel as tm
    from ..dtable import AbstractEval, NeedAtom, _Raise

    r = RuleResult("MATCH-ITER", "an attribute is treated as a collection exactly when its annotation is an iterable container", floor=10)
    at = prog.cls("symbolic.Attribute")
    wf = prog.cls("wrapped_field.WrappedField")
    f = prog.lookup(at.qual, "_is_iterable_")
    if f is None:
        raise AnalysisError("MATCH-ITER: Attribute._is_iterable_ vanished")
    selfn = f.params[0]
    for cat, anns in list(tm.CATEGORIES.items()) + list(tm.CLASSIFY_ONLY.items()):
        got = []
        for ann in anns:
            ae = AbstractEval(prog, {("truth", f"{selfn}._wrapped_field_"): True}, const_attrs={f"{selfn}._wrapped_field_.resolved_type": ann}, max_depth=12,
                              inline=lambda q: not q.endswith("Attribute._wrapped_field_"))
            ae.globals = dict(tm.GLOBALS)
            ae.funcs = dict(tm.FUNCS)
            ae.funcs["all"] = lambda g: all(g)
            ae.type_of[selfn] = at.qual
            ae.type_of[f"{selfn}._wrapped_field_"] = wf.qual
            try:
                got.append(ae.call_func(f, [Sym(selfn)], {}))
            except _Raise as x:
                got.append(("raise", x.exc))
            except tm.TypeErr:
                got.append(("raise", "TypeError"))
            except NeedAtom as na:
                raise AnalysisError(f"MATCH-ITER: Attribute._is_iterable_ consults {na.atom}, outside the typing facts tabled in the checker")
        want = [isinstance(a, tm.Gen) and a.origin not in (tm.UNION, tm.UNIONTYPE) and bool(getattr(a.origin, "iterable", False)) for a in anns]
        r.check([g if isinstance(g, tuple) else bool(g) for g in got] == want, f"Attribute._is_iterable_#{cat}", site(f), ", ".join(map(repr, anns)), f"{got}",
                f"for {cat} annotations {[repr(a) for a in anns]} the source says {got}, the annotations say {want}: a literal against a collection the compiler takes for a scalar "
                f"becomes `attr == literal` instead of membership (tags='t1' never matches tags=['t1'])")
    return r


def match_factory(prog: Program) -> RuleResult:
    """What a pattern's argument is decides what the pattern means: a variable is used as it is, a class starts a nested match, nothing
    (None) leaves the type open, and *every other value* is a literal to compare with - the empty collection, 0 and '' included
    (match_all([]) means "the same elements as the empty set", match_any([]) can match nothing)."""
    r = RuleResult("MATCH-FACTORY", "every non-class, non-variable, non-None argument of a pattern becomes a literal", floor=10)
    kinds = {
        "a variable": dict(var=True),
        "None": dict(var=False, none=True, truth=False, cls=False),
        "a class": dict(var=False, none=False, truth=True, cls=True),
        "a truthy value": dict(var=False, none=False, truth=True, cls=False),
        "a falsy value ([], (), 0, '')": dict(var=False, none=False, truth=False, cls=False),
    }
    for fname, ctor in (("entity_matching", "Match"), ("entity_selection", "Select")):
        f = prog.func("match." + fname)
        p = f.params[0]
        paths = explore(prog, f, [Sym(a) for a in f.params], inline=lambda q: False)
        for label, facts in kinds.items():
            hits = []
            for val, out, _ in paths:
                ok = True
                for a, v in val.items():
                    if a[0] == "isinstance" and a[1] == p and a[2].endswith("CanBehaveLikeAVariable"):
                        want = facts["var"]
                    elif not facts.get("var") and a[0] == "is" and set(a[1:]) == {"None", p}:
                        want = facts["none"]
                    elif not facts.get("var") and a[0] == "isinstance" and a[1] == p and a[2] == "type":
                        want = facts["cls"]
                    elif not facts.get("var") and a[0] == "truth" and a[1] == p:
                        want = facts["truth"]
                    elif facts.get("var"):
                        continue  # decided by the first test
                    else:
                        raise AnalysisError(f"MATCH-FACTORY: {fname} consults {a}")
                    ok = ok and (v == want)
                if ok:
                    hits.append(out)
            outs = {repr(o[1]) if o[0] == "return" else f"raise {o[1]}" for o in hits}
            if label == "a variable":
                good = len(outs) == 1 and f"variable={p}" in next(iter(outs)) and next(iter(outs)).startswith(ctor + "(")
                want_txt = f"{ctor}(..., variable=<the variable>)"
            elif label in ("None", "a class"):
                good = len(outs) == 1 and "variable=" not in next(iter(outs)) and next(iter(outs)).startswith(ctor + "(")
                want_txt = f"{ctor}(<type>) without a variable"
            else:
                good = len(outs) == 1 and f"variable=Literal({p})" in next(iter(outs))
                want_txt = f"{ctor}(..., variable=Literal(<the value>))"
            r.check(good, f"{fname}#{label.split(' (')[0]}", site(f), label, f"{sorted(outs)}",
                    f"for {label} the factory builds {sorted(outs)}, the pattern semantics demand {want_txt}: " +
                    ("a falsy literal such as the empty collection is taken for 'no type given', the attribute constraint disappears and match_all([]) / match_any([]) match everything" if "falsy" in label else "the argument is misclassified"))
    return r


def match_memo_order(prog: Program) -> RuleResult:
    """A pattern is resolved top-down: `_resolve` tells each nested match its variable and its parent and registers the selected parts with
    the outermost match.  A memoised member (cached_property / lru_cache) freezes what it computes at first use; if it is computed from a
    field that the resolution assigns, it must not be read on any path before that assignment - or the nested match remembers the state
    it had while it was still unattached (e.g. 'I am the root')."""
    from ..callgraph import self_closure

    r = RuleResult("MATCH-MEMO-ORDER", "no memoised member of a pattern is read before the fields it is computed from are assigned", floor=3)
    mod = prog.module("entity_query_language.match")
    n = 0
    for c in sorted(mod.classes.values(), key=lambda x: x.qual):
        memo = {nm: g for nm, g in c.methods.items() if g.is_cached_property or g.is_lru_cache}
        for pname, pf in sorted(memo.items()):
            n += 1
            pcl, _ = self_closure(prog, c.qual, pf, True)
            deps = {x.attr for g in pcl for x in walk_local(g.node) if isinstance(x, ast.Attribute) and isinstance(x.value, ast.Name) and x.value.id == (g.params[0] if g.params else "self") and isinstance(x.ctx, ast.Load)}
            bad = None
            for mname, mf in sorted(c.methods.items()):
                if mname in ("__init__", "__post_init__") or mf is pf:
                    continue
                cfg = CFG(mf.node)
                selfn = mf.params[0] if mf.params else "self"
                assigns = [nd for nd in cfg.nodes if nd.kind == "stmt" and isinstance(nd.stmt, (ast.Assign, ast.AnnAssign)) and any(
                    isinstance(t, ast.Attribute) and isinstance(t.value, ast.Name) and t.value.id == selfn and t.attr in deps
                    for t in (nd.stmt.targets if isinstance(nd.stmt, ast.Assign) else [nd.stmt.target]))]
                if not assigns:
                    continue
                # readers of the memoised member in this method: direct reads, and self calls whose closure reads it
                for nd in cfg.nodes:
                    if nd.stmt is None or nd in assigns:
                        continue
                    reads = False
                    for part in cfg._own_parts(nd):
                        for x in ast.walk(part):
                            if isinstance(x, ast.Attribute) and isinstance(x.value, ast.Name) and x.value.id == selfn and isinstance(x.ctx, ast.Load):
                                if x.attr == pname:
                                    reads = True
                                else:
                                    g = prog.lookup(c.qual, x.attr)
                                    if g is not None and g is not mf and g is not pf:
                                        gcl, _ = self_closure(prog, c.qual, g, True)
                                        if pf in gcl or any(isinstance(y, ast.Attribute) and y.attr == pname and isinstance(y.value, ast.Name) and y.value.id == (h.params[0] if h.params else "self") for h in gcl for y in walk_local(h.node)):
                                            reads = True
                    if reads and cfg.path_avoiding(cfg.entry, nd.id, {a.id for a in assigns}) is not None:
                        fld = sorted({t.attr for a in assigns for t in (a.stmt.targets if isinstance(a.stmt, ast.Assign) else [a.stmt.target]) if isinstance(t, ast.Attribute)})
                        bad = bad or (mf, nd, fld)
            r.check(bad is None, f"{c.name}.{pname}#not-read-before-its-inputs", site(bad[0], bad[1].stmt) if bad else site(pf), f"memoised; computed from self.{{{', '.join(sorted(deps))[:80]}}}",
                    "every read of the memoised member comes after the assignments of the fields it depends on",
                    f"{c.name}.{pname} is memoised and computed from {bad[2] if bad else ''}, which {bad[0].short if bad else ''} assigns only *after* a path on which the member is already read "
                    f"(line {bad[1].lineno if bad else 0}): the first value sticks - a select nested under another select takes itself for the outermost match and the parts selected "
                    "beneath it never reach the query's selected variables")
    if n < 3:
        raise AnalysisError(f"MATCH-MEMO-ORDER: only {n} memoised members found in match.py")
    return r


def match_ops(prog: Program) -> RuleResult:
    r = RuleResult("MATCH-OPS", "contains / in_ put container and item into the slots the comparator applies them from", floor=3)
    ent = prog.module("entity_query_language.entity")
    fin = ent.funcs["in_"]
    fco = ent.funcs["contains"]
    rets = [n for n in walk_local(fin.node) if isinstance(n, ast.Return)]
    c = rets[0].value if rets else None
    ok = isinstance(c, ast.Call) and src(c.func) == "Comparator" and len(c.args) == 3 and src(c.args[0]) == fin.params[1] and src(c.args[1]) == fin.params[0] and src(c.args[2]) == "operator.contains"
    r.check(ok, "in_#slots", site(fin), src(c), "Comparator(container, item, operator.contains)", "in_(item, container) does not build Comparator(container, item, operator.contains)")
    rets = [n for n in walk_local(fco.node) if isinstance(n, ast.Return)]
    c = rets[0].value if rets else None
    ok = isinstance(c, ast.Call) and src(c.func) == "in_" and [src(a) for a in c.args] == [fco.params[1], fco.params[0]]
    r.check(ok, "contains#slots", site(fco), src(c), "contains(container, item) = in_(item, container)", "contains(container, item) is not in_(item, container)")
    comp = prog.cls("symbolic.Comparator")
    ap = prog.method(comp.qual, "apply_operation", inherited=False)
    calls = [x for x in calls_in(ap.node) if src(x.func) == "self.operation"]
    # which operand does each local derive from? (tuple unpacking pairs element by element; re-assignments keep the role)
    roles: Dict[str, Set[str]] = {}

    def role_of(e: ast.expr) -> Set[str]:
        out: Set[str] = set()
        for x in ast.walk(e):
            if isinstance(x, ast.Attribute) and is_self_attr(x) and x.attr in ("left", "right"):
                out.add(x.attr)
            if isinstance(x, ast.Name) and x.id in roles:
                out |= roles[x.id]
        return out

    for _ in range(4):
        for st in walk_local(ap.node):
            if isinstance(st, ast.Assign):
                for t in st.targets:
                    if isinstance(t, ast.Tuple) and isinstance(st.value, ast.Tuple) and len(t.elts) == len(st.value.elts):
                        for te, ve in zip(t.elts, st.value.elts):
                            if isinstance(te, ast.Name):
                                roles.setdefault(te.id, set()).update(role_of(ve))
                    elif isinstance(t, ast.Name):
                        roles.setdefault(t.id, set()).update(role_of(st.value))
    ok = len(calls) == 1 and len(calls[0].args) == 2 and role_of(calls[0].args[0]) == {"left"} and role_of(calls[0].args[1]) == {"right"}
    r.check(ok, "Comparator.apply_operation#left-right", site(ap), src(calls[0]) if calls else "", "operation(left value, right value)", "the comparator does not apply its operation to (left, right) in that order")
    # match_all compiles to attr == pattern on two collections: "the same set of elements".  On every path on which both operands are
    # collections and the operation is == or !=, both arguments of the operation are sets of the operand's elements.
    from ..dtable import term

    paths = explore(prog, ap, [Sym(ap.params[0]), Sym(ap.params[1])], self_type=comp.qual, inline=lambda q: False)
    n_coll = 0
    bad = None
    for val, out, calls_ in paths:
        it_l = [v for a, v in val.items() if a[0] == "truth" and a[1].startswith("is_iterable(") and ".left." in a[1]]
        it_r = [v for a, v in val.items() if a[0] == "truth" and a[1].startswith("is_iterable(") and ".right." in a[1]]
        eq_like = any(a[0] in ("ord", "in", "is", "eq") and "operation" in str(a[1:]) and v in (0, True) for a, v in val.items())
        if not (it_l and it_r and all(it_l) and all(it_r) and eq_like):
            continue
        # a mapping is no collection of values: its set would be its keys only, it is compared as a mapping
        if any(a[0] == "isinstance" and "Mapping" in str(a[2]) and v for a, v in val.items()):
            continue
        n_coll += 1
        for c_ in calls_:
            if getattr(c_, "fn", "") == f"{ap.params[0]}.operation" and len(c_.args) == 2:
                texts = [term(a_) for a_ in c_.args]
                if not all(any(w in t for w in ("make_set(", "set(", "frozenset(")) for t in texts):
                    bad = bad or (val, texts)
    if n_coll < 1:
        raise AnalysisError("MATCH-OPS: no path of Comparator.apply_operation treats two collection operands under == / !=")
    r.check(bad is None, "Comparator.apply_operation#collections-as-sets", site(ap), f"{n_coll} paths with two collection operands under == / !=",
            "both collections are compared as sets of their elements on every such path",
            "on the path " + (", ".join(f"{' '.join(map(str, a[1:]))[:50]}={v}" for a, v in bad[0].items() if a[0] != "ord" and "operation(" not in str(a[1])) if bad else "") +
            f" the operation is applied to {bad[1] if bad else ''}: match_all (attr == pattern) then depends on order or repetitions instead of meaning 'the same set of elements'")
    return r


def ident_dedup(prog: Program) -> RuleResult:
    r = RuleResult("IDENT-DEDUP", "no engine-side membership / equality on unwrapped user values in the evaluation closure", floor=1)
    se = prog.cls("symbolic.SymbolicExpression")
    starts = []
    for c in prog.subclasses(se.qual):
        for nm in ("_evaluate__", "evaluate"):
            # every concrete class as receiver of the method it inherits: self._apply_mapping_ of a Flatten is Flatten's
            m = prog.lookup(c.qual, nm)
            if m is not None:
                starts.append((m, c.qual))
    ev = {f for f, _ in closure(prog, starts) if ".entity_query_language." in f.qual}
    comp = prog.cls("symbolic.Comparator")
    allowed = {prog.method(comp.qual, "apply_operation", inherited=False)}
    n_scanned = 0
    hits = []
    for f in sorted(ev, key=lambda x: x.qual):
        if f in allowed:
            continue
        n_scanned += 1
        hits += _raw_value_tests(f)
    for f, node, why in hits:
        r.fail(f"{f.short}#raw-value-test", site(f, node), src(node)[:120],
               f"{why}: the engine decides 'already seen' with the user's __eq__ on unwrapped values, so two distinct objects with equal values collapse "
               f"(two cabinets holding equal drawer lists give one answer)")
    r.ok("evaluation-closure#scan", "src/krrood/entity_query_language", "", f"{n_scanned} functions of the evaluation closure scanned, {len(hits)} raw-value tests")
    # positive control
    ctl = ast.parse("def g(self, xs):\n    seen = []\n    for v in xs:\n        if v.value not in seen:\n            seen.append(v.value)\n            yield v\n").body[0]

    class _F:
        node = ctl
    r.control_ok = bool(_raw_value_tests(_F))
    return r


def _raw_value_tests(f):
    out = []
    raw: Set[str] = set()
    for n in walk_local(f.node):
        if isinstance(n, ast.Assign) and len(n.targets) == 1 and isinstance(n.targets[0], ast.Name):
            if _is_unwrapped(n.value, raw):
                raw.add(n.targets[0].id)
    # the elements of an unwrapped collection are unwrapped values too: for inner in <value>.value
    for n in walk_local(f.node):
        if isinstance(n, (ast.For, ast.comprehension)) and isinstance(n.target, ast.Name) and _is_unwrapped(n.iter, raw):
            raw.add(n.target.id)
    raw_containers: Set[str] = set()
    for n in walk_local(f.node):
        if isinstance(n, ast.Call) and isinstance(n.func, ast.Attribute) and n.func.attr in ("append", "add") and isinstance(n.func.value, ast.Name) and n.args and _is_unwrapped(n.args[0], raw):
            raw_containers.add(n.func.value.id)
    for n in walk_local(f.node):
        if isinstance(n, ast.Compare):
            for op, right in zip(n.ops, n.comparators):
                left = n.left
                if isinstance(op, (ast.In, ast.NotIn)) and _is_unwrapped(left, raw):
                    if not (isinstance(right, (ast.List, ast.Tuple)) and all(isinstance(e, (ast.Attribute, ast.Constant)) for e in right.elts)):
                        out.append((f, n, "membership test on an unwrapped value"))
                elif isinstance(op, (ast.Eq, ast.NotEq)) and (_is_unwrapped(left, raw) and _is_unwrapped(right, raw)):
                    out.append((f, n, "equality test between unwrapped values"))
        if isinstance(n, ast.Call) and isinstance(n.func, ast.Attribute) and n.func.attr in ("index", "count", "remove") and n.args and _is_unwrapped(n.args[0], raw):
            out.append((f, n, f".{n.func.attr}() on an unwrapped value"))
    return out


def _is_unwrapped(e, raw: Set[str]) -> bool:
    if isinstance(e, ast.Attribute) and e.attr == "value" and not (isinstance(e.value, ast.Name) and e.value.id == "self"):
        return True
    if isinstance(e, ast.Name) and e.id in raw:
        return True
    # a row of unwrapped values: [r[v._id_].value for v in ...], (a.value, b.value)
    if isinstance(e, (ast.ListComp, ast.GeneratorExp, ast.SetComp)) and _is_unwrapped(e.elt, raw):
        return True
    if isinstance(e, (ast.Tuple, ast.List)) and e.elts and all(_is_unwrapped(x, raw) for x in e.elts):
        return True
    if isinstance(e, ast.Call) and isinstance(e.func, ast.Name) and e.func.id in ("tuple", "list") and e.args and _is_unwrapped(e.args[0], raw):
        return True
    return False


class _Kind:
    """a pattern value known by its kind only"""

    def __init__(self, kind):
        self.kind = kind

    def __repr__(self):
        return f"<{self.kind} value>"


class _KType:
    def __init__(self, name):
        self.name = name

    def __repr__(self):
        return self.name


_ITERABLE_KINDS = {"str", "bytes", "list", "set", "tuple", "frozenset", "dict", "generator"}
# which kinds of value are instances of which (abstract) class - the table Python's own isinstance answers from
_KIND_TABLE = {
    "Iterable": _ITERABLE_KINDS, "Collection": _ITERABLE_KINDS - {"generator"}, "Sized": _ITERABLE_KINDS - {"generator"}, "Container": _ITERABLE_KINDS - {"generator"},
    "Sequence": {"str", "bytes", "list", "tuple"}, "Set": {"set", "frozenset"}, "AbstractSet": {"set", "frozenset"}, "Mapping": {"dict"}, "Hashable": {"str", "bytes", "tuple", "frozenset", "int", "none", "type"},
    "str": {"str"}, "bytes": {"bytes"}, "bytearray": set(), "type": {"type"}, "list": {"list"}, "set": {"set"}, "tuple": {"tuple"}, "frozenset": {"frozenset"}, "dict": {"dict"},
    "int": {"int"}, "float": set(), "bool": set(), "NoneType": {"none"},
    "Match": set(), "CanBehaveLikeAVariable": set(), "SymbolicExpression": set(), "Variable": set(), "Literal": set(), "Symbol": {"object"},
}


class _KindNS:
    def model_attr(self, a):
        if a in _KIND_TABLE:
            return _KType(a)
        if a in ("abc",):
            return self
        raise AnalysisError(f"MATCH-KIND: unknown name .{a} in a test on the pattern value")


def _k_isinstance(v, k):
    if isinstance(k, tuple):
        return any(_k_isinstance(v, x) for x in k)
    if not isinstance(v, _Kind) or not isinstance(k, _KType) or k.name not in _KIND_TABLE:
        raise AnalysisError(f"MATCH-KIND: isinstance({v!r}, {k!r}) is not in the kind table")
    return v.kind in _KIND_TABLE[k.name]


def _k_hasattr(v, name):
    table = {"__iter__": "Iterable", "__len__": "Sized", "__contains__": "Container"}
    if not isinstance(v, _Kind) or name not in table:
        raise AnalysisError(f"MATCH-KIND: hasattr({v!r}, {name!r}) is not in the kind table")
    return v.kind in _KIND_TABLE[table[name]]


def match_kind(prog: Program) -> RuleResult:
    """Which condition a plain pattern value stands for is decided by AttributeAssignment.is_iterable_value: a collection of values means
    membership / containment, anything else - a string, bytes, a number, None, an object, a class - means equality with that value.
    Evaluated for every kind of value over the table of Python's own isinstance / hasattr answers (a str is an Iterable and has
    __iter__: a test that forgets to leave strings out makes `name="crate-2"` mean `name in "crate-2"`, a substring test)."""
    r = RuleResult("MATCH-KIND", "a plain pattern value is a collection exactly when it is a list, set, tuple or frozenset", floor=8)
    c = prog.cls("match.AttributeAssignment")
    f = prog.lookup(c.qual, "is_iterable_value")
    if f is None:
        raise AnalysisError("MATCH-KIND: AttributeAssignment.is_iterable_value vanished")
    g = {n: _KType(n) for n in _KIND_TABLE}
    for ns in ("abc", "collections", "typing", "typing_extensions"):
        g[ns] = _KindNS()
    expected = {"str": False, "bytes": False, "int": False, "none": False, "object": False, "type": False, "list": True, "set": True, "tuple": True, "frozenset": True}
    for kind, want in expected.items():
        paths = explore(prog, f, [Sym("self")], self_type=c.qual, const_attrs={"self.assigned_value": _Kind(kind)}, globals_=g,
                        funcs={"isinstance": _k_isinstance, "hasattr": _k_hasattr}, inline=lambda q: q.endswith(".is_iterable"), max_paths=50)
        outs = {o[1] if o[0] == "return" else o[0] for _v, o, _c in paths}
        r.check(outs == {want}, f"AttributeAssignment.is_iterable_value#{kind}", site(f), f"{kind} value -> {sorted(map(str, outs))}",
                f"a {kind} value is {'a collection (membership)' if want else 'a single value (equality)'}",
                f"a {kind} pattern value is taken for {'a single value' if want else 'a collection'} ({sorted(map(str, outs))}): "
                + ("match(T)(name='crate-2') then means name in 'crate-2' - every element whose name is a substring of the literal (the empty string included) matches, and a "
                   "non-string value raises TypeError" if not want else "match(T)(tags=[...]) then compares the attribute with the list itself instead of testing membership"))
    return r


def _carry1(prog):
    # a pattern is matched against the attribute values the elements have when the query is evaluated: nothing a node records during one
    # evaluation (looked-up attribute values, verdicts) survives into the next
    from .c03 import carry1

    return carry1(prog)


def _hv_truth(prog):
    # a solution / binding / argument whose value is falsy is a value like any other: bound values are asked for presence, not for truth
    from .hvtruth import hv_truth

    return hv_truth(prog)


def match_quantified(prog: Program) -> RuleResult:
    """match_any / select_any mark their pattern existential, match_all / select_all universal - and nothing else.  The names say it; the
    statement defines the two meanings.  Decided from what each factory stores on the match it returns, helpers followed."""
    r = RuleResult("MATCH-QUANTIFIED", "the quantified pattern factories set the flag their name says", floor=4)
    want = {"match_any": ("existential", "universal"), "select_any": ("existential", "universal"), "match_all": ("universal", "existential"), "select_all": ("universal", "existential")}
    n = 0
    for fname, (on, off) in want.items():
        try:
            f = prog.func("match." + fname)
        except Exception:
            continue
        n += 1
        flags = {}

        def scan(g, binds, depth=0):
            for x in walk_local(g.node):
                if isinstance(x, ast.Assign) and len(x.targets) == 1 and isinstance(x.targets[0], ast.Attribute) and x.targets[0].attr in ("existential", "universal"):
                    v = x.value
                    if isinstance(v, ast.Constant):
                        flags[x.targets[0].attr] = v.value
                    elif isinstance(v, ast.Name) and v.id in binds:
                        flags[x.targets[0].attr] = binds[v.id]
                if isinstance(x, ast.Call) and isinstance(x.func, ast.Name) and depth < 2:
                    q = g.module.resolve(x.func)
                    h = prog.functions.get(q) if q else None
                    if h is not None and h.name not in ("match", "select", "entity_matching", "entity_selection"):
                        b = {}
                        a = h.node.args
                        defaults = dict(zip([p_.arg for p_ in a.args][len(a.args) - len(a.defaults):], a.defaults))
                        for p_ in a.args:
                            if p_.arg in defaults and isinstance(defaults[p_.arg], ast.Constant):
                                b[p_.arg] = defaults[p_.arg].value
                        for p_, av in zip([p_.arg for p_ in a.args], x.args):
                            if isinstance(av, ast.Constant):
                                b[p_] = av.value
                        for k in x.keywords:
                            if isinstance(k.value, ast.Constant):
                                b[k.arg] = k.value.value
                        scan(h, b, depth + 1)

        scan(f, {})
        ok = flags.get(on) is True and not flags.get(off, False)
        r.check(ok, f"{fname}#{on}", site(f), f"sets {flags}", f"marks the pattern {on}",
                f"{fname} marks its pattern {dict(flags)}: it is built as {'at least one common element' if flags.get('existential') else 'the same set of elements' if flags.get('universal') else 'a plain match'} "
                f"instead of {on}")
    if n < 4:
        raise AnalysisError("MATCH-QUANTIFIED: the four quantified pattern factories were not found")
    return r


def _domain_given(prog):
    # 'exactly the domain elements of type T': the root variable of a pattern ranges over the domain the pattern was given, an empty one included
    from .c13 import domain_given

    return domain_given(prog)


def match_select(prog: Program) -> RuleResult:
    """'Selected inner parts are reported consistently with the matched element.'  A nested select is resolved like a nested match: on the
    attribute, or - for a collection attribute with constraints - on its flattened elements, and there it selects the variable it was resolved
    on.  The enclosing match must not select the attribute itself as well for such a select (the row would carry the whole collection, and the
    select object would stand for it): it selects the attribute only for a select that is not resolved further."""
    r = RuleResult("MATCH-SELECT", "a nested select is selected once, as the variable its pattern is resolved on", floor=1)
    mt = prog.cls("match.Match")
    f = mt.methods.get("_resolve")
    if f is None:
        raise AnalysisError("MATCH-SELECT: Match._resolve vanished")
    par = parents_of(f.node)
    sel_calls = [c for c in calls_in(f.node) if call_name(c) == "_update_selected_variables" and c.args and isinstance(c.args[0], ast.Attribute) and c.args[0].attr == "attr"]
    res_calls = [c for c in calls_in(f.node) if call_name(c) == "resolve"]
    if not res_calls:
        raise AnalysisError("MATCH-SELECT: Match._resolve no longer resolves nested matches")
    if not sel_calls:
        r.ok("Match._resolve#attribute-selected-for-resolved-selects-only", site(f), "", "the attribute itself is never selected by the enclosing match")
        return r
    bad = None
    for c in sel_calls:
        cur, excl = c, False
        while cur in par:
            up = par[cur]
            if isinstance(up, ast.If):
                t = src(up.test)
                in_body = any(cur is st or cur in ast.walk(st) for st in up.body)
                if "is_an_unresolved_match" in t:
                    neg = any(isinstance(x, ast.UnaryOp) and isinstance(x.op, ast.Not) and "is_an_unresolved_match" in src(x.operand) for x in ast.walk(up.test))
                    if (in_body and neg) or (not in_body and not neg):
                        excl = True
            cur = up
        if not excl:
            bad = bad or c
    r.check(bad is None, "Match._resolve#attribute-selected-for-resolved-selects-only", site(f, bad) if bad is not None else site(f, sel_calls[0]), src(sel_calls[0])[:80],
            "the attribute is selected only where the select is not resolved below",
            f"`{src(bad) if bad is not None else ''}` also runs for a select that is resolved below: for parts=select(Wheel)(name='w1') the whole parts list is selected next to the matched "
            "wheel and answers[select] is the list")
    return r


def run(prog: Program, tier: str) -> List[RuleResult]:
    from .c03 import domain_cache

    # pattern domains and pattern literals are variable domains: the caching iterator must not lose or skip values
    from .c01 import ep_quant, ep_thread

    # match_any compiles to the existential quantifier: one answer per binding of the free variables
    return [guard(lambda: match_table(prog)), guard(lambda: match_kind(prog)), guard(lambda: match_iter(prog)), guard(lambda: match_factory(prog)), guard(lambda: match_memo_order(prog)), guard(lambda: match_ops(prog)), guard(lambda: ident_dedup(prog)), guard(lambda: domain_cache(prog)), guard(lambda: ep_quant(prog)),
            # selected inner parts are evaluated under the bindings of the matched element: the row threading of C01
            guard(lambda: ep_thread(prog)), guard(lambda: _hv_truth(prog)), guard(lambda: _carry1(prog)), guard(lambda: match_select(prog)), guard(lambda: _domain_given(prog)), guard(lambda: match_quantified(prog))]
