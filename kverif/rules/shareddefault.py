"""SHARED-DEFAULT - no default argument constructs an object.

A default value is evaluated once, when the function is defined.  `def f(x, acc=[])`, `def g(q, state=State())` hand the *same*
object to every call that omits the argument: what one call leaves in it is seen by the next.  For the code a property is anchored in
that is state carried from one conversion / translation / evaluation / registration to the next, which every one of these properties
excludes.  Constants (None, numbers, strings, tuples and frozensets of constants, names of module-level constants) are fine.
"""
from __future__ import annotations

import ast
from typing import List

from ..model import Program, AnalysisError
from ..report import RuleResult
from ..astutil import src, site

IMMUTABLE_CALLS = {"frozenset", "tuple", "int", "str", "float", "bool", "bytes", "object"}


def _constructs(d: ast.expr) -> bool:
    if isinstance(d, (ast.List, ast.Dict, ast.Set, ast.ListComp, ast.DictComp, ast.SetComp, ast.GeneratorExp)):
        return True
    if isinstance(d, ast.Call):
        return not (isinstance(d.func, ast.Name) and d.func.id in IMMUTABLE_CALLS and not d.args and not d.keywords) and not (
            isinstance(d.func, ast.Name) and d.func.id in IMMUTABLE_CALLS and all(isinstance(a, ast.Constant) for a in d.args))
    if isinstance(d, (ast.Tuple,)):
        return any(_constructs(x) for x in d.elts)
    return False


def shared_default(prog: Program, module_suffixes: List[str], floor: int) -> RuleResult:
    r = RuleResult("SHARED-DEFAULT", "no default argument constructs an object that calls would share", floor=1)
    n = 0
    offenders = []
    aliased = []
    for m in prog.modules.values():
        if not any(m.name.endswith(s) or (s.endswith(".") and (s in m.name + ".")) for s in module_suffixes):
            continue
        for f in [f for f in prog.functions.values() if f.module is m]:
            a = f.node.args
            n += 1
            for d in list(a.defaults) + [d for d in a.kw_defaults if d is not None]:
                if _constructs(d):
                    offenders.append((f, d))
        # nested functions and lambdas are not in the function table: walk the module for their defaults too
        for x in ast.walk(m.tree):
            if isinstance(x, ast.Lambda):
                for d in list(x.args.defaults) + [d for d in x.args.kw_defaults if d is not None]:
                    if _constructs(d):
                        offenders.append((None, d))
        # one object under several keys / at several positions: dict.fromkeys(keys, <constructed>) and [<constructed>] * n evaluate the
        # value once - what is recorded under one key is found under the other
        for x in ast.walk(m.tree):
            if isinstance(x, ast.Call) and isinstance(x.func, ast.Attribute) and x.func.attr == "fromkeys" and len(x.args) >= 2 and _constructs(x.args[1]):
                aliased.append((m, x))
            if isinstance(x, ast.BinOp) and isinstance(x.op, ast.Mult):
                for side in (x.left, x.right):
                    if isinstance(side, (ast.List, ast.Tuple)) and any(_constructs(e) for e in side.elts):
                        aliased.append((m, x))
    if n < floor:
        raise AnalysisError(f"SHARED-DEFAULT: only {n} functions found in {module_suffixes}")
    for m, x in aliased:
        r.fail(f"{m.name.split('.')[-1]}#one-object-under-several-keys:{src(x)[:30]}", f"{m.relpath}:{x.lineno}", src(x)[:80],
               f"`{src(x)[:60]}` evaluates the value once: every key (position) refers to the same object, so what is recorded under one is found under the others "
               "(a de-duplication memory for false results shared with the one for true results swallows a later true result)")
    seen = set()
    for f, d in offenders:
        key = f"{f.short if f is not None else 'lambda'}#default:{src(d)[:30]}"
        if key in seen:
            continue
        seen.add(key)
        r.fail(key, site(f, d) if f is not None else "", src(d)[:80],
               f"the default `{src(d)[:60]}` is built once, when the function is defined, and handed to every call that omits the argument: whatever a call records in it "
               "(memoised objects, joined paths, collected elements) is still there for the next call")
    # positive control: the detector flags the shapes it is about and lets constants through
    ctl = lambda t: _constructs(ast.parse(t, mode="eval").body)
    r.control_ok = ctl("JoinManager()") and ctl("[]") and ctl("{}") and ctl("(1, [])") and not ctl("None") and not ctl("(1, 2)") and not ctl("frozenset()") and not ctl("DEFAULT")
    if not offenders and not aliased:
        r.ok("module#no-constructed-defaults", "", f"{n} functions in {', '.join(module_suffixes)}", "every default is a constant")
    return r
