"""C19 - unresolvable JSON type tags fail with the documented serialisation errors only.

JS-ESCAPE: typestate / exception-flow analysis of the tag resolver.  The value stored under the
type-tag key may be *any* JSON value; everything derived from it (module name, class name, module
object, looked-up attribute) is tracked as a set of possible kinds.  Every operation applied to a
tracked value is looked up in an effect table (which exceptions it can raise for which kinds) and
each possible exception must be intercepted by an enclosing handler that raises a
JSONSerializationError subclass - or be impossible because a dominating guard removed the kind.
"""
from __future__ import annotations

import ast
from typing import Dict, FrozenSet, List, Optional, Set, Tuple

from ..model import Program, AnalysisError, dotted, FuncInfo, walk_local, parents_of
from ..report import RuleResult, guard
from ..astutil import src, site, call_name, calls_in

EXPLANATION = (
    "Abstract interpretation of SubclassJSONSerializer.from_json over a finite kind domain: the tag may be "
    "none/bool/int/float/str(empty | leading-dot | other)/list/dict; import_module yields a module; getattr on it "
    "yields a class, a named non-class (function, TypeVar) or a plain value. Each operation on a tracked value "
    "is given the set of exceptions it can raise for the kinds that can reach it (effect table in the checker); "
    "guards (isinstance, truthiness, startswith) refine the kinds on the branch they dominate; try/except "
    "handlers are matched through the builtin exception hierarchy. Obligation: no exception outside the "
    "JSONSerializationError hierarchy can leave the resolver from a tag-resolution step."
)
ASSUMPTIONS = [
    "importing a named module does not itself raise anything other than ImportError (module bodies are outside the property)",
    "exceptions raised inside a resolved class's own _from_json are outside the property",
    "effect table of str methods, importlib.import_module, getattr, issubclass, dict.get as documented for CPython 3.12",
]

JSON_KINDS = frozenset({"none", "bool", "int", "float", "str_empty", "str_dot", "str_ok", "list", "dict"})
STR = frozenset({"str_empty", "str_dot", "str_ok"})
OBJ = frozenset({"class_ser", "class_other", "named", "value"})
CLS = frozenset({"class_ser", "class_other"})
TYPE_KINDS = {
    "str": STR,
    "int": frozenset({"int", "bool"}),
    "float": frozenset({"float"}),
    "bool": frozenset({"bool"}),
    "NoneType": frozenset({"none"}),
    "list": frozenset({"list"}),
    "tuple": frozenset(),
    "set": frozenset(),
    "dict": frozenset({"dict"}),
    "type": frozenset({"class_ser", "class_other"}),
}
FALSY_REMOVABLE = frozenset({"none", "str_empty"})  # kinds that are *always* falsy
ALWAYS_TRUTHY = frozenset({"str_dot", "str_ok", "module", "class_ser", "class_other", "named"})

BUILTIN_EXC_PARENTS = {
    "ModuleNotFoundError": "ImportError",
    "ImportError": "Exception",
    "AttributeError": "Exception",
    "ValueError": "Exception",
    "TypeError": "Exception",
    "KeyError": "LookupError",
    "NotImplementedError": "RuntimeError",
    "RuntimeError": "Exception",
    "LookupError": "Exception",
    "Exception": "BaseException",
}
STR_METHODS = {"rsplit", "split", "partition", "rpartition", "startswith", "endswith", "strip", "count", "find", "rfind", "index", "lower"}


def exc_covers(handler: str, exc: str) -> bool:
    e = exc
    while e is not None:
        if e == handler:
            return True
        e = BUILTIN_EXC_PARENTS.get(e)
    return False


class Escape:
    def __init__(self, exc, role, node, kinds):
        self.exc, self.role, self.node, self.kinds = exc, role, node, kinds


class Interp:
    def __init__(self, prog: Program, f: FuncInfo, tag_key: str):
        self.default_hooks = []
        self.prog = prog
        self.f = f
        self.mod = f.module
        self.tag_key = tag_key
        self.escapes: List[Escape] = []
        self.ops: List[Tuple[str, ast.AST, FrozenSet[str], Set[str]]] = []
        self.handlers: List[List[Tuple[List[str], ast.ExceptHandler]]] = []
        self.raised_repo: List[Tuple[str, ast.AST]] = []
        self.json_err = prog.cls("json_serializer.JSONSerializationError").qual
        self.alias: Dict[str, ast.expr] = {}  # boolean locals holding a guard expression
        self.tuples: Dict[str, List[Optional[FrozenSet[str]]]] = {}  # element kinds of tuples returned by inlined helpers
        self.inline_returns: List[List] = []  # stack: what the helper being inlined returns
        self.inline_depth = 0

    # ---- helpers ------------------------------------------------------------------------
    def resolve_type_tuple(self, e: ast.expr) -> Optional[FrozenSet[str]]:
        """kinds matched by isinstance(x, <e>)"""
        if isinstance(e, ast.Tuple):
            out = frozenset()
            for x in e.elts:
                r = self.resolve_type_tuple(x)
                if r is None:
                    return None
                out |= r
            return out
        if isinstance(e, ast.Name):
            if e.id in TYPE_KINDS:
                return TYPE_KINDS[e.id]
            g = self.mod.globals_.get(e.id)
            if g is not None and isinstance(g, ast.Assign):
                return self.resolve_type_tuple(g.value)
            q = self.mod.resolve(e)
            if q == "ext:types.NoneType":
                return TYPE_KINDS["NoneType"]
        return None

    def raise_(self, exc: str, role: str, node: ast.AST, kinds):
        """An operation may raise builtin `exc`; see whether an enclosing handler intercepts it."""
        for level in reversed(self.handlers):
            for types, h in level:
                if any(exc_covers(t, exc) for t in types):
                    # handler body must end in raising a JSONSerializationError subclass
                    ok = self.handler_converts(h)
                    if not ok:
                        self.escapes.append(Escape(exc, role + " (handler does not convert)", node, kinds))
                    return
        self.escapes.append(Escape(exc, role, node, kinds))

    def handler_converts(self, h: ast.ExceptHandler) -> bool:
        for s in h.body:
            if isinstance(s, ast.Raise) and s.exc is not None:
                e = s.exc.func if isinstance(s.exc, ast.Call) else s.exc
                # the handler belongs to the function being analysed, also while a helper of another module is being inlined
                q = self.f.module.resolve(e)
                return q in self.prog.classes and self.prog.is_subclass(q, self.json_err)
        return False

    def op(self, role: str, node: ast.AST, kinds: FrozenSet[str], table: Dict[str, FrozenSet[str]], env=None, operand=None):
        """table: exception -> kinds for which it can be raised.  Whatever raises does not continue:
        when the operand is a plain variable its kinds are narrowed for the code that follows."""
        raised = set()
        allbad = frozenset()
        for exc, bad in table.items():
            if kinds & bad:
                raised.add(exc)
                allbad |= kinds & bad
                self.raise_(exc, role, node, sorted(kinds & bad))
        self.ops.append((role, node, kinds, raised))
        if env is not None and isinstance(operand, ast.Name) and env.get(operand.id) is not None:
            env[operand.id] = env[operand.id] - allbad

    # ---- expressions --------------------------------------------------------------------
    def ev(self, e: ast.expr, env: Dict[str, FrozenSet[str]]) -> Optional[FrozenSet[str]]:
        """kinds of a tracked value, None for untracked"""
        if isinstance(e, ast.Name):
            return env.get(e.id)
        if isinstance(e, ast.Constant):
            return None
        if isinstance(e, ast.Call):
            return self.call(e, env)
        if isinstance(e, ast.Attribute):
            base = self.ev(e.value, env)
            if base is not None:
                if e.attr == "__name__":
                    self.op(f"{src(e.value)}.__name__", e, base, {"AttributeError": base - CLS - {"named", "module"}})
                    return STR
                if base <= {"class_ser"}:
                    return None
                self.op(f"{src(e.value)}.{e.attr}", e, base, {"AttributeError": base - {"class_ser"}}, env, e.value)
            return None
        if isinstance(e, ast.Subscript):
            self.ev(e.value, env)
            return None
        if isinstance(e, (ast.BoolOp,)):
            for v in e.values:
                self.ev(v, env)
            return None
        if isinstance(e, ast.UnaryOp):
            self.ev(e.operand, env)
            return None
        if isinstance(e, ast.Compare):
            self.ev(e.left, env)
            for c in e.comparators:
                self.ev(c, env)
            return None
        if isinstance(e, (ast.ListComp, ast.GeneratorExp)):
            return None
        if isinstance(e, ast.JoinedStr):
            return None
        if isinstance(e, ast.Tuple):
            for x in e.elts:
                self.ev(x, env)
            return None
        return None

    def call(self, c: ast.Call, env) -> Optional[FrozenSet[str]]:
        f = c.func
        name = call_name(c)
        argk = [self.ev(a, env) for a in c.args]
        for k in c.keywords:
            self.ev(k.value, env)
        # x.get(TAG)
        if isinstance(f, ast.Attribute) and name == "get" and c.args and src(c.args[0]) == self.tag_key:
            base = self.ev(f.value, env)
            if base is not None:
                self.op(f"{src(f.value)}.get", c, base, {"AttributeError": base - {"dict"}})
            return JSON_KINDS - ({"none"} if False else frozenset())
        if isinstance(f, ast.Subscript) or (isinstance(f, ast.Attribute) and name == "__getitem__"):
            return None
        if isinstance(f, ast.Attribute):
            base = self.ev(f.value, env)
            if base is not None and name in STR_METHODS:
                self.op(f"{src(f.value)}.{name}", c, base, {"AttributeError": base - STR}, env, f.value)
                if name in ("rsplit", "split"):
                    return frozenset({"splitlist"})
                if name in ("partition", "rpartition"):
                    return frozenset({"triple"})
                return None
            if base is not None and name not in STR_METHODS:
                if not base <= {"class_ser"}:
                    self.op(f"{src(f.value)}.{name}", c, base, {"AttributeError": base - {"class_ser"}}, env, f.value)
                # the named class may be the serialiser base itself (or a subclass that does not override the hook):
                # the default hook raises NotImplementedError
                hook = self.prog.lookup(self.f.cls.qual, name)
                if hook is not None and any(isinstance(x, ast.Raise) and "NotImplementedError" in src(x) for x in ast.walk(hook.node)) and (base & {"class_ser"}):
                    self.op(f"{src(f.value)}.{name}() default hook", c, base & {"class_ser"}, {"NotImplementedError": base & {"class_ser"}})
                if hook is not None and (base & {"class_ser"}):
                    # the named class may be the serialiser base itself or a subclass that inherits this default: if the default can return
                    # (an empty body returns None) the reader hands out None as the deserialised object
                    self.default_hooks.append((hook, c))
                return None
            q = self.mod.resolve(f)
            if q == "ext:importlib.import_module" and c.args:
                k = argk[0]
                if k is not None:
                    self.op(
                        "import_module",
                        c,
                        k,
                        {
                            "ModuleNotFoundError": k & {"str_ok"},
                            # a module that is found but fails while importing (missing name in a dependency,
                            # circular import, platform guard) "cannot be imported" just as much
                            "ImportError": k & {"str_ok"},
                            # the parent packages of a dotted name are imported recursively: a name with hundreds of segments exhausts the stack
                            "RecursionError": k & {"str_ok"},
                            "ValueError": k & {"str_empty"},
                            "TypeError": k & {"str_dot"},
                            "AttributeError": k - STR,
                        },
                        env,
                        c.args[0],
                    )
                return frozenset({"module"})
            if q == "ext:importlib.util.find_spec" and c.args:
                k = argk[0]
                if k is not None:
                    # find_spec imports the parent packages (ImportError and its kin), and for a module that is loaded already it answers
                    # from `sys.modules[name].__spec__`: a module without a spec (the __main__ of a script, a types.ModuleType put into
                    # sys.modules) is a ValueError, as is the empty name
                    self.op("find_spec", c, k, {"ModuleNotFoundError": k & {"str_ok"}, "ImportError": k & {"str_ok", "str_dot"}, "RecursionError": k & {"str_ok"},
                                                "ValueError": k & {"str_ok", "str_empty"}, "AttributeError": k - STR}, env, c.args[0])
                return None
            if q and q.startswith("ext:") and any(k is not None for k in argk):
                raise AnalysisError(f"JS-ESCAPE: the tag reaches `{src(c)[:70]}` ({q[4:]}), a library call the effect table has no row for - what it raises for an unresolvable tag is not known")
            # repo method receiving a tracked value: dict-key use requires hashability
            for i, k in enumerate(argk):
                if k is not None and (k & {"value"}):
                    target = None
                    for cq in self.prog.classes.values():
                        if name in cq.methods:
                            target = cq.methods[name]
                    if target is not None:
                        body = src(target.node)
                        pname = target.params[i + 1] if len(target.params) > i + 1 else None
                        if pname and (f".get({pname}" in body or f"[{pname}]" in body):
                            self.op(f"{name}({src(c.args[i])}) used as dict key", c, k, {"TypeError": k & {"value"}}, env, c.args[i])
            return None
        if isinstance(f, ast.Name):
            if f.id == "getattr" and len(c.args) >= 2:
                base, nm = argk[0], argk[1]
                if base is not None and len(c.args) == 2:
                    # ... and, when the object is a module, whatever a lazily produced attribute raises on import (six.moves.dbm_gnu without _gdbm)
                    self.op("getattr", c, base, {"AttributeError": base, "ImportError": base & frozenset({"module"})} if (base & frozenset({"module"})) else {"AttributeError": base})
                if nm is not None:
                    self.op("getattr-name", c, nm, {"TypeError": nm - STR})
                if base is not None and base <= {"module"}:
                    return OBJ
                return None
            if f.id == "issubclass" and c.args:
                k = argk[0]
                if k is not None:
                    self.op("issubclass", c, k, {"TypeError": k - CLS}, env, c.args[0])
                return None
            if f.id in ("isinstance", "type", "id", "repr", "str", "bool", "callable", "hasattr"):
                return None
            q = self.mod.resolve(f)
            if q in self.prog.classes:
                # constructing a repo class (error objects): does its initialiser touch the argument?
                ci = self.prog.classes[q]
                flds = [n for n, fi in self.prog.fields(q).items() if not fi.is_classvar and fi.in_init]
                for i, k in enumerate(argk):
                    if k is None or i >= len(flds):
                        continue
                    for mname in ("__post_init__", "__init__"):
                        m = self.prog.lookup(q, mname)
                        if m is None:
                            continue
                        for n in ast.walk(m.node):
                            if (
                                isinstance(n, ast.Attribute)
                                and isinstance(n.value, ast.Attribute)
                                and isinstance(n.value.value, ast.Name)
                                and n.value.value.id == "self"
                                and n.value.attr == flds[i]
                            ):
                                if n.attr == "__name__":
                                    self.op(f"{ci.name}({src(c.args[i])}).__name__", c, k, {"AttributeError": k - CLS - {"named", "module"}})
                                else:
                                    self.op(f"{ci.name}({src(c.args[i])}).{n.attr}", c, k, {"AttributeError": k - CLS})
                        # operations of the initialiser on the stored argument that only work for some kinds

                        def is_fld(x):
                            return isinstance(x, ast.Attribute) and isinstance(x.value, ast.Name) and x.value.id == "self" and x.attr == flds[i]

                        label = f"{ci.name}({src(c.args[i])})"
                        nonstr = k - STR
                        for n in ast.walk(m.node):
                            if isinstance(n, ast.FormattedValue) and is_fld(n.value) and n.format_spec is not None and n.format_spec.values:
                                # format(v, spec) with a non-empty spec: object.__format__ rejects it, numbers reject string specs
                                self.op(f"{label} formatted with spec {src(n.format_spec)}", c, k,
                                        {"TypeError": nonstr - {"int", "bool", "float"}, "ValueError": nonstr & {"int", "bool", "float"}})
                            if isinstance(n, ast.Call) and isinstance(n.func, ast.Name) and n.func.id == "format" and len(n.args) == 2 and is_fld(n.args[0]):
                                self.op(f"{label} format(v, spec)", c, k, {"TypeError": nonstr - {"int", "bool", "float"}, "ValueError": nonstr & {"int", "bool", "float"}})
                            if isinstance(n, ast.BinOp) and isinstance(n.op, ast.Add) and (is_fld(n.left) or is_fld(n.right)):
                                other = n.right if is_fld(n.left) else n.left
                                if isinstance(other, (ast.Constant, ast.JoinedStr)) and (isinstance(other, ast.JoinedStr) or isinstance(other.value, str)):
                                    self.op(f"{label} concatenated with a string", c, k, {"TypeError": nonstr})
                            if isinstance(n, ast.Subscript) and is_fld(n.value):
                                self.op(f"{label} subscripted", c, k, {"TypeError": nonstr - {"list", "dict"}, "KeyError": nonstr & {"dict"}} if not isinstance(n.slice, ast.Slice)
                                        else {"TypeError": nonstr - {"list"}})
                            if isinstance(n, ast.Call) and isinstance(n.func, ast.Name) and n.func.id == "len" and n.args and is_fld(n.args[0]):
                                self.op(f"len({label})", c, k, {"TypeError": nonstr - {"list", "dict"}})
                            if isinstance(n, ast.Call) and isinstance(n.func, ast.Attribute) and n.func.attr == "join" and n.args and is_fld(n.args[0]):
                                self.op(f"str.join({label})", c, k, {"TypeError": nonstr})
                return None
            if q in self.prog.functions:
                g = self.prog.functions[q]
                if any(k is not None for k in argk) and self.inline_depth < 2 and g.cls is None:
                    # a helper of the repository that is handed a tracked value (the tag, a part of it) is interpreted with the same
                    # transfer functions: what it raises goes through the handlers around the call, what it returns keeps its kinds,
                    # and the guards it applies - or fails to apply - refine them
                    sub = {p: k for p, k in zip(g.params, argk)}
                    self.inline_returns.append([])
                    self.inline_depth += 1
                    saved_mod, saved_alias = self.mod, self.alias
                    self.mod, self.alias = g.module, {}
                    try:
                        self.block(g.node.body, sub)
                    finally:
                        self.mod, self.alias = saved_mod, saved_alias
                        self.inline_depth -= 1
                    rets = self.inline_returns.pop()
                    tuples = [r for r in rets if isinstance(r, list)]
                    plain = [r for r in rets if not isinstance(r, list) and r is not None]
                    if tuples and len({len(t) for t in tuples}) == 1:
                        key = f"tuple#{len(self.tuples)}"
                        self.tuples[key] = [frozenset().union(*[t[i] for t in tuples if t[i] is not None]) if any(t[i] is not None for t in tuples) else None for i in range(len(tuples[0]))]
                        return frozenset({key})
                    if plain:
                        return frozenset().union(*plain)
                return None
        return None

    # ---- guards -------------------------------------------------------------------------
    def refine(self, cond: ast.expr, env, pol: bool):
        """environment on the branch where `cond` evaluates to `pol`"""
        env = dict(env)
        if isinstance(cond, ast.UnaryOp) and isinstance(cond.op, ast.Not):
            return self.refine(cond.operand, env, not pol)
        if isinstance(cond, ast.BoolOp):
            is_and = isinstance(cond.op, ast.And)
            if is_and == pol:  # all operands have value `pol`
                for v in cond.values:
                    env = self.refine(v, env, pol)
                return env
            # disjunctive information: join of the single refinements
            outs = [self.refine(v, env, pol) for v in cond.values]
            res = {}
            for k in env:
                ks = [o.get(k) for o in outs]
                if all(x is not None for x in ks):
                    res[k] = frozenset().union(*ks)
            return res
        if isinstance(cond, ast.Name) and cond.id in self.alias:
            return self.refine(self.alias[cond.id], env, pol)
        if isinstance(cond, ast.Name) and cond.id in env and env[cond.id] is not None:
            k = env[cond.id]
            env[cond.id] = (k - FALSY_REMOVABLE) if pol else (k - ALWAYS_TRUTHY)
            return env
        if isinstance(cond, ast.Call) and isinstance(cond.func, ast.Name) and cond.func.id == "isinstance" and len(cond.args) == 2:
            v, t = cond.args
            if isinstance(v, ast.Name) and env.get(v.id) is not None:
                kinds = self.resolve_type_tuple(t)
                if kinds is not None:
                    env[v.id] = (env[v.id] & kinds) if pol else (env[v.id] - kinds)
            return env
        if isinstance(cond, ast.Call) and isinstance(cond.func, ast.Attribute) and cond.func.attr == "startswith":
            v = cond.func.value
            if isinstance(v, ast.Name) and env.get(v.id) is not None and cond.args and isinstance(cond.args[0], ast.Constant) and cond.args[0].value == ".":
                env[v.id] = (env[v.id] & {"str_dot"}) if pol else (env[v.id] - {"str_dot"})
            return env
        if isinstance(cond, ast.Compare) and len(cond.ops) == 1 and isinstance(cond.left, ast.Name) and env.get(cond.left.id) is not None:
            op, rhs = cond.ops[0], cond.comparators[0]
            if isinstance(rhs, ast.Constant) and rhs.value is None and isinstance(op, (ast.Is, ast.IsNot)):
                isnone = isinstance(op, ast.Is) == pol
                env[cond.left.id] = (env[cond.left.id] & {"none"}) if isnone else (env[cond.left.id] - {"none"})
            if isinstance(rhs, ast.Constant) and rhs.value == "" and isinstance(op, (ast.Eq, ast.NotEq)):
                isempty = isinstance(op, ast.Eq) == pol
                env[cond.left.id] = (env[cond.left.id] & {"str_empty"}) if isempty else (env[cond.left.id] - {"str_empty"})
            return env
        if isinstance(cond, ast.Call) and isinstance(cond.func, ast.Name) and cond.func.id == "issubclass" and len(cond.args) == 2:
            v, t = cond.args
            if isinstance(v, ast.Name) and env.get(v.id) is not None and self.mod.resolve(t) == self.f.cls.qual:
                env[v.id] = (env[v.id] & {"class_ser"}) if pol else (env[v.id] - {"class_ser"})
            return env
        return env

    # ---- statements ---------------------------------------------------------------------
    def block(self, stmts, env) -> Optional[Dict]:
        for s in stmts:
            if env is None:
                return None
            env = self.stmt(s, env)
        return env

    def stmt(self, s, env):
        if isinstance(s, ast.Expr):
            self.ev(s.value, env)
            return env
        if isinstance(s, ast.Assign):
            v = self.ev(s.value, env)
            env = dict(env)
            for t in s.targets:
                if isinstance(t, ast.Name):
                    env[t.id] = v
                    self.alias.pop(t.id, None)
                    if isinstance(s.value, (ast.Compare, ast.BoolOp, ast.UnaryOp)) or (
                        isinstance(s.value, ast.Call) and isinstance(s.value.func, ast.Name) and s.value.func.id in ("isinstance", "issubclass")
                    ):
                        self.alias[t.id] = s.value
                elif isinstance(t, ast.Tuple):
                    if v is not None and "splitlist" in v:
                        # rsplit(sep, 1) yields 1 or 2 parts: unpacking into 2 may fail
                        if len(t.elts) == 2:
                            self.raise_("ValueError", "unpack rsplit result", s, ["str without separator"])
                        parts = [STR, frozenset({"str_empty", "str_ok"})] if len(t.elts) == 2 else [STR] * len(t.elts)
                        for tt, kk in zip(t.elts, parts):
                            if isinstance(tt, ast.Name):
                                env[tt.id] = kk
                    elif v is not None and any(x.startswith("tuple#") for x in v):
                        kinds = self.tuples[next(x for x in v if x.startswith("tuple#"))]
                        for tt, kk in zip(t.elts, kinds):
                            if isinstance(tt, ast.Name):
                                env[tt.id] = kk
                    elif v is not None and "triple" in v:
                        for tt in t.elts:
                            if isinstance(tt, ast.Name):
                                env[tt.id] = STR
                    else:
                        for tt in t.elts:
                            if isinstance(tt, ast.Name):
                                env[tt.id] = None
            return env
        if isinstance(s, ast.AnnAssign) and s.value is not None and isinstance(s.target, ast.Name):
            env = dict(env)
            env[s.target.id] = self.ev(s.value, env)
            return env
        if isinstance(s, ast.Return):
            if s.value is not None:
                if self.inline_returns and isinstance(s.value, ast.Tuple):
                    self.inline_returns[-1].append([self.ev(x, env) for x in s.value.elts])
                else:
                    v = self.ev(s.value, env)
                    if self.inline_returns:
                        self.inline_returns[-1].append(v)
            return None
        if isinstance(s, ast.Raise):
            if s.exc is not None:
                self.ev(s.exc, env)
                e = s.exc.func if isinstance(s.exc, ast.Call) else s.exc
                q = self.mod.resolve(e)
                if not self.inline_depth:
                    # what an inlined helper raises is judged where it arrives: at the handlers around the call
                    self.raised_repo.append((q, s))
                nm = (dotted(e) or "").split(".")[-1]
                if self.inline_depth and (nm in BUILTIN_EXC_PARENTS or nm in ("Exception", "BaseException")):
                    # a builtin exception raised by an inlined helper travels through the handlers around the call
                    self.raise_(nm, f"raised by {self.mod.name.split('.')[-1]} helper", s, ["any"])
            return None
        if isinstance(s, ast.If):
            self.ev(s.test, env)
            e1 = self.block(s.body, self.refine(s.test, env, True))
            e2 = self.block(s.orelse, self.refine(s.test, env, False))
            return self.join(e1, e2)
        if isinstance(s, ast.Try):
            level = []
            for h in s.handlers:
                ts = h.type.elts if isinstance(h.type, ast.Tuple) else ([h.type] if h.type is not None else [])
                names = [(dotted(t) or "").split(".")[-1] for t in ts] or ["BaseException"]
                level.append((names, h))
            self.handlers.append(level)
            e1 = self.block(s.body, env)
            self.handlers.pop()
            if s.orelse and e1 is not None:
                e1 = self.block(s.orelse, e1)
            outs = [e1]
            for h in s.handlers:
                outs.append(self.block(h.body, env))
            res = None
            for o in outs:
                res = self.join(res, o)
            if s.finalbody and res is not None:
                res = self.block(s.finalbody, res)
            return res
        if isinstance(s, (ast.For, ast.While, ast.With)):
            raise AnalysisError(f"JS-ESCAPE: no transfer function for {type(s).__name__} in {self.f.qual}")
        return env

    @staticmethod
    def join(a, b):
        if a is None:
            return b
        if b is None:
            return a
        out = {}
        for k in set(a) | set(b):
            x, y = a.get(k), b.get(k)
            out[k] = None if x is None or y is None else x | y
        return out


def js_escape(prog: Program) -> RuleResult:
    r = RuleResult("JS-ESCAPE", "no builtin exception raised by a tag-resolution step leaves from_json unconverted", floor=5)
    cls = prog.cls("json_serializer.SubclassJSONSerializer")
    f = prog.method(cls.qual, "from_json", inherited=False)
    tag_key = "JSON_TYPE_NAME"
    if tag_key not in f.module.globals_:
        raise AnalysisError("JS-ESCAPE: the type-tag key constant vanished")
    it = Interp(prog, f, tag_key)
    data_param = f.params[1]
    env = {data_param: JSON_KINDS}
    it.block(f.node.body, env)
    if not any(role.endswith(".get") for role, *_ in it.ops):
        raise AnalysisError("JS-ESCAPE: the read of the type tag was not found in from_json")
    esc_by_key = {}
    for e in it.escapes:
        esc_by_key.setdefault((e.role, e.exc), e)
    seen = set()
    for role, node, kinds, raised in it.ops:
        for exc in sorted(raised) or [None]:
            key = f"SubclassJSONSerializer.from_json#{role}" + (f":{exc}" if exc else "")
            if key in seen:
                continue
            seen.add(key)
            e = esc_by_key.get((role, exc)) or next((x for (ro, ex), x in esc_by_key.items() if ex == exc and ro.startswith(role)), None)
            if exc is None:
                r.ok(key, site(f, node), src(node), f"cannot raise for kinds {sorted(kinds)}")
            elif e is None:
                r.ok(key, site(f, node), src(node), f"{exc} is converted to a JSONSerializationError by an enclosing handler")
            else:
                r.fail(key, site(f, node), src(node),
                       f"{exc} escapes from_json for tag kinds {e.kinds}: no dominating guard removes them and no enclosing handler converts it",
                       kinds=e.kinds)
    for e in it.escapes:
        if e.role.startswith("unpack"):
            key = f"SubclassJSONSerializer.from_json#{e.role}:{e.exc}"
            if key not in seen:
                seen.add(key)
                r.fail(key, site(f, e.node), src(e.node), f"{e.exc} escapes: tag without separator is not converted")
    # the default hook of the serialiser base never returns normally: a class named by the tag that has no _from_json of its own would
    # otherwise be "deserialised" into whatever the default returns (None for an empty body) - a wrongly typed object instead of an error
    from ..cfg import CFG

    for hook, c in {h.qual: (h, c) for h, c in it.default_hooks}.values():
        cfg = CFG(hook.node)
        can_return = cfg.exit in cfg.reachable(cfg.entry)
        r.check(not can_return, f"{hook.short}#default-never-returns", site(hook), f"called as {src(c)[:60]}", "every path of the default raises",
                f"{hook.short} can return normally (an empty or pass-only body returns None): from_json then answers a tag that names the serialiser base, or a subclass without its own "
                f"{hook.name}, with None instead of ClassNotDeserializableError")
    # getattr(module, name) runs the module's own __getattr__ when the name is not there (PEP 562).  The resolver converts AttributeError
    # only, so every module-level __getattr__ of the package - the modules a tag can name - must let nothing else out.
    RAISING = {"import_module": "ImportError / ModuleNotFoundError / ValueError", "__import__": "ImportError", "getattr": "AttributeError (fine) - or whatever the target's own hook raises",
               "get_type_hints": "NameError", "eval": "anything", "exec": "anything", "open": "OSError"}
    hooks = [f_ for f_ in prog.functions.values() if f_.name == "__getattr__" and f_.cls is None and f_.node in f_.module.tree.body]
    # what the resolver converts around its getattr(module, name): exceptions of those classes may leave a hook
    HOOK_RAISES = {"import_module": {"ImportError"}, "__import__": {"ImportError"}, "get_type_hints": {"NameError"}, "open": {"OSError"}}
    conv = set()
    res_ = it.f
    for t_ in [x for x in ast.walk(res_.node) if isinstance(x, ast.Try)]:
        if any(isinstance(c_, ast.Call) and isinstance(c_.func, ast.Name) and c_.func.id == "getattr" for st in t_.body for c_ in ast.walk(st)):
            for h in t_.handlers:
                names = [src(t).split(".")[-1] for t in (h.type.elts if isinstance(h.type, ast.Tuple) else [h.type])] if h.type is not None else ["BaseException"]
                if h.body and isinstance(h.body[-1], ast.Raise):
                    conv |= set(names)
    if "ModuleNotFoundError" in conv and "ImportError" not in conv:
        conv.discard("ModuleNotFoundError")  # not the whole family
    r.note(f"the resolver converts {sorted(conv)} around getattr(module, name)")
    for hk in sorted(hooks, key=lambda x: x.qual):
        bad = None
        parents = {}
        for n_ in ast.walk(hk.node):
            for ch in ast.iter_child_nodes(n_):
                parents[ch] = n_

        def converted(node) -> bool:
            """inside a try whose handler for the raised class re-raises AttributeError"""
            x = node
            while x in parents:
                p_ = parents[x]
                if isinstance(p_, ast.Try) and x in p_.body:
                    for h in p_.handlers:
                        names = [src(t) for t in (h.type.elts if isinstance(h.type, ast.Tuple) else [h.type])] if h.type is not None else ["BaseException"]
                        if any(nm.split(".")[-1] in ("ImportError", "ModuleNotFoundError", "Exception", "BaseException") for nm in names) and \
                                any(isinstance(y, ast.Raise) and y.exc is not None and "AttributeError" in src(y.exc) for b in h.body for y in ast.walk(b)):
                            return True
                x = p_
            return False

        for n_ in ast.walk(hk.node):
            if isinstance(n_, ast.Raise) and n_.exc is not None and "AttributeError" not in src(n_.exc) and not converted(n_):
                bad = bad or (n_, f"raises {src(n_.exc)[:40]}")
            if isinstance(n_, ast.Call) and call_name(n_) in RAISING and call_name(n_) != "getattr" and not converted(n_):
                classes = HOOK_RAISES.get(call_name(n_))
                if classes is not None and (classes <= conv or "Exception" in conv or "BaseException" in conv):
                    continue  # the resolver converts what this call can raise
                bad = bad or (n_, f"{call_name(n_)}() can raise {RAISING[call_name(n_)]}")
        r.check(bad is None, f"{hk.module.name.split('.')[-1] or hk.module.name}.__getattr__#only-attribute-error", site(hk, bad[0]) if bad else site(hk), src(bad[0])[:80] if bad else "module-level __getattr__",
                "a missing name ends in AttributeError",
                f"the module-level __getattr__ of {hk.module.name} lets another exception out ({bad[1] if bad else ''}): a tag that names a missing attribute of that module "
                f"('{hk.module.name}.DoesNotExist') leaves from_json with that exception instead of ClassNotFoundError - the resolver converts AttributeError only")
    r.note(f"{len(hooks)} module-level __getattr__ hook(s) in the package")
    # every explicit raise is a documented error
    jerr = it.json_err
    for q, s in it.raised_repo:
        good = q in prog.classes and prog.is_subclass(q, jerr)
        r.check(good, f"SubclassJSONSerializer.from_json#raise:{(q or '?').split('.')[-1]}", site(f, s), src(s),
                "documented error", f"raises {q}, which is not a JSONSerializationError subclass")
    return r


def js_registry(prog: Program) -> RuleResult:
    from .c18 import registry_exact

    r = RuleResult("JS-REGISTRY", "a class is deserialisable through the registry only if exactly that class was registered", floor=3)
    # how long the registry keeps what was registered is C18's question: a forgotten registration still fails with the documented error
    registry_exact(prog, r, strong_tables=False)
    return r


# calls that cannot re-enter the reader (they run no user code that deserialises a nested document)
_NO_REENTRY = STR_METHODS | {"import_module", "getattr", "isinstance", "issubclass", "get", "get_deserializer", "get_serializer", "JSONSerializableTypeRegistry", "type", "len", "str"}


def js_relabel(prog: Program) -> RuleResult:
    """A handler in the reader that converts a builtin exception into one of the library's errors wraps a step that may deserialise a nested
    document (a class's own _from_json, a registered deserializer). The library's error for the *nested* document travels through that
    handler: it must not be an instance of what the handler catches, or it is caught and replaced by an error about the *outer* class -
    the failure is still 'loud', but it names the wrong class and hides which tag could not be resolved."""
    r = RuleResult("JS-RELABEL", "no library error is an instance of a builtin exception that a converting handler around nested deserialisation catches", floor=1)
    ser = prog.cls("json_serializer.SubclassJSONSerializer")
    f = prog.lookup(ser.qual, "from_json")
    base = prog.cls("json_serializer.JSONSerializationError")
    errors = [base] + list(prog.subclasses(base.qual))

    def builtin_bases(c) -> Set[str]:
        out = set()
        for q in prog.mro(c.qual) if hasattr(prog, "mro") else [c.qual]:
            k = prog.classes.get(q)
            if k is None:
                continue
            for b in k.node.bases:
                name = dotted(b) or ""
                if name.split(".")[-1] in BUILTIN_EXC_PARENTS or name.split(".")[-1] in ("Exception", "BaseException"):
                    out.add(name.split(".")[-1])
        return out

    n = 0
    for t in [x for x in walk_local(f.node) if isinstance(x, ast.Try)]:
        reenter = [c for b in t.body for c in calls_in(b) if (call_name(c) or "") not in _NO_REENTRY]
        if not reenter:
            continue
        for h in t.handlers:
            converts = any(isinstance(x, ast.Raise) and x.exc is not None for b in h.body for x in ast.walk(b))
            if not converts or h.type is None:
                continue
            caught = [dotted(e).split(".")[-1] for e in (h.type.elts if isinstance(h.type, ast.Tuple) else [h.type]) if dotted(e)]
            n += 1
            hit = None
            for c in errors:
                for bb in builtin_bases(c):
                    if any(exc_covers(hc, bb) for hc in caught):
                        hit = hit or (c, bb)
            r.check(hit is None, f"SubclassJSONSerializer.from_json#except-{'-'.join(caught)}-around-{call_name(reenter[0])}", site(f, h), src(h.type),
                    "none of the library's errors is caught by this handler",
                    f"{hit[0].name if hit else ''} is also a {hit[1] if hit else ''}: raised for a nested document inside {src(reenter[0])[:50]}, it is caught here and replaced by an error about "
                    "the enclosing class - the message names a class that can be deserialised and the unresolvable tag is lost")
    if n == 0:
        r.ok("SubclassJSONSerializer.from_json#no-converting-handler-around-nested-calls", site(f), "", "no handler converts exceptions of a step that can re-enter the reader")
    return r


def js_raisable(prog: Program) -> RuleResult:
    """The error that leaves from_json has to *arrive* as that error.  On its way out the interpreter and the standard library write to the
    exception object: `raise ... from` and the traceback are set from C, but a generator-based context manager the error passes through
    (`with engine.begin():`, any @contextmanager) assigns `exc.__traceback__` from Python - as does `with_traceback`, `add_note`, and frameworks
    that annotate errors.  An exception class that rejects attribute assignment (a frozen dataclass, __slots__ without __dict__, a
    __setattr__ of its own) turns the documented error into FrozenInstanceError / AttributeError at that point."""
    r = RuleResult("JS-RAISABLE", "the documented errors accept the attribute writes raising and propagating perform", floor=3)
    base = prog.cls("json_serializer.JSONSerializationError")
    n = 0
    for c in sorted(prog.subclasses(base.qual, strict=False), key=lambda x: x.qual):
        n += 1
        why = None
        for q in c.mro:
            k = prog.classes.get(q)
            if k is None or not prog.is_subclass(k.qual, base.qual):
                continue
            if k.decorator_kw("dataclass", "frozen") is True:
                why = f"{k.name} is a frozen dataclass"
            if k.decorator_kw("dataclass", "slots") is True or "__slots__" in k.attrs:
                why = why or f"{k.name} declares __slots__"
            for m in ("__setattr__", "__delattr__"):
                if m in k.methods:
                    why = why or f"{k.name} defines {m}"
        r.check(why is None, f"{c.name}#attributes-can-be-set", c.loc, " ".join("@" + d for d in c.decorators)[:80], "instances accept attribute assignment",
                f"{why}: the first Python-level write to the exception on its way out (contextlib's `exc.__traceback__ = traceback` when the error passes through `with engine.begin():` "
                f"or any @contextmanager block) raises FrozenInstanceError / AttributeError in place of the documented error")
    if n < 3:
        raise AnalysisError("JS-RAISABLE: fewer than three error classes below JSONSerializationError")
    # ... and constructing the error cannot fail either: the payload is whatever the tag resolved to (any object, a class whose __module__ is
    # None or a descriptor).  Formatting it into an f-string is total; concatenating, %-formatting or joining its attributes is not, and a
    # helper of the repository applied to it is only as total as its body.
    def partial_ops(fn, depth=0):
        out = []
        for x in walk_local(fn.node):
            if isinstance(x, ast.BinOp) and isinstance(x.op, (ast.Add, ast.Mod)) and any(isinstance(y, ast.Attribute) for side in (x.left, x.right) for y in ast.walk(side)):
                out.append((fn, x))
            if isinstance(x, ast.Call) and isinstance(x.func, ast.Attribute) and x.func.attr == "join":
                out.append((fn, x))
            if isinstance(x, ast.Call) and isinstance(x.func, ast.Name) and depth < 2:
                q = fn.module.resolve(x.func)
                g = prog.functions.get(q) if q else None
                if g is not None:
                    out += partial_ops(g, depth + 1)
        return out

    for c in sorted(prog.subclasses(base.qual, strict=False), key=lambda x: x.qual):
        for nm in ("__post_init__", "__init__", "__str__", "__repr__"):
            m = c.methods.get(nm)
            if m is None:
                continue
            ops = partial_ops(m)
            r.check(not ops, f"{c.name}.{nm}#message-is-total", site(ops[0][0], ops[0][1]) if ops else site(m), src(ops[0][1])[:80] if ops else "", "the message is built by formatting only",
                    f"building the message runs `{src(ops[0][1])[:70] if ops else ''}` (in {ops[0][0].short if ops else ''}) on attributes of the payload: for a class whose __module__ is not a string "
                    f"(type(name, bases, {{'__module__': None}}), extension types) it raises TypeError while the documented error is being constructed")
    return r


def js_stateless(prog: Program) -> RuleResult:
    """Whether a tag resolves is a question about the interpreter *now*: a module that cannot be imported (any more - unloaded, blocked with
    sys.modules[name] = None, its directory gone) is an UnknownModuleError.  A memo in front of the import (lru_cache does not remember
    failures, but it remembers every success) answers for the module as it was: the tag resolves to a class of a module that is gone."""
    r = RuleResult("JS-STATELESS", "resolving a tag consults the import system every time", floor=1)
    mod = prog.module("adapters.json_serializer") if hasattr(prog, "module") else None
    m = next(mm for mm in prog.modules.values() if mm.name.endswith("adapters.json_serializer"))
    memo_names = {}
    for st in m.tree.body:
        if isinstance(st, ast.Assign) and len(st.targets) == 1 and isinstance(st.targets[0], ast.Name):
            if any(isinstance(y, (ast.Name, ast.Attribute)) and (getattr(y, "id", None) in ("lru_cache", "cache") or getattr(y, "attr", None) in ("lru_cache", "cache")) for y in ast.walk(st.value)):
                memo_names[st.targets[0].id] = st
    res = prog.lookup(prog.cls("json_serializer.SubclassJSONSerializer").qual, "from_json")
    used = [c for c in calls_in(res.node) if isinstance(c.func, ast.Name) and c.func.id in memo_names]
    deco = [f_ for f_ in prog.functions.values() if f_.module is m and f_.is_lru_cache and any(call_name(c) == f_.name for c in calls_in(res.node))]
    bad = used or deco
    r.check(not bad, "SubclassJSONSerializer.from_json#no-memo-before-the-import", site(res, used[0]) if used else site(res), src(used[0])[:60] if used else (deco[0].short if deco else ""), "every resolution imports",
            f"`{src(memo_names[used[0].func.id])[:70] if used else (deco[0].short if deco else '')}` memoises a step of the resolution: a module that was importable once still resolves after it stopped "
            "being importable - the tag yields an instance of an unloaded class (or ClassNotFoundError) instead of UnknownModuleError")
    return r


def js_entry(prog: Program) -> RuleResult:
    """from_json is not the only way into deserialisation: the engine the library creates reads JSON columns through a deserialiser of its own
    making, helpers wrap it.  A caller inside the library that catches one of the documented errors and goes on - returns the raw document,
    a default - hands out 'a wrongly typed object' for exactly the documents the property is about (and for any nested document that lacks
    its tag below a correct one)."""
    r = RuleResult("JS-ENTRY", "no caller of from_json inside the library swallows the documented errors", floor=1)
    base = prog.cls("json_serializer.JSONSerializationError")
    fam = {c.name for c in prog.subclasses(base.qual, strict=False)} | {base.name, "Exception", "BaseException", "ValueError", "TypeError", "KeyError", "LookupError"}
    n = 0
    for f in sorted(prog.functions.values(), key=lambda x: x.qual):
        calls = [c for c in calls_in(f.node) if call_name(c) in ("from_json", "_from_json") and not f.module.name.endswith("adapters.json_serializer")]
        lam = [c for x in ast.walk(f.node) if isinstance(x, ast.Lambda) for c in ast.walk(x.body) if isinstance(c, ast.Call) and call_name(c) == "from_json"]
        if not calls and not lam:
            continue
        n += 1
        par = parents_of(f.node)
        bad = None
        for c in calls:
            cur = c
            while cur in par:
                up = par[cur]
                if isinstance(up, ast.Try) and any(cur is st or cur in ast.walk(st) for st in up.body):
                    for h in up.handlers:
                        names = [src(t).split(".")[-1] for t in (h.type.elts if isinstance(h.type, ast.Tuple) else [h.type] if h.type is not None else [])]
                        if (not names or any(nm in fam for nm in names)) and not (h.body and isinstance(h.body[-1], ast.Raise)):
                            bad = bad or (c, h)
                cur = up
        r.check(bad is None, f"{f.short}#errors-propagate", site(f, bad[1]) if bad else site(f), src(bad[1]).splitlines()[0][:80] if bad else "", "the documented errors of from_json leave the caller",
                f"`{src(bad[1]).splitlines()[0] if bad else ''}` in {f.short} catches an error of from_json and goes on: a document without a usable type tag (also one nested below a correct tag) "
                "comes out as a plain dict / list instead of raising")
    if n < 1:
        raise AnalysisError("JS-ENTRY: no caller of from_json outside json_serializer.py (the engine's deserialiser is the confirmed instance)")
    return r


def run(prog: Program, tier: str) -> List[RuleResult]:
    return [guard(lambda: js_entry(prog)), guard(lambda: js_stateless(prog)), guard(lambda: js_escape(prog)), guard(lambda: js_registry(prog)), guard(lambda: js_relabel(prog)), guard(lambda: js_raisable(prog))]
