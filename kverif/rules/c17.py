"""C17 - class diagrams mirror the Python classes and derived views leave them intact.

WF-TABLE     every field is classified as its annotation says (predicates evaluated from source
             over the finite annotation grammar)
CD-EDGES     one inheritance edge per mapped direct base, one association per public field whose
             endpoint is mapped; only unmapped ends are skipped
CD-READONLY  documented views / renderings have no write effect on state reachable from self
"""
from __future__ import annotations

import ast
from typing import Dict, List, Optional, Set, Tuple

from ..model import Program, AnalysisError, FuncInfo, walk_local, dotted
from ..report import RuleResult, guard
from ..astutil import src, site, calls_in, call_name, is_self_attr, kwarg
from ..cfg import CFG
from ..effects import effects, write_summary, MUT_ADD, MUT_DEL
from .. import typemodel

EXPLANATION = (
    "WF-TABLE: the WrappedField predicates are evaluated abstractly from wrapped_field.py over representatives of every "
    "category of the supported annotation grammar; only typing facts (origin/args of each category) are tabled in the "
    "checker, and each (category, predicate) cell is compared with what the annotation dictates. CD-EDGES: on the CFG of the "
    "two relation builders every iteration over (class, direct base) / (class, field) reaches the edge insertion unless it "
    "leaves through the handler for an unmapped end; the edge is built with the right orientation and the public-field "
    "filter sits in the introspector. CD-READONLY: effect analysis with a shallow-copy alias model - a method that is not one "
    "of the constructive mutators must not mutate a container reachable from self, directly, through a callee, or through a "
    "`copy(self)` whose container field was not replaced by a fresh object."
)
ASSUMPTIONS = [
    "typing.get_origin/get_args facts for the grammar's categories as tabled in kverif/typemodel.py",
    "resolution of forward references at run time (get_type_hints) is not decided",
    "copy.copy of a dataclass instance shares every field object with the original",
]

CD = "class_diagram.ClassDiagram"
CONSTRUCTIVE = ("__post_init__", "add_node", "add_relation", "remove_edges", "clear", "_create_inheritance_relations", "_create_association_relations", "_create_all_relations")


def wf_table(prog: Program) -> RuleResult:
    r = RuleResult("WF-TABLE", "field classification predicates agree with the annotation grammar in every cell", floor=100)
    typemodel.wf_table(prog, r, classify_only=True)
    return r


def _reaches_or_skips(cfg: CFG, loop_node, add_nodes: Set[int], skip_ok) -> Optional[List[int]]:
    """a path through one iteration of `loop_node` that neither inserts the edge nor leaves
    through an allowed skip; None if there is none"""
    entry = [s for s in loop_node.succ if loop_node.id in cfg.nodes[s].loops]
    allowed = set(add_nodes) | {n.id for n in cfg.nodes if skip_ok(n)}
    for e in entry:
        if e in allowed:
            continue
        p = cfg.path_avoiding(e, loop_node.id, allowed)
        if p is not None:
            return p
    return None


def cd_edges(prog: Program) -> RuleResult:
    r = RuleResult("CD-EDGES", "relation builders insert an edge for every mapped base / mapped field endpoint", floor=8)
    cd = prog.cls(CD)
    unm = "ClassIsUnMappedInClassDiagram"

    def in_unmapped_handler(cfg, f):
        def ok(n):
            if not isinstance(n.stmt, ast.Continue):
                return False
            # the continue must sit in a handler of the unmapped-class error
            for h in [x for x in ast.walk(f.node) if isinstance(x, ast.ExceptHandler)]:
                if any(s is n.stmt for s in ast.walk(h)) and h.type is not None and unm in src(h.type):
                    return True
            return False
        return ok

    # inheritance
    f = prog.method(cd.qual, "_create_inheritance_relations", inherited=False)
    cfg = CFG(f.node)
    loops = [n for n in cfg.nodes if n.kind == "for"]
    outer = [n for n in loops if src(n.stmt.iter) == "self.wrapped_classes"]
    inner = [n for n in loops if src(n.stmt.iter).endswith(".__bases__")]
    r.check(len(outer) == 1 and len(inner) == 1 and outer[0].id in inner[0].loops, "ClassDiagram._create_inheritance_relations#loops", site(f), "",
            "every wrapped class x every direct base", "does not iterate every wrapped class and each of its direct bases (__bases__)")
    if inner:
        adds = {n.id for n in cfg.nodes if n.kind == "stmt" and any(call_name(c) == "add_relation" for c in calls_in(n.stmt))}
        # `if source:` guard after a successful lookup is tolerated (lookup never returns a falsy wrapper)
        def skip_ok(n, base=in_unmapped_handler(cfg, f)):
            return base(n)
        p = _reaches_or_skips(cfg, inner[0], adds, skip_ok)
        tolerated = False
        if p is not None:
            tests = [cfg.nodes[i] for i in p if cfg.nodes[i].kind == "test"]
            tolerated = all(isinstance(t.stmt.test, ast.Name) for t in tests) and bool(tests)
        r.check(p is None or tolerated, "ClassDiagram._create_inheritance_relations#every-mapped-base", site(f), "",
                "an edge is added unless the base is unmapped", f"a direct base can be skipped although it is mapped: path {cfg.describe(p) if p else ''}")
        ctor = [c for c in calls_in(f.node) if call_name(c) == "Inheritance"]
        tv = inner[0].stmt.target.id if isinstance(inner[0].stmt.target, ast.Name) else "?"
        ov = outer[0].stmt.target.id if outer and isinstance(outer[0].stmt.target, ast.Name) else "?"
        good = len(ctor) == 1 and src(kwarg(ctor[0], "target")) == ov and kwarg(ctor[0], "source") is not None
        # source must be the wrapped form of the base variable
        srcv = src(kwarg(ctor[0], "source")) if ctor else ""
        lk = [s for s in walk_local(f.node) if isinstance(s, ast.Assign) and src(s.targets[0]) == srcv and isinstance(s.value, ast.Call) and call_name(s.value) == "get_wrapped_class" and src(s.value.args[0]) == tv]
        r.check(good and bool(lk), "ClassDiagram._create_inheritance_relations#orientation", site(f, ctor[0]) if ctor else site(f), src(ctor[0]) if ctor else "",
                "Inheritance(source=base, target=subclass)", "the inheritance edge is not built from the wrapped direct base to the class")
    # associations
    f = prog.method(cd.qual, "_create_association_relations", inherited=False)
    cfg = CFG(f.node)
    loops = [n for n in cfg.nodes if n.kind == "for"]
    outer = [n for n in loops if src(n.stmt.iter) == "self.wrapped_classes"]
    inner = [n for n in loops if src(n.stmt.iter).endswith(".fields")]
    r.check(len(outer) == 1 and len(inner) == 1 and outer[0].id in inner[0].loops, "ClassDiagram._create_association_relations#loops", site(f), "",
            "every wrapped class x every discovered field", "does not iterate every field of every wrapped class")
    if inner:
        adds = {n.id for n in cfg.nodes if n.kind == "stmt" and any(call_name(c) == "add_relation" for c in calls_in(n.stmt))}
        p = _reaches_or_skips(cfg, inner[0], adds, in_unmapped_handler(cfg, f))
        r.check(p is None, "ClassDiagram._create_association_relations#every-mapped-endpoint", site(f), "",
                "an association is added unless the endpoint is unmapped", f"a field can be skipped although its endpoint is mapped: path {cfg.describe(p) if p else ''}")
        fv = inner[0].stmt.target.id if isinstance(inner[0].stmt.target, ast.Name) else "?"
        ov = outer[0].stmt.target.id if outer and isinstance(outer[0].stmt.target, ast.Name) else "?"
        tt = [s for s in walk_local(f.node) if isinstance(s, ast.Assign) and src(s.value) == f"{fv}.type_endpoint"]
        r.check(len(tt) == 1, "ClassDiagram._create_association_relations#endpoint", site(f), src(tt[0]) if tt else "", "target looked up from the field's type endpoint (through Optional / containers)",
                "the association target is not the field's type endpoint")
        rel = None
        for s in walk_local(f.node):
            if isinstance(s, ast.Assign) and isinstance(s.value, ast.Call) and {k.arg for k in s.value.keywords} == {"field", "source", "target"}:
                rel = s.value
        good = rel is not None and src(kwarg(rel, "field")) == fv and src(kwarg(rel, "source")) == ov
        if good and tt:
            tv = src(tt[0].targets[0])
            lk = [s for s in walk_local(f.node) if isinstance(s, ast.Assign) and src(s.targets[0]) == src(kwarg(rel, "target")) and isinstance(s.value, ast.Call) and call_name(s.value) == "get_wrapped_class" and src(s.value.args[0]) == tv]
            good = bool(lk)
        r.check(good, "ClassDiagram._create_association_relations#orientation", site(f, rel) if rel is not None else site(f), src(rel) if rel is not None else "",
                "Association(field, source=owner, target=endpoint class)", "the association is not built from the owning class to the wrapped endpoint with its field")
        # role-taker refinement needs both guards
        ifs = [s for s in walk_local(f.node) if isinstance(s, ast.If) and "is_role_taker" in src(s.test)]
        ok = len(ifs) == 1 and "issubclass" in src(ifs[0].test) and "Role" in src(ifs[0].test) and isinstance(ifs[0].test, ast.BoolOp) and isinstance(ifs[0].test.op, ast.And)
        inner_if = [s for s in (ifs[0].body if ifs else []) if isinstance(s, ast.If)]
        ok = ok and len(inner_if) == 1 and isinstance(inner_if[0].test, ast.Compare) and isinstance(inner_if[0].test.ops[0], ast.Is)
        r.check(ok, "ClassDiagram._create_association_relations#role-taker", site(f), src(ifs[0].test) if ifs else "", "HasRoleTaker only for role-taker fields of Role classes whose parameter is the endpoint",
                "HasRoleTaker refinement is not guarded by is_role_taker, Role subclass and matching type parameter")
    # constructor wires it up
    pi = prog.method(cd.qual, "__post_init__", inherited=False)
    calls = [call_name(c) for c in calls_in(pi.node)]
    r.check("add_node" in calls and "_create_all_relations" in calls, "ClassDiagram.__post_init__#build", site(pi), str(calls), "one node per class, then relations",
            "construction does not add one node per class and then create the relations")
    allr = prog.method(cd.qual, "_create_all_relations", inherited=False)
    calls = [call_name(c) for c in calls_in(allr.node)]
    r.check("_create_inheritance_relations" in calls and "_create_association_relations" in calls, "ClassDiagram._create_all_relations#both", site(allr), str(calls), "both builders run", "one relation builder is not run")
    # public-field filter lives in the introspector
    di = prog.method("attribute_introspector.DataclassOnlyIntrospector", "discover", inherited=False)
    comps = [n for n in walk_local(di.node) if isinstance(n, ast.ListComp)]
    ok = False
    for c in comps:
        g = c.generators[0]
        ok = ok or ("dc_fields" in src(g.iter) and len(g.ifs) == 1 and src(g.ifs[0]) == f"not {src(g.target)}.name.startswith('_')")
    r.check(ok, "DataclassOnlyIntrospector.discover#public-fields", site(di), src(comps[0]) if comps else "", "exactly the dataclass fields not starting with an underscore",
            "the introspector does not return exactly the public dataclass fields")
    return r


def cd_readonly(prog: Program) -> RuleResult:
    r = RuleResult("CD-READONLY", "non-constructive methods of ClassDiagram do not mutate state reachable from self", floor=15)
    cd = prog.cls(CD)
    summ = write_summary(prog, cd)
    container_fields = [n for n, fi in prog.fields(cd.qual).items() if not fi.is_initvar]
    # what the diagram keeps between calls: its fields and whatever its memoised properties / methods computed (a cached_property value
    # lives in the instance dict: handing it out, or an element of it, hands out the diagram's own object)
    stored_names = set(container_fields) | {n for n, g in cd.methods.items() if g.is_cached_property or g.is_lru_cache}
    for name, f in sorted(cd.methods.items()):
        if name in CONSTRUCTIVE or name in ("__hash__", "__eq__"):
            continue
        key = f"ClassDiagram.{name}"
        direct = {w for w in summ.get(name, set()) if w in container_fields}
        if direct:
            r.fail(key + "#direct", site(f), "", f"mutates {sorted(direct)} of the diagram it is called on")
            continue
        # shallow-copy alias model
        selfname = f.params[0] if f.params else "self"
        copies: Dict[str, Set[str]] = {}  # local -> fields already replaced by fresh objects
        aliases: Dict[str, str] = {}  # local -> field of self it aliases
        deep: Set[str] = set()  # locals that are (elements of) stored state: dataclass fields and memoised values
        bad = None
        for s in _ordered_stmts(f.node):
            if (isinstance(s, ast.Assign) and len(s.targets) == 1) or (isinstance(s, ast.AnnAssign) and s.value is not None):
                t, v = (s.targets[0] if isinstance(s, ast.Assign) else s.target), s.value
                if isinstance(t, ast.Name) and isinstance(v, ast.Call) and call_name(v) == "copy" and v.args and src(v.args[0]) == selfname and isinstance(v.func, (ast.Name, ast.Attribute)) and not (isinstance(v.func, ast.Attribute) and src(v.func.value) == selfname):
                    copies[t.id] = set()
                    continue
                if isinstance(t, ast.Attribute) and isinstance(t.value, ast.Name) and t.value.id in copies:
                    if _fresh(v):
                        copies[t.value.id].add(t.attr)
                    continue
                if isinstance(t, ast.Name) and isinstance(v, ast.Attribute) and isinstance(v.value, ast.Name):
                    if v.value.id in copies and v.attr not in copies[v.value.id]:
                        aliases[t.id] = v.attr
                    elif v.value.id == selfname:
                        aliases[t.id] = v.attr
                        if v.attr in stored_names:
                            deep.add(t.id)
                # an element taken out of stored state (a field or a memoised value) is that state's own object
                if isinstance(t, ast.Name):
                    root = None
                    if isinstance(v, ast.Call) and isinstance(v.func, ast.Attribute) and v.func.attr in ("get", "setdefault", "__getitem__", "pop") and isinstance(v.func.value, ast.Name) and v.func.value.id in deep:
                        root = v.func.value.id
                    if isinstance(v, ast.Subscript) and isinstance(v.value, ast.Name) and v.value.id in deep:
                        root = v.value.id
                    if isinstance(v, ast.Call) and isinstance(v.func, ast.Attribute) and v.func.attr in ("get", "setdefault") and isinstance(v.func.value, ast.Attribute) \
                            and isinstance(v.func.value.value, ast.Name) and v.func.value.value.id == selfname and v.func.value.attr in stored_names:
                        aliases[t.id] = v.func.value.attr + "[...]"
                        deep.add(t.id)
                    if root is not None:
                        aliases[t.id] = aliases.get(root, root) + "[...]"
                        deep.add(t.id)
            for c in [x for x in ast.walk(s) if isinstance(x, ast.Call) and isinstance(x.func, ast.Attribute)]:
                recv = c.func.value
                m = c.func.attr
                if isinstance(recv, ast.Name) and recv.id in copies:
                    shared = {w for w in summ.get(m, set()) if w in container_fields and w not in copies[recv.id]}
                    if shared:
                        bad = bad or (c, f"{recv.id} is a shallow copy of self; {recv.id}.{m}() mutates {sorted(shared)}, which is still the original's object")
                if isinstance(recv, ast.Name) and recv.id in aliases and (m in MUT_ADD or m in MUT_DEL):
                    bad = bad or (c, f"{recv.id} aliases self.{aliases[recv.id]}; {m}() mutates the original diagram" + (" (memoised: every later reader sees the change)" if recv.id in deep else ""))
                if isinstance(recv, ast.Attribute) and isinstance(recv.value, ast.Name) and recv.value.id in copies and recv.attr not in copies[recv.value.id] and (m in MUT_ADD or m in MUT_DEL):
                    bad = bad or (c, f"{src(recv)} is shared with the original; {m}() mutates it")
        r.check(bad is None, key + "#no-shared-write", site(f, bad[0]) if bad else site(f), src(bad[0]) if bad else "",
                "no write reaches the diagram it was derived from", bad[1] if bad else "")
    return r


def _ordered_stmts(fn):
    out = []

    def rec(stmts):
        for s in stmts:
            out.append(s)
            for fld in ("body", "orelse", "finalbody"):
                sub = getattr(s, fld, None)
                if isinstance(sub, list) and sub and isinstance(sub[0], ast.stmt) and not isinstance(s, (ast.FunctionDef, ast.ClassDef)):
                    rec(sub)
            for h in getattr(s, "handlers", []) or []:
                rec(h.body)

    rec(fn.body)
    # statements with bodies are yielded whole first: restrict call scanning to their own header
    return [_Header(s) if hasattr(s, "body") and not isinstance(s, (ast.FunctionDef, ast.ClassDef)) else s for s in out]


class _Header(ast.AST):
    """wrapper exposing only the header expressions of a compound statement to ast.walk"""

    _fields = ("parts",)

    def __init__(self, s):
        self.parts = []
        for fld in ("test", "iter", "target", "items", "subject"):
            v = getattr(s, fld, None)
            if v is not None:
                self.parts.extend(v if isinstance(v, list) else [v])


def _fresh(v: ast.expr) -> bool:
    """expression that yields a new object not shared with the original"""
    if isinstance(v, ast.Call):
        nm = call_name(v)
        return nm in ("copy", "deepcopy", "PyDiGraph", "dict", "list", "set") or nm[:1].isupper()
    return isinstance(v, (ast.Dict, ast.List, ast.Set, ast.DictComp, ast.ListComp, ast.SetComp))


def _paths(e: ast.AST, alias: Dict[str, Tuple[str, ...]], roots: Set[str]) -> Set[Tuple[str, ...]]:
    """maximal attribute chains rooted at a parameter (through local aliases) that an expression reads"""
    out: Set[Tuple[str, ...]] = set()

    def chain(x):
        parts = []
        while isinstance(x, ast.Attribute):
            parts.append(x.attr)
            x = x.value
        if isinstance(x, ast.Name):
            base = alias.get(x.id, (x.id,) if x.id in roots else None)
            if base is not None:
                return tuple(base) + tuple(reversed(parts))
        return None

    def visit(x):
        if isinstance(x, (ast.Attribute, ast.Name)):
            c = chain(x)
            if c is not None:
                out.add(c)
                return
        for ch in ast.iter_child_nodes(x):
            visit(ch)

    visit(e)
    return out


def _eq_fields(prog: Program, f, path: Tuple[str, ...]) -> Optional[Set[str]]:
    """When the object a key path denotes compares by some of its fields only (a hand-written __eq__), the set of those fields:
    two equal keys may differ everywhere else. None when the object compares by identity / all fields, or its type is unknown."""
    from .c06 import _eq_identity_grounded

    if f.cls is None or not path or path[0] != f.params[0]:
        return None
    t = f.cls.qual
    for a in path[1:]:
        t = prog.field_type(t, a)
        if t is None or t not in prog.classes:
            return None
    eq = prog.lookup(t, "__eq__")
    if eq is None or _eq_identity_grounded(prog, t):
        return None
    out = set()
    for root in eq.params[:2]:
        out |= {pth[1:] for pth in _paths(eq.node, {}, {root}) if pth[0] == root and len(pth) > 1}
    return out


def _memo_findings(fn_node: ast.FunctionDef, tables: Set[str], eq_fields=lambda path: None):
    """hand-rolled memo stores TABLE[key] = value in one function: (store node, key paths, read paths the key does not determine)"""
    a = fn_node.args
    roots = {x.arg for x in a.posonlyargs + a.args + a.kwonlyargs}
    alias: Dict[str, Tuple[str, ...]] = {}
    body_nodes = [n for n in ast.walk(fn_node)]
    for n in body_nodes:
        if isinstance(n, ast.Assign) and len(n.targets) == 1 and isinstance(n.targets[0], ast.Name) and isinstance(n.value, (ast.Attribute, ast.Name)):
            ps = _paths(n.value, alias, roots)
            if len(ps) == 1:
                alias[n.targets[0].id] = next(iter(ps))
    out = []
    for n in body_nodes:
        if isinstance(n, ast.Assign):
            for t in n.targets:
                if isinstance(t, ast.Subscript) and ((isinstance(t.value, ast.Name) and t.value.id in tables) or (isinstance(t.value, ast.Attribute) and t.value.attr in tables and not (isinstance(t.value.value, ast.Name) and t.value.value.id == "self" and False))):
                    keys = _paths(t.slice, alias, roots)
                    reads: Set[Tuple[str, ...]] = set()
                    for m in fn_node.body:
                        reads |= _paths(m, alias, roots)
                    # a read is determined by the key when a key path is a prefix of it; the table itself is not an input
                    def covered(p):
                        for k in keys:
                            if p[: len(k)] == k:
                                ef = eq_fields(k)
                                if ef is None or len(p) == len(k) or any(p[len(k):][: len(e)] == e for e in ef):
                                    return True
                        return False

                    free = sorted(p for p in reads if not covered(p) and not (len(p) >= 2 and p[-1] in tables))
                    # a bare root (self) read only as the prefix of longer paths is not itself a read
                    free = [p for p in free if len(p) > 1 or not any(q[:1] == p and len(q) > 1 for q in reads)]
                    out.append((n, keys, free))
    return out


def cd_memo(prog: Program) -> RuleResult:
    r = RuleResult("CD-MEMO", "a memo table in the class-diagram layer is keyed by everything the memoised value depends on", floor=0)
    n_tables = 0
    for m in prog.modules.values():
        if ".class_diagrams" not in m.name:
            continue
        tables = set()
        for st in m.tree.body:
            tg = st.targets[0] if isinstance(st, ast.Assign) and len(st.targets) == 1 else getattr(st, "target", None)
            val = getattr(st, "value", None)
            if isinstance(tg, ast.Name) and val is not None and (isinstance(val, ast.Dict) or (isinstance(val, ast.Call) and isinstance(val.func, ast.Name) and val.func.id in ("dict", "defaultdict", "WeakKeyDictionary"))):
                tables.add(tg.id)
        for c in m.classes.values():
            for st in c.node.body:
                tg = st.targets[0] if isinstance(st, ast.Assign) and len(st.targets) == 1 else getattr(st, "target", None)
                val = getattr(st, "value", None)
                if isinstance(tg, ast.Name) and isinstance(val, ast.Dict) and "ClassVar" in src(getattr(st, "annotation", ast.Constant(""))):
                    tables.add(tg.id)
        if not tables:
            continue
        n_tables += len(tables)
        for f in [f for f in prog.functions.values() if f.module is m]:
            for node, keys, free in _memo_findings(f.node, tables, lambda path, f=f: _eq_fields(prog, f, path)):
                r.check(not free, f"{f.short}#memo-key", site(f, node), src(node)[:100], f"the stored value reads only what the key {sorted('.'.join(k) for k in keys)} determines",
                        f"{f.short} memoises under {sorted('.'.join(k) for k in keys)} but the value also depends on {['.'.join(p) for p in free]}: the first caller's "
                        f"context is frozen for every later one - a second diagram resolves forward references against the first diagram's classes and loses its association edges")
    r.note(f"{n_tables} hand-rolled memo tables in krrood.class_diagrams")
    # positive control: the detector must flag a class-keyed memo whose value reads the diagram
    ctl = ast.parse(
        "def hints(self):\n    owner = self.clazz.clazz\n    if owner in _memo:\n        return _memo[owner]\n"
        "    result = resolve(owner, self.clazz._class_diagram.wrapped_classes)\n    _memo[owner] = result\n    return result\n"
    ).body[0]
    got = _memo_findings(ctl, {"_memo"})
    ok_ctl = ast.parse("def hints(self):\n    owner = self.clazz.clazz\n    _memo[owner] = resolve(owner.__name__)\n    return _memo[owner]\n").body[0]
    r.control_ok = bool(got and got[0][2]) and not any(fr for _, _, fr in _memo_findings(ok_ctl, {"_memo"}))
    return r


# rustworkx calls that address an edge by its two end points: with parallel edges they see (or remove) one arbitrary edge of the pair
BY_ENDPOINTS = {"get_edge_data", "adj", "adj_direction", "has_edge", "remove_edge", "update_edge", "get_all_edge_data_first"}


def _endpoint_lookups(fn_node) -> List[ast.Call]:
    """by-end-point calls, except where the end points are what the *caller* handed in (a loop over a parameter): then addressing an edge
    by its end points is the function's contract, not a lookup of an edge the function enumerated itself"""
    params = {a.arg for a in fn_node.args.posonlyargs + fn_node.args.args + fn_node.args.kwonlyargs}
    from_params = set()
    for lp in [x for x in ast.walk(fn_node) if isinstance(x, ast.For)]:
        if isinstance(lp.iter, ast.Name) and lp.iter.id in params:
            from_params |= {y.id for y in ast.walk(lp.target) if isinstance(y, ast.Name)}
    out = []
    for c in ast.walk(fn_node):
        if isinstance(c, ast.Call) and isinstance(c.func, ast.Attribute) and c.func.attr in BY_ENDPOINTS and not (isinstance(c.func.value, ast.Name) and c.func.value.id == "self"):
            names = {y.id for a in c.args for y in ast.walk(a) if isinstance(y, ast.Name)}
            if names and names <= (from_params | params - {"self"}):
                continue
            out.append(c)
    return out


def cd_multi(prog: Program) -> RuleResult:
    """The diagram is a multigraph: a class and its subclass are connected by an inheritance edge and, when a field of the class has the
    subclass as its type, by an association edge as well. Code that means one particular edge must not address it by its end points."""
    r = RuleResult("CD-MULTI", "edges of the diagram are never looked up or removed by their end points", floor=0)
    n = 0
    for m in prog.modules.values():
        if ".class_diagrams" not in m.name:
            continue
        for f in [f for f in prog.functions.values() if f.module is m]:
            hits = _endpoint_lookups(f.node)
            if not any(isinstance(x, ast.Attribute) and x.attr == "_dependency_graph" for x in ast.walk(f.node)) and not hits:
                continue
            n += 1
            r.check(not hits, f"{f.short}#edges-by-index", site(f, hits[0]) if hits else site(f), src(hits[0])[:80] if hits else "",
                    "edges are enumerated with their data (weighted_edge_list / out_edges / edge_index_map)",
                    f"{src(hits[0])[:60] if hits else ''} addresses an edge by its end points: when an inheritance and an association connect the same two classes only one of them is "
                    f"seen (Node(kids: List[Kid]), Kid(Node): the inheritance is missing from parent_map, the association from the neighbours)")
    r.note(f"{n} functions touch the dependency graph")
    ctl = ast.parse("def f(self):\n    for u, v in self._dependency_graph.edge_list():\n        rel = self._dependency_graph.get_edge_data(u, v)\n").body[0]
    ok = ast.parse("def f(self):\n    for u, v, rel in self._dependency_graph.weighted_edge_list():\n        pass\n").body[0]
    r.control_ok = bool(_endpoint_lookups(ctl)) and not _endpoint_lookups(ok)
    return r


def _shared_default(prog):
    # derived views share nothing with the diagram they come from, default arguments included
    from .shareddefault import shared_default

    return shared_default(prog, ["class_diagrams."], 50)


def wf_resolved(prog: Program) -> RuleResult:
    """Everything the classification of a field reads goes through WrappedField.resolved_type, and the classification table (WF-TABLE)
    takes that value to be the *resolved* annotation: classes, not names - also below Optional[...], List[...], Union[...]. Only
    typing.get_type_hints resolves the forward references nested inside a typing construct (the raw field.type of `Optional["Node"]`
    is Optional[ForwardRef('Node')]; inspect.get_annotations(eval_str=True) only evaluates annotations that are strings as a whole).
    Every value resolved_type returns is taken out of a get_type_hints(...) result for the field's own name."""
    from ..astutil import site, src, call_name
    from ..model import walk_local

    r = RuleResult("WF-RESOLVED", "a field's resolved type is taken from typing.get_type_hints of its class on every path", floor=1)
    wf = prog.cls("wrapped_field.WrappedField")
    f = prog.lookup(wf.qual, "resolved_type")
    if f is None:
        raise AnalysisError("WF-RESOLVED: WrappedField.resolved_type vanished")
    rets = [x for x in walk_local(f.node) if isinstance(x, ast.Return)]
    if not rets:
        raise AnalysisError("WF-RESOLVED: WrappedField.resolved_type returns nothing")
    # locals assigned from a get_type_hints(...)[...] subscript
    def from_hints(e, seen=(), fn=None):
        fn = fn or f
        if isinstance(e, ast.Subscript) and isinstance(e.value, ast.Call) and call_name(e.value) == "get_type_hints":
            q = f.module.resolve(e.value.func) if isinstance(e.value.func, ast.Name) else None
            return q is None or q.replace("ext:", "").split(".")[0] in ("typing", "typing_extensions")
        if isinstance(e, ast.Subscript) and isinstance(e.value, ast.Name) and e.value.id not in f.module.globals_ and e.value.id not in seen:
            # hints = get_type_hints(...); hints[name]
            defs = [x.value for x in walk_local(fn.node) if isinstance(x, ast.Assign) and any(isinstance(t, ast.Name) and t.id == e.value.id for t in x.targets)]
            return bool(defs) and all(isinstance(d, ast.Call) and from_hints(ast.Subscript(value=d, slice=e.slice, ctx=ast.Load()), seen + (e.value.id,), fn) for d in defs)
        if isinstance(e, ast.Name) and e.id not in seen:
            defs = [x.value for x in walk_local(fn.node) if isinstance(x, ast.Assign) and any(isinstance(t, ast.Name) and t.id == e.id for t in x.targets)]
            return bool(defs) and all(from_hints(d, seen + (e.id,), fn) for d in defs)
        if isinstance(e, ast.Subscript) and isinstance(e.value, ast.Name) and e.value.id in f.module.globals_:
            # a module-level memo: everything the module stores in it went through get_type_hints
            stores = [(g, x) for g in prog.functions.values() if g.module is f.module for x in walk_local(g.node)
                      if isinstance(x, ast.Assign) and any(isinstance(t, ast.Subscript) and isinstance(t.value, ast.Name) and t.value.id == e.value.id for t in x.targets)]
            return bool(stores) and all(from_hints(x.value, (), g) for g, x in stores)
        return False
    bad = [x for x in rets if x.value is None or not from_hints(x.value)]
    r.check(not bad, "WrappedField.resolved_type#from-get_type_hints", site(f, bad[0]) if bad else site(f), src(bad[0])[:100] if bad else f"{len(rets)} returns",
            "every returned value is get_type_hints(...)[name]",
            f"{src(bad[0])[:80] if bad else ''} hands back an annotation that did not go through typing.get_type_hints: a forward reference nested inside Optional[...] / "
            "List[...] stays a ForwardRef, the field's endpoint is not a class - is_enum raises, the relationship to the named class is not found")
    return r


def cd_index(prog: Program) -> RuleResult:
    """Node indices of the diagram are small integers starting at 0 - the first class handed to the diagram has index 0.  "Was it added?" is a
    question for `is None`; a truth test takes class number 0 for a class that was never added ('in any order': the result then depends on
    which class comes first)."""
    r = RuleResult("CD-INDEX", "node indices are compared with None, never tested for truth", floor=1)
    mod_sfx = ("class_diagrams.class_diagram", "ormatic.ormatic", "entity_query_language.symbol_graph")
    n = 0
    for f in sorted(prog.functions.values(), key=lambda x: x.qual):
        if not f.module.name.endswith(mod_sfx):
            continue
        idx = set()
        for x in walk_local(f.node):
            if isinstance(x, ast.Assign):
                tg, v = x.targets[0], x.value
                pairs = list(zip(tg.elts, v.elts)) if isinstance(tg, ast.Tuple) and isinstance(v, ast.Tuple) and len(tg.elts) == len(v.elts) else [(tg, v)]
                for t, vv in pairs:
                    if isinstance(t, ast.Name) and isinstance(vv, ast.Attribute) and vv.attr == "index":
                        idx.add(t.id)

        def is_index(e) -> bool:
            return (isinstance(e, ast.Attribute) and e.attr == "index") or (isinstance(e, ast.Name) and e.id in idx)

        uses = [x for x in walk_local(f.node) if is_index(x)]
        if not uses:
            continue
        n += 1
        bad = None
        for x in walk_local(f.node):
            tests = []
            if isinstance(x, (ast.If, ast.While, ast.IfExp, ast.Assert)):
                tests.append(x.test)
            if isinstance(x, ast.comprehension):
                tests += x.ifs
            if isinstance(x, ast.BoolOp):
                tests += x.values
            if isinstance(x, ast.UnaryOp) and isinstance(x.op, ast.Not):
                tests.append(x.operand)
            for t in tests:
                todo = [t]
                while todo:
                    y = todo.pop()
                    if isinstance(y, ast.BoolOp):
                        todo += y.values
                    elif isinstance(y, ast.UnaryOp) and isinstance(y.op, ast.Not):
                        todo.append(y.operand)
                    elif is_index(y):
                        bad = bad or (x, y)
        r.check(bad is None, f"{f.short}#indices-not-truth-tested", site(f, bad[0]) if bad else site(f), src(bad[0])[:80] if bad else f"{len(uses)} use(s) of a node index",
                "indices are passed on, compared or tested against None",
                f"`{src(bad[1]) if bad else ''}` is tested for truth in `{src(bad[0])[:60] if bad else ''}`: index 0 - the first class of the diagram - counts as missing (a self-association of the first "
                f"class is dropped, and only when that class comes first)")
    if n < 1:
        raise AnalysisError("CD-INDEX: no function uses a node index")
    return r


def cd_identity(prog: Program) -> RuleResult:
    """'A class of the diagram' is that class object.  Two classes can share a name (catalogue.Item and __main__.Item; a base class and the
    subclass that shadows it): looking a class up by its name makes a field typed with the *other* Item an association edge, and a diagram
    class whose base is its outside namesake its own ancestor.  The lookup answers for the object it was asked about, or raises."""
    r = RuleResult("CD-IDENTITY", "a class is looked up in the diagram by the class object, never by its name", floor=1)
    cd = prog.cls("class_diagram.ClassDiagram")
    n = 0
    for nm in ("get_wrapped_class", "add_node"):
        f = cd.methods.get(nm)
        if f is None:
            continue
        n += 1
        by_name = [x for x in walk_local(f.node) if isinstance(x, ast.Compare) and any(isinstance(y, ast.Attribute) and y.attr in ("__name__", "__qualname__") for y in ast.walk(x))]
        by_name += [x for x in walk_local(f.node) if isinstance(x, ast.Compare) and any(isinstance(y, ast.Call) and isinstance(y.func, ast.Name) and y.func.id in ("str", "repr", "getattr") and
                    any(isinstance(z, ast.Constant) and z.value in ("__name__", "__qualname__") for z in ast.walk(y)) for y in ast.walk(x))]
        # names bound from getattr(x, "__name__") / x.__name__ and compared later
        named = {t.id for x in walk_local(f.node) if isinstance(x, ast.Assign) and len(x.targets) == 1 and isinstance(x.targets[0], ast.Name) for t in x.targets
                 if any((isinstance(y, ast.Attribute) and y.attr in ("__name__", "__qualname__")) or (isinstance(y, ast.Constant) and y.value in ("__name__", "__qualname__")) for y in ast.walk(x.value))}
        by_name += [x for x in walk_local(f.node) if isinstance(x, ast.Compare) and any(isinstance(y, ast.Name) and y.id in named for y in ast.walk(x))]
        r.check(not by_name, f"{f.short}#by-the-class-object", site(f, by_name[0]) if by_name else site(f), src(by_name[0])[:80] if by_name else "", "classes are matched as objects (dictionary lookup, identity)",
                f"`{src(by_name[0])[:60] if by_name else ''}` matches classes by name: a class outside the diagram that shares its name with a diagram class is answered with that class - fields typed "
                "with it become association edges, a diagram class that extends it becomes its own ancestor")
    if n < 1:
        raise AnalysisError("CD-IDENTITY: ClassDiagram.get_wrapped_class vanished")
    return r


def cd_generic(prog: Program) -> RuleResult:
    """Which field of a role class is its role taker is said by the parameter of Role[...] - of the class itself *or of the class it inherits
    it from*: class Senior(Employee) with Employee(Role[Person]) is a role of a Person too.  `cls.__orig_bases__` is found through the
    ordinary attribute lookup and so is inherited; typing's get_original_bases(cls) reads the class's own namespace only and answers
    (Employee,) - no parameter, and building the diagram raises on None[0]."""
    r = RuleResult("CD-GENERIC", "the parameter of a generic base is found for subclasses of the parametrised class as well", floor=1)
    f = next((f_ for f_ in prog.functions.values() if f_.name == "get_generic_type_param" and f_.cls is None and f_.module.name.endswith("class_diagrams.utils")), None)
    if f is None:
        raise AnalysisError("CD-GENERIC: class_diagrams.utils.get_generic_type_param vanished")
    inherited = any((isinstance(x, ast.Call) and isinstance(x.func, ast.Name) and x.func.id == "getattr" and len(x.args) >= 2 and isinstance(x.args[1], ast.Constant) and x.args[1].value == "__orig_bases__")
                    or (isinstance(x, ast.Attribute) and x.attr in ("__orig_bases__",)) for x in walk_local(f.node))
    walks_mro = any(isinstance(x, ast.Attribute) and x.attr == "__mro__" for x in walk_local(f.node)) or any(isinstance(x, ast.Call) and call_name(x) == "mro" for x in walk_local(f.node))
    own_only = [x for x in walk_local(f.node) if isinstance(x, ast.Call) and call_name(x) == "get_original_bases"] + [x for x in walk_local(f.node) if isinstance(x, ast.Subscript) and "__dict__" in src(x.value) and "__orig_bases__" in src(x.slice)]
    ok = (inherited or walks_mro) and not (own_only and not walks_mro)
    r.check(ok, f"{f.short}#inherited-parameter", site(f, own_only[0]) if own_only else site(f), src(own_only[0])[:60] if own_only else "__orig_bases__ through attribute lookup", "the generic bases are looked up with inheritance",
            f"`{src(own_only[0])[:50] if own_only else 'no lookup of the generic bases'}` reads the class's own generic bases only: for a subclass of a parametrised role class the parameter is not found, "
            "and the diagram of any class set that contains such a subclass cannot be built")
    return r


def run(prog: Program, tier: str) -> List[RuleResult]:
    return [guard(lambda: wf_table(prog)), guard(lambda: cd_edges(prog)), guard(lambda: cd_readonly(prog)), guard(lambda: cd_memo(prog)), guard(lambda: cd_multi(prog)), guard(lambda: _shared_default(prog)), guard(lambda: wf_resolved(prog)), guard(lambda: cd_index(prog)), guard(lambda: cd_identity(prog)), guard(lambda: cd_generic(prog))]
