"""C20 - krrood never extends the lifetime of user objects.

STRONG-REF  type-level heap graph: no chain of strong references from a process-lifetime root
            (class-level / module-level mutable container, singleton, lru_cache table) to a user
            object.  Weak references, InitVars and class-valued fields carry no edge.
Bookkeeping entries left behind are decided by SG-COHERENCE / IDKEY (C14), cross-referenced.
"""
from __future__ import annotations

import ast
from typing import Dict, List, Optional, Set, Tuple

from ..model import Program, AnalysisError, FuncInfo, ClassInfo, FieldInfo, walk_local, dotted
from ..report import RuleResult, guard
from ..astutil import src, site, calls_in, call_name, is_self_attr
from . import c14

EXPLANATION = (
    "Reachability in a type-level heap graph built from the source: nodes are the repository's classes plus the pseudo "
    "node USER (fields typed by a type variable, Any, object, Symbol or a bare Iterable hold user objects); an edge A -> B "
    "exists when a field of A is annotated with B (through Optional / containers / subclasses) - unless the annotation is a "
    "weak reference, an InitVar or a class-valued Type[...]. Roots are found, not listed: every ClassVar or module-level "
    "mutable container, every singleton metaclass table (its values are the classes using the metaclass) and the hidden "
    "table of every lru_cache (it retains self and every argument). A root with a strong path to USER keeps every user "
    "object that ever flowed there alive for the life of the process. A root container whose only insertion is in "
    "__enter__ and whose only removal is in __exit__ of the same class is empty outside `with` and is exempt by that pairing "
    "rule. Actual reclamation (the garbage collector's behaviour) is not decided."
)
ASSUMPTIONS = [
    "field annotations describe what the fields hold (the graph is built from annotations, not from observed stores)",
    "functools.lru_cache keeps strong references to all arguments; weakref.ref / ReferenceType do not",
    "classes and functions are not 'user objects' in the sense of the property (their lifetime is the process anyway)",
]

USER = "USER"
USER_NAMES = {"T", "Any", "object", "Symbol"}
CONTAINER_HEADS = {"Optional", "List", "Set", "Dict", "Tuple", "Iterable", "Sequence", "ClassVar", "DefaultDict", "list", "set", "dict", "tuple", "Union",
                   "TypingUnion", "FrozenSet", "Deque", "Generic", "HashedIterable", "HashedValue", "PyDiGraph", "PyDAG", "SortedSet", "InstanceDict", "InProgressDict"}


class Heap:
    def __init__(self, prog: Program):
        self.prog = prog
        self.edges: Dict[str, Set[Tuple[str, str]]] = {}  # node -> {(target, label)}
        for c in prog.classes.values():
            self._class_edges(c)

    def add(self, a: str, b: str, label: str):
        self.edges.setdefault(a, set()).add((b, label))

    def ann_targets(self, ann: Optional[ast.expr], mod) -> Set[str]:
        """classes (quals) / USER that a value of this annotation may strongly hold"""
        out: Set[str] = set()
        if ann is None:
            return out
        if isinstance(ann, ast.Constant) and isinstance(ann.value, str):
            try:
                ann = ast.parse(ann.value, mode="eval").body
            except SyntaxError:
                return out
        if isinstance(ann, ast.Constant):
            return out
        if isinstance(ann, ast.BinOp) and isinstance(ann.op, ast.BitOr):
            return self.ann_targets(ann.left, mod) | self.ann_targets(ann.right, mod)
        if isinstance(ann, ast.Subscript):
            head = (dotted(ann.value) or "")
            last = head.split(".")[-1]
            if "weakref" in head or last in ("ReferenceType", "ref", "WeakValueDictionary", "WeakSet", "WeakKeyDictionary"):
                return out
            if last in ("Type", "type", "Callable", "InitVar", "Literal"):
                return out
            q = mod.resolve(ann.value)
            if q in self.prog.classes:
                # parametrised repo generic (SymbolicExpression[T], HashedValue[T]): the parameter is not a
                # field; what the class holds is described by its own field annotations
                out.add(q)
                return out
            inner = ann.slice.elts if isinstance(ann.slice, ast.Tuple) else [ann.slice]
            for i in inner:
                out |= self.ann_targets(i, mod)
            return out
        if isinstance(ann, (ast.Name, ast.Attribute)):
            d = dotted(ann) or ""
            last = d.split(".")[-1]
            if "weakref" in d or last in ("ReferenceType",):
                return out
            if last in USER_NAMES:
                q = mod.resolve(ann)
                # the repo's own Symbol base class is the user-object type
                out.add(USER)
                return out
            if last in ("Iterable",):
                out.add(USER)
                return out
            q = mod.resolve(ann)
            if q in self.prog.classes:
                out.add(q)
            elif q and q.split(".")[-1] in ("DomainType", "EntityType", "ConditionType"):
                out.add(USER)
            return out
        if isinstance(ann, (ast.List, ast.Tuple)):
            for e in ann.elts:
                out |= self.ann_targets(e, mod)
        return out

    def _class_edges(self, c: ClassInfo):
        for n, fi in c.attrs.items():
            if fi.annotation is None or fi.is_initvar or fi.is_classvar:
                continue
            for t in self.ann_targets(fi.annotation, c.module):
                self.add(c.qual, t, f".{n}: {fi.ann_text[:50]}")
        # a cached_property keeps what it returned in the instance for the instance's lifetime: a field of the return type, and of
        # whatever the body returns when that is visibly a user object (x.instance / getattr(x.instance, ...), not wrapped again)
        for n, m in c.methods.items():
            if not m.is_cached_property:
                continue
            for t in self.ann_targets(m.node.returns, c.module):
                self.add(c.qual, t, f".{n} (cached_property) -> {src(m.node.returns)[:40] if m.node.returns is not None else ''}")
            raw = self._returns_user_object(m)
            if raw is not None:
                self.add(c.qual, USER, f".{n} (cached_property) returns {raw[:50]}")
        # a field typed C may hold any subclass of C; a subclass instance has its bases' fields
        for b in c.bases:
            if b in self.prog.classes:
                self.add(b, c.qual, "(subclass)")
                self.add(c.qual, b, "(inherited fields)")

    @staticmethod
    def _returns_user_object(m) -> Optional[str]:
        """source text of a returned expression that denotes a user object read out of a weak wrapper (x.instance, getattr(x.instance, a))"""
        def user_expr(e, names) -> bool:
            if isinstance(e, ast.Name):
                return e.id in names
            if isinstance(e, ast.Attribute) and e.attr == "instance":
                return True
            if isinstance(e, ast.Call) and isinstance(e.func, ast.Name) and e.func.id == "getattr" and e.args and user_expr(e.args[0], names):
                return True
            if isinstance(e, ast.IfExp):
                return user_expr(e.body, names) or user_expr(e.orelse, names)
            return False

        names: Set[str] = set()
        for _ in range(3):
            for x in walk_local(m.node):
                if isinstance(x, ast.Assign) and len(x.targets) == 1 and isinstance(x.targets[0], ast.Name):
                    if user_expr(x.value, names):
                        names.add(x.targets[0].id)
                    elif x.targets[0].id in names and not user_expr(x.value, names):
                        pass
        # a name re-bound to a wrapped value afterwards (role_taker = ensure_wrapped_instance(role_taker)) is judged by its last binding
        last: Dict[str, ast.expr] = {}
        for x in sorted([y for y in walk_local(m.node) if isinstance(y, ast.Assign) and len(y.targets) == 1 and isinstance(y.targets[0], ast.Name)], key=lambda y: (y.lineno, y.col_offset)):
            last[x.targets[0].id] = x.value
        for x in walk_local(m.node):
            if isinstance(x, ast.Return) and x.value is not None:
                v = x.value
                if isinstance(v, ast.Name) and v.id in last:
                    v = last[v.id]
                if user_expr(v, names - set(last)) or (not isinstance(v, ast.Name) and user_expr(v, set())):
                    return src(x.value)
        return None

    def path_to_user(self, starts: Set[str]) -> Optional[List[Tuple[str, str]]]:
        prev: Dict[str, Tuple[Optional[str], str]] = {s: (None, "") for s in starts}
        work = list(starts)
        while work:
            n = work.pop(0)
            if n == USER:
                path = []
                while n is not None:
                    p, lab = prev[n]
                    path.append((n, lab))
                    n = p
                return path[::-1]
            for t, lab in sorted(self.edges.get(n, ())):
                if t not in prev:
                    prev[t] = (n, lab)
                    work.append(t)
        return None


def _is_mutable_container_value(v: Optional[ast.expr]) -> bool:
    if v is None:
        return False
    if isinstance(v, (ast.Dict, ast.List, ast.Set)):
        return True
    if isinstance(v, ast.Call):
        nm = call_name(v)
        return nm in ("dict", "list", "set", "defaultdict", "OrderedDict", "deque", "PyDAG", "PyDiGraph", "WeakValueDictionary") or nm[:1].isupper()
    return False


def _scoped_stack(prog: Program, owner: ClassInfo, attr: str) -> bool:
    """only insertion in __enter__ and only removal in __exit__ of the owner class"""
    adds, dels, others = [], [], []
    for f in prog.functions.values():
        for c in calls_in(f.node):
            if isinstance(c.func, ast.Attribute) and isinstance(c.func.value, ast.Attribute) and c.func.value.attr == attr:
                m = c.func.attr
                if m in ("append", "add", "extend", "insert", "update", "__setitem__"):
                    adds.append(f)
                elif m in ("pop", "remove", "clear"):
                    dels.append(f)
        for n in walk_local(f.node):
            if isinstance(n, ast.Assign):
                for t in n.targets:
                    if isinstance(t, ast.Subscript) and isinstance(t.value, ast.Attribute) and t.value.attr == attr:
                        adds.append(f)
    return bool(adds) and bool(dels) and all(f.name == "__enter__" and f.cls is not None and prog.is_subclass(f.cls.qual, owner.qual) for f in adds) and all(
        f.name == "__exit__" and f.cls is not None and prog.is_subclass(f.cls.qual, owner.qual) for f in dels
    )


def _mutated_attrs(prog: Program) -> Set[str]:
    """attribute / global names that are the receiver of an insertion somewhere in the program"""
    out = set()
    for f in prog.functions.values():
        for n in walk_local(f.node):
            if isinstance(n, ast.Call) and isinstance(n.func, ast.Attribute) and n.func.attr in ("append", "add", "extend", "insert", "update", "setdefault", "add_node", "add_edge", "add_nodes_from", "__setitem__"):
                v = n.func.value
                while isinstance(v, ast.Subscript):
                    v = v.value
                if isinstance(v, ast.Attribute):
                    out.add(v.attr)
                elif isinstance(v, ast.Name):
                    out.add(v.id)
            if isinstance(n, (ast.Assign, ast.AugAssign)):
                for t in (n.targets if isinstance(n, ast.Assign) else [n.target]):
                    if isinstance(t, ast.Subscript):
                        v = t.value
                        while isinstance(v, ast.Subscript):
                            v = v.value
                        if isinstance(v, ast.Attribute):
                            out.add(v.attr)
                        elif isinstance(v, ast.Name):
                            out.add(v.id)
    return out


def _live_functions(prog: Program) -> Set[str]:
    """names of functions that can run: public names, dunders and properties, closed under 'is called by name from a live function'"""
    called_by: Dict[str, Set[str]] = {}
    for f in prog.functions.values():
        for n in walk_local(f.node):
            nm = None
            if isinstance(n, ast.Call):
                nm = call_name(n)
            elif isinstance(n, ast.Attribute):
                nm = n.attr
            if nm:
                called_by.setdefault(nm, set()).add(f.name)
    live = {f.name for f in prog.functions.values() if not f.name.startswith("_") or (f.name.startswith("__") and f.name.endswith("__"))}
    live |= {"_evaluate__"}
    changed = True
    while changed:
        changed = False
        for nm, callers in called_by.items():
            if nm not in live and (callers - {nm}) & live:
                live.add(nm)
                changed = True
    return live


def strong_ref(prog: Program) -> RuleResult:
    r = RuleResult("STRONG-REF", "no strong path from a process-lifetime root to user objects", floor=12)
    heap = Heap(prog)
    roots: List[Tuple[str, str, Set[str], str]] = []  # (key, site, start nodes, description)
    meta_users: Dict[str, List[ClassInfo]] = {}
    for c in prog.classes.values():
        m = c.metaclass
        if m in prog.classes:
            meta_users.setdefault(m, []).append(c)
    for c in sorted(prog.classes.values(), key=lambda x: x.qual):
        for n, fi in c.attrs.items():
            if fi.is_classvar and _is_mutable_container_value(fi.value):
                starts = heap.ann_targets(fi.annotation, c.module)
                if c.qual in meta_users:
                    # table of a singleton metaclass: its values are instances of the classes using it
                    starts = {u.qual for u in meta_users[c.qual]}
                if fi.value is not None and isinstance(fi.value, ast.Call) and call_name(fi.value) in ("PyDAG", "PyDiGraph") and not starts - {USER}:
                    starts = starts | {c.qual}  # a graph owned by the class stores its own nodes
                roots.append((f"{c.name}.{n}", f"{c.module.relpath}:{fi.stmt.lineno}", starts, f"ClassVar {fi.ann_text[:60]}", c, n))
    for m in sorted(prog.modules.values(), key=lambda x: x.name):
        for n, st in m.globals_.items():
            v = st.value if isinstance(st, (ast.Assign, ast.AnnAssign)) else None
            if not _is_mutable_container_value(v):
                continue
            if isinstance(v, ast.Call) and call_name(v) in ("TypeVar", "getLogger", "local", "ContextVar", "IDGenerator", "ColorLegend"):
                if call_name(v) != "IDGenerator":
                    continue
            starts = set()
            if isinstance(st, ast.AnnAssign):
                starts = heap.ann_targets(st.annotation, m)
            if isinstance(v, ast.Call):
                q = m.resolve(v.func)
                if q in prog.classes:
                    starts.add(q)
            roots.append((f"{m.name.split('.')[-1]}.{n}", f"{m.relpath}:{st.lineno}", starts, "module-level object", None, n))
    for f in sorted(prog.functions.values(), key=lambda x: x.qual):
        if "@setter" in f.qual:
            continue
        if f.is_lru_cache:
            starts = set()
            a = f.node.args
            for p in a.posonlyargs + a.args + a.kwonlyargs:
                if p.annotation is not None:
                    starts |= heap.ann_targets(p.annotation, f.module)
            if f.cls is not None and not f.is_staticmethod and not f.is_classmethod:
                starts.add(f.cls.qual)
            roots.append((f"lru_cache:{f.short}", site(f), starts, "lru_cache table (retains self and arguments)", None, None))
    if len(roots) < 12:
        raise AnalysisError(f"STRONG-REF: only {len(roots)} process-lifetime roots discovered")
    mutated = _mutated_attrs(prog)
    live = _live_functions(prog)
    for key, st, starts, desc, owner, attr in roots:
        path = heap.path_to_user(starts)
        if path is not None and attr is not None and attr not in mutated:
            r.ok(key, st, desc, "constant table: nothing in the program inserts into it")
            continue
        if path is not None and key.startswith("lru_cache:") and key.split(".")[-1] not in live:
            r.ok(key, st, desc, "cache of a function nothing live calls: its table stays empty")
            continue
        if path is not None and owner is not None and attr and _scoped_stack(prog, owner, attr):
            r.ok(key, st, desc, "scoped: only pushed in __enter__ and popped in __exit__ of the same class - empty outside `with`")
            continue
        pretty = " -> ".join(f"{n.split('.')[-1]}{(' ' + lab) if lab else ''}" for n, lab in (path or []))
        r.check(
            path is None, key, st, desc,
            "holds no user object (classes, ints, weak references only)",
            f"process-lifetime root with a strong chain to user objects: {key} -> {pretty}; every user object that reaches it stays alive after "
            f"the program dropped its own references",
            path=pretty,
        )
    return r


def weak_wrapper(prog: Program) -> RuleResult:
    r = RuleResult("WEAK-WRAPPER", "the instance graph and monitored containers refer to user objects weakly", floor=3)
    wi = prog.cls("symbol_graph.WrappedInstance")
    flds = prog.fields(wi.qual)
    inst = flds.get("instance")
    r.check(inst is not None and inst.is_initvar, "WrappedInstance.instance#initvar", wi.loc, inst.ann_text if inst else "", "the instance is an InitVar (not stored)",
            "WrappedInstance stores its instance in a field: the symbol graph keeps every Symbol alive")
    ref = flds.get("instance_reference")
    r.check(ref is not None and ("weakref" in ref.ann_text or "ReferenceType" in ref.ann_text), "WrappedInstance.instance_reference#weak", wi.loc, ref.ann_text if ref else "",
            "weak reference", "the reference to the instance is not weak")
    pi = prog.lookup(wi.qual, "__post_init__")
    ok = pi is not None and any(isinstance(s, ast.Assign) and src(s.targets[0]) == "self.instance_reference" and isinstance(s.value, ast.Call) and (dotted(s.value.func) or "").endswith("ref") and "weakref" in (dotted(s.value.func) or "") for s in walk_local(pi.node))
    strong_store = pi is not None and any(isinstance(s, ast.Assign) and isinstance(s.targets[0], ast.Attribute) and src(s.value) == pi.params[1] for s in walk_local(pi.node))
    r.check(ok and not strong_store, "WrappedInstance.__post_init__#weakref", site(pi) if pi else wi.loc, "", "stores weakref.ref(instance) only",
            "the wrapper stores the instance itself")
    mc = prog.cls("monitored_container.MonitoredContainer")
    bo = prog.lookup(mc.qual, "_bind_owner")
    ok = bo is not None and any(isinstance(s, ast.Assign) and src(s.targets[0]) == "self._owner_ref" and isinstance(s.value, ast.Call) and "ref" in (dotted(s.value.func) or "") for s in walk_local(bo.node))
    r.check(ok, "MonitoredContainer._bind_owner#weak", site(bo) if bo else mc.loc, "", "owner bound weakly", "a monitored container holds its owner strongly (owner <-> container cycle kept alive by inferred elements)")
    return r


_WEAK_WRAPS = ("id", "type", "WrappedInstance", "ref", "weakref.ref", "proxy", "weakref.proxy", "WeakMethod", "isinstance", "len", "hash", "repr", "str")


def sg_no_raw(prog: Program) -> RuleResult:
    """The symbol graph is a process-wide singleton: whatever one of its attributes refers to lives as long as the process. Its methods are
    handed raw user instances all the time (to look them up, to wrap them). None of them stores one - in an attribute of the graph, in an
    element of one, through a mutator - except inside a WrappedInstance (which holds it weakly) or as its id(): a "last answer" memo, a
    list of recently resolved instances, a cache keyed by the instance itself keep the instance, and everything it refers to, alive after
    the program has dropped it."""
    r = RuleResult("SG-NO-RAW", "no method of the symbol graph stores a raw instance in the graph", floor=3)
    sg = prog.cls("symbol_graph.SymbolGraph")
    n = 0
    for name, f in sorted(sg.methods.items()):
        a = f.node.args
        raw = set()
        for p in (a.posonlyargs + a.args + a.kwonlyargs)[1:]:
            t = ast.unparse(p.annotation) if p.annotation is not None else ""
            # a parameter that is (or may be) the user's object itself
            if t in ("", "Any", "Symbol", "T", "Optional[Any]") or "Symbol" in t and "Type" not in t or p.arg in ("instance", "obj"):
                raw.add(p.arg)
        for _ in range(2):
            for x in walk_local(f.node):
                if isinstance(x, ast.Assign):
                    v = x.value
                    derived = (isinstance(v, ast.Attribute) and v.attr == "instance") or (isinstance(v, ast.Name) and v.id in raw)
                    if derived:
                        raw |= {t.id for t in x.targets if isinstance(t, ast.Name)}
                if isinstance(x, (ast.For, ast.comprehension)) and isinstance(x.target, ast.Name) and isinstance(x.iter, ast.Name) and x.iter.id in raw:
                    pass
        if not raw:
            continue
        n += 1

        def carries_raw(e) -> bool:
            """the expression's value refers to a raw instance strongly"""
            if isinstance(e, ast.Name):
                return e.id in raw
            if isinstance(e, ast.Attribute):
                return e.attr == "instance" and not is_self_attr(e)
            if isinstance(e, ast.Call):
                nm = dotted(e.func) or ""
                if nm in _WEAK_WRAPS or nm.split(".")[-1] in _WEAK_WRAPS:
                    return False
                return any(carries_raw(x) for x in e.args) or any(carries_raw(k.value) for k in e.keywords)
            if isinstance(e, (ast.Tuple, ast.List, ast.Set)):
                return any(carries_raw(x) for x in e.elts)
            if isinstance(e, ast.Dict):
                return any(carries_raw(x) for x in list(e.keys) + list(e.values) if x is not None)
            if isinstance(e, ast.IfExp):
                return carries_raw(e.body) or carries_raw(e.orelse)
            if isinstance(e, ast.BoolOp):
                return any(carries_raw(x) for x in e.values)
            return False

        bad = None
        for x in walk_local(f.node):
            if isinstance(x, (ast.Assign, ast.AugAssign, ast.AnnAssign)):
                tg = x.targets if isinstance(x, ast.Assign) else [x.target]
                for t in tg:
                    base = t
                    key = None
                    while isinstance(base, ast.Subscript):
                        key = base.slice
                        base = base.value
                    if is_self_attr(base) or (isinstance(base, ast.Attribute) and isinstance(base.value, ast.Call) and call_name(base.value) == "type"):
                        if x.value is not None and carries_raw(x.value) or (key is not None and carries_raw(key)):
                            bad = bad or x
            if isinstance(x, ast.Call) and isinstance(x.func, ast.Attribute) and x.func.attr in ("append", "add", "insert", "extend", "update", "setdefault", "appendleft") :
                base = x.func.value
                while isinstance(base, ast.Subscript):
                    base = base.value
                if is_self_attr(base) and any(carries_raw(y) for y in x.args):
                    bad = bad or x
        r.check(bad is None, f"SymbolGraph.{name}#stores-no-raw-instance", site(f, bad) if bad is not None else site(f), src(bad)[:80] if bad is not None else f"raw instances in scope: {sorted(raw)}",
                "the raw instances this method handles reach the graph only wrapped (weakly) or as ids",
                f"{src(bad)[:70] if bad is not None else ''} stores a raw instance in the process-wide graph: the instance that was resolved / related last stays alive after the program has "
                "dropped it - with its node, its edges, its index entries, and everything its own fields refer to; a domain-less variable still ranges over it")
    if n < 3:
        raise AnalysisError(f"SG-NO-RAW: only {n} methods of SymbolGraph handle raw instances")
    return r


def _pd_field(prog):
    # a relation is registered in the relation index under its field and purged under its field: the two are the same key only if the
    # relation carries its final field from the moment it is built
    from .c15 import pd_field

    return pd_field(prog)


def _stream_lazy(prog):
    # a variable that was only built must not hold the instances its domain would range over: the domain stream is stored, not read
    from .c10 import stream_lazy

    return stream_lazy(prog)


def wrapper_eq(prog: Program) -> RuleResult:
    """The sweep takes a dead wrapper out of the per-class list with list.remove, which compares it with the live wrappers in front of it.  A
    wrapper whose instance is gone equals nothing - and the question must not reach the user's __eq__ with None on either side: a permissive
    __eq__ (label == getattr(other, 'label', None)), or one that builds an expression object, answers 'equal', the *live* wrapper is removed
    and the dead one stays for good."""
    r = RuleResult("WRAPPER-EQ", "a wrapper compares instances only when both are alive", floor=1)
    wi = prog.cls("symbol_graph.WrappedInstance")
    f = wi.methods.get("__eq__")
    if f is None:
        r.ok("WrappedInstance.__eq__#both-sides-alive", wi.loc, "", "identity comparison (no __eq__ defined)")
        return r
    aliases = {}
    for x in walk_local(f.node):
        if isinstance(x, ast.Assign) and len(x.targets) == 1 and isinstance(x.targets[0], ast.Name):
            aliases[x.targets[0].id] = src(x.value)

    def canon(e) -> str:
        t = src(e)
        return aliases.get(t, t)

    compared = set()
    for x in walk_local(f.node):
        if isinstance(x, ast.Compare) and len(x.ops) == 1 and isinstance(x.ops[0], (ast.Eq, ast.NotEq)):
            for side in (x.left, x.comparators[0]):
                if "instance" in canon(side):
                    compared.add(canon(side))
    alive = set()
    for x in walk_local(f.node):
        if isinstance(x, ast.Compare) and len(x.ops) == 1 and isinstance(x.ops[0], (ast.IsNot, ast.Is)) and isinstance(x.comparators[0], ast.Constant) and x.comparators[0].value is None:
            alive.add(canon(x.left))
    missing = sorted(compared - alive)
    r.check(not missing, "WrappedInstance.__eq__#both-sides-alive", site(f), f"compares {sorted(compared)}", "each instance that is compared was tested against None",
            f"{missing} is handed to the user's __eq__ without a test for None: comparing a live wrapper with a dead one asks the live instance whether it equals None - a user __eq__ that "
            "says yes makes the sweep remove the live wrapper and keep the dead one")
    return r


def exc_kept(prog: Program) -> RuleResult:
    """A caught exception carries its traceback, the traceback its frames, the frames their locals - the very instances the failing operation
    was about.  Stored on an object the library keeps (a relation is edge data of the symbol graph, an expression is in the expression
    registry), the exception pins those instances for as long as the graph lives: they are never reclaimed, never swept, and the graph
    grows with every failed relating statement."""
    r = RuleResult("EXC-KEPT", "no caught exception is stored on an object the library keeps", floor=1)
    n = 0
    bad = None
    for f in sorted(prog.functions.values(), key=lambda x: x.qual):
        if ".entity_query_language." not in f.qual and ".ontomatic." not in f.qual and ".class_diagrams." not in f.qual:
            continue
        for h in [x for x in walk_local(f.node) if isinstance(x, ast.ExceptHandler) and x.name]:
            n += 1
            for st in h.body:
                for x in ast.walk(st):
                    stores = []
                    if isinstance(x, ast.Assign):
                        stores = [(t, x.value) for t in x.targets]
                    if isinstance(x, ast.Call) and isinstance(x.func, ast.Attribute) and x.func.attr in ("append", "add", "setdefault", "update") and x.args:
                        stores = [(x.func.value, a) for a in x.args]
                    for tgt, val in stores:
                        kept = isinstance(tgt, (ast.Attribute, ast.Subscript)) or (isinstance(tgt, ast.Attribute))
                        if kept and any(isinstance(y, ast.Name) and y.id == h.name for y in ast.walk(val)):
                            # str(e) / repr(e) / type(e) keep no traceback
                            plain = isinstance(val, ast.Call) and isinstance(val.func, ast.Name) and val.func.id in ("str", "repr", "type", "format")
                            if not plain:
                                bad = bad or (f, x)
    r.check(bad is None, "library#no-stored-exception", site(bad[0], bad[1]) if bad else "src/krrood", src(bad[1])[:80] if bad else f"{n} named handler(s)", "caught exceptions are handled, re-raised or reduced to text",
            f"`{src(bad[1])[:70] if bad else ''}` ({bad[0].short if bad else ''}) keeps the exception object: its traceback holds the frames of the failed operation and, through their locals, the instances involved - "
            "they stay alive, in the symbol graph and in every domain-less variable, after the program dropped them")
    if n < 1:
        r.note("no named exception handler in the scanned packages")
    return r


def run(prog: Program, tier: str) -> List[RuleResult]:
    from . import c13

    return [guard(lambda: strong_ref(prog)), guard(lambda: weak_wrapper(prog)), guard(lambda: c14.sg_coherence(prog)), guard(lambda: c14.idkey(prog)), guard(lambda: c14.sg_purge_directions(prog)), guard(lambda: c13.sg_sweep(prog)), guard(lambda: _stream_lazy(prog)),
            # an edge whose payload was overwritten leaves its pair in the relation index for good
            guard(lambda: c14.rel_edges(prog)), guard(lambda: sg_no_raw(prog)), guard(lambda: _pd_field(prog)), guard(lambda: wrapper_eq(prog)), guard(lambda: exc_kept(prog)),
            # between an instance's death and the next sweep its edges are still stored: what reads them leaves out the ones with a dead endpoint
            guard(lambda: c14.rel_live(prog))]
